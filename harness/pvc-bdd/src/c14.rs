//! C14 - blind rotation evaluates the lookup table at the encrypted index (engine E1).
//!
//! Families (each x backend)
//! * `clear/<be>`       lookup_table_set against the definition (table replicated in steps of domain/len, scaled to
//!   2^-k, pre-rotated by half a step) on Z[Y]/(Y^(N*ext)+1); then, for EVERY rotation index k in [0, 2*N*ext) and both
//!   signs, lookup_table_rotate against the index-level ring model on every limb, and the selection statement: the
//!   constant coefficient is the table entry selected by the index, with the negacyclic sign on wrap-around.
//! * `clear-wide/<be>`  rotation amounts outside (-2D, 2D): the documented meaning is "by k positions in the ring".
//! * `blind/<be>`       every message of Z_{2^p}, p = 1..5, encrypted as LWE by the library; the rotation index is
//!   recomputed from the LWE limbs and the clear secret (definition of the modulus switch), compared coefficient by
//!   coefficient with the library's public mod_switch_2n; the GLWE result is decrypted with the exact phase and must
//!   be the table rotated by that index, coefficient by coefficient, within the derived worst-case noise bound; when
//!   the error budget is below half a step the constant coefficient must be f(m).
//! * `blind-mask/<be>`  crafted noiseless LWE samples: every value v in [0, 2D) at every mask position (others 0),
//!   which drives every per-coefficient rotation amount through the accumulator update.

use crate::lutmodel::*;
use poulpy_bin_fhe::blind_rotation::{
    BlindRotationExecute, BlindRotationKey, BlindRotationKeyEncryptSk, BlindRotationKeyLayout, BlindRotationKeyPrepared,
    BlindRotationKeyPreparedFactory, CGGI, LookUpTableLayout, LookUpTableRotationDirection, LookupTable, LookupTableFactory,
    mod_switch_2n,
};
use poulpy_bin_fhe::verif_hooks::{lut_drift, lut_limbs};
use poulpy_core::layouts::{
    GLWE, GLWELayout, GLWESecret, GLWESecretPrepared, GLWESecretPreparedFactory, LWE, LWELayout, LWEPlaintext, LWESecret, LWEToRef,
};
use poulpy_core::{EncryptionLayout, LWEEncryptSk, ScratchTakeCore};
use poulpy_hal::layouts::{DeviceBuf, Module, Scratch, VecZnx, ZnxInfos, ZnxView, ZnxViewMut};
use poulpy_hal::source::Source;
use pvc_common::phase::{Dist, clear_secret, glwe_phase};
use pvc_common::{Bk, CoreAll, HalAll, for_backends};
use pvc_engine::rng::garbage;
use pvc_engine::{Rec, Run, Tier, fnv, guarded, hash_i64s};
use pvc_model::{ring, torus};
use serde::{Deserialize, Serialize};
use serde_json::{Value, json};

pub trait BrAll<B: Bk>:
    LookupTableFactory
    + BlindRotationKeyEncryptSk<CGGI, B>
    + BlindRotationKeyPreparedFactory<CGGI, B>
    + BlindRotationExecute<CGGI, B>
    + GLWESecretPreparedFactory<B>
    + LWEEncryptSk<B>
{
}
impl<B: Bk, T> BrAll<B> for T where
    T: LookupTableFactory
        + BlindRotationKeyEncryptSk<CGGI, B>
        + BlindRotationKeyPreparedFactory<CGGI, B>
        + BlindRotationExecute<CGGI, B>
        + GLWESecretPreparedFactory<B>
        + LWEEncryptSk<B>
{
}

// ===============================================================================================================
// clear path
// ===============================================================================================================

#[derive(Clone, Debug, Serialize, Deserialize)]
pub struct ClearCase {
    pub backend: String,
    pub n: usize,
    pub ext: usize,
    pub len: usize,
    /// scale argument of lookup_table_set: entries are placed at 2^-k_msg
    pub k_msg: usize,
    pub base2k: usize,
    /// limbs of the table
    pub size: usize,
    pub alpha: Alpha,
}

/// limbs[e][j][i] of a table, through hook H2
fn read_table(lut: &LookupTable) -> Vec<Vec<Vec<i64>>> {
    lut_limbs(lut).iter().map(|v: &VecZnx<Vec<u8>>| (0..v.size()).map(|j| v.at(0, j).to_vec()).collect()).collect()
}

/// per-limb polynomial over the extended ring: ext[j][pos], pos = m*ext + e  <->  data[e][j][m]
fn extended(limbs: &[Vec<Vec<i64>>]) -> Vec<Vec<i64>> {
    let ext = limbs.len();
    let size = limbs[0].len();
    let n = limbs[0][0].len();
    (0..size).map(|j| (0..n * ext).map(|pos| limbs[pos % ext][j][pos / ext]).collect()).collect()
}

fn new_lut<B: Bk>(c: &ClearCase) -> LookupTable {
    LookupTable::alloc(&LookUpTableLayout {
        n: (c.n as u32).into(),
        extension_factor: c.ext,
        k: ((c.size * c.base2k) as u32).into(),
        base2k: (c.base2k as u32).into(),
    })
}

pub fn exec_clear<B: Bk>(c: &ClearCase, only_k: Option<i64>, rec: &mut Rec)
where
    Module<B>: HalAll<B> + CoreAll<B> + BrAll<B>,
    Scratch<B>: ScratchTakeCore<B>,
{
    let m = B::module(c.n);
    let d = c.n * c.ext;
    let bits = c.size * c.base2k;
    let f = alpha_table(c.alpha, c.len, c.k_msg);
    let fail = |kind: &str, inner: Value, extra: Value| json!({"op": "lookup_table", "backend": B::NAME, "kind": kind, "case": c, "inner": inner, "detail": extra});
    rec.distinct(fnv(format!("{:?}", c).as_bytes()));
    rec.sample(|| serde_json::to_value(c).unwrap());

    // ---- set ----
    let mut lut = new_lut::<B>(c);
    if let Err(msg) = guarded(|| m.lookup_table_set(&mut lut, &f, c.k_msg)) {
        rec.fail(json!({"op": "lookup_table_set", "backend": B::NAME, "kind": "panic", "case": c, "inner": {}, "panic": msg}));
        return;
    }
    rec.evals(1);
    let model = LutModel::new(d, &f, c.k_msg, bits);
    let l0 = read_table(&lut);
    if lut_drift(&lut) != model.drift {
        rec.fail(fail("wrong_drift", json!({}), json!({"got": lut_drift(&lut), "want": model.drift})));
    }
    if l0.len() != c.ext || l0.iter().any(|e| e.len() != c.size || e.iter().any(|l| l.len() != c.n)) {
        rec.fail(fail("wrong_shape", json!({}), json!({"slots": l0.len()})));
        return;
    }
    // digit range + value
    let e0 = extended(&l0);
    let half = 1i64 << (c.base2k - 1);
    for pos in 0..d {
        let digits: Vec<i64> = (0..c.size).map(|j| e0[j][pos]).collect();
        if digits.iter().any(|&x| x < -half || x > half) {
            rec.fail(fail("set_digit_out_of_range", json!({"pos": pos}), json!({"digits": digits})));
            return;
        }
        let got = torus::value_scaled_small(&digits, c.base2k);
        let want = model.pre[pos] as i128;
        if torus::centered_mod_pow2_i128(got - want, bits) != 0 {
            rec.fail(fail(
                "set_wrong_value",
                json!({"pos": pos}),
                json!({"digits": digits, "got_scaled": got.to_string(), "want_scaled": want.to_string(), "drift": model.drift, "step": model.step}),
            ));
            return;
        }
    }
    rec.outcome(hash_i64s(&e0.concat()));
    // re-use: setting another function on a rotated table must equal a fresh set
    {
        let f2: Vec<i64> = f.iter().map(|x| x + 1).collect();
        let mut a = new_lut::<B>(c);
        let mut b = new_lut::<B>(c);
        let r = guarded(|| {
            m.lookup_table_set(&mut a, &f, c.k_msg);
            m.lookup_table_rotate(3, &mut a);
            m.lookup_table_set(&mut a, &f2, c.k_msg);
            m.lookup_table_set(&mut b, &f2, c.k_msg);
        });
        rec.evals(1);
        match r {
            Err(msg) => rec.fail(json!({"op": "lookup_table_set", "backend": B::NAME, "kind": "panic", "case": c, "inner": {"reuse": true}, "panic": msg})),
            Ok(()) => {
                if read_table(&a) != read_table(&b) || lut_drift(&a) != lut_drift(&b) {
                    rec.fail(fail("set_depends_on_previous_content", json!({"reuse": true}), json!({})));
                }
            }
        }
    }

    // ---- rotate: every k in [0, 2D), both signs; sequence T0 -k-> A -(-k)-> T0 -(-k)-> C -k-> T0 ----
    let two_d = 2 * d as i64;
    let scale_bits = bits - c.k_msg;
    for k in 0..two_d {
        if let Some(o) = only_k {
            if o != k {
                continue;
            }
        }
        for (stage, rot) in [k, -k, -k, k].into_iter().enumerate() {
            if let Err(msg) = guarded(|| m.lookup_table_rotate(rot, &mut lut)) {
                rec.fail(json!({"op": "lookup_table_rotate", "backend": B::NAME, "kind": "panic", "case": c, "inner": {"k": k, "stage": stage, "rot": rot}, "panic": msg}));
                return;
            }
            rec.evals(1);
            // net rotation after this stage
            let net = match stage {
                0 => k,
                2 => -k,
                _ => 0,
            };
            let got = extended(&read_table(&lut));
            for j in 0..c.size {
                let want = ring::mul_xk(&e0[j], net);
                if got[j] != want {
                    let pos = (0..d).find(|&p| got[j][p] != want[p]).unwrap();
                    rec.fail(fail(
                        "rotate_wrong_value",
                        json!({"k": k, "stage": stage, "rot": rot}),
                        json!({"limb": j, "pos": pos, "slot": pos % c.ext, "index": pos / c.ext, "got": got[j][pos], "want": want[pos]}),
                    ));
                    return;
                }
            }
            if lut_drift(&lut) != model.drift {
                rec.fail(fail("rotate_changed_drift", json!({"k": k, "stage": stage}), json!({"got": lut_drift(&lut)})));
                return;
            }
            if stage == 0 || stage == 2 {
                // selection statement on the constant coefficient: rotation by X^net brings coefficient (-net mod 2D) to 0
                let t = ((-net) % two_d + two_d) % two_d;
                let (sign, idx) = model.select(t as usize);
                let want = (sign * f[idx]) as i128 * (1i128 << scale_bits);
                let digits: Vec<i64> = (0..c.size).map(|j| got[j][0]).collect();
                let have = torus::value_scaled_small(&digits, c.base2k);
                if torus::centered_mod_pow2_i128(have - want, bits) != 0 {
                    rec.fail(fail(
                        "wrong_entry_selected",
                        json!({"k": k, "stage": stage, "rot": rot}),
                        json!({"index": t, "entry": idx, "sign": sign, "f": f[idx], "digits": digits}),
                    ));
                    return;
                }
            }
        }
    }
}

#[derive(Clone, Debug, Serialize, Deserialize)]
pub struct WideCase {
    pub backend: String,
    pub n: usize,
    pub ext: usize,
    pub base2k: usize,
}

pub fn exec_wide<B: Bk>(c: &WideCase, rec: &mut Rec)
where
    Module<B>: HalAll<B> + CoreAll<B> + BrAll<B>,
    Scratch<B>: ScratchTakeCore<B>,
{
    let m = B::module(c.n);
    let d = (c.n * c.ext) as i64;
    let cc = ClearCase {
        backend: c.backend.clone(),
        n: c.n,
        ext: c.ext,
        len: 4,
        k_msg: 3,
        base2k: c.base2k,
        size: 2,
        alpha: Alpha::Odd,
    };
    let f = alpha_table(cc.alpha, cc.len, cc.k_msg);
    rec.distinct(fnv(format!("{:?}", c).as_bytes()));
    let ks: Vec<i64> = vec![2 * d, 2 * d + 1, 4 * d + 3, 6 * d - 1, -2 * d, -2 * d - 1, -3 * d, -4 * d - 3, -6 * d + 1, i64::from(i32::MAX), -i64::from(i32::MAX)];
    for k in ks {
        let mut lut = new_lut::<B>(&cc);
        let r = guarded(|| {
            m.lookup_table_set(&mut lut, &f, cc.k_msg);
        });
        if r.is_err() {
            return;
        }
        let e0 = extended(&read_table(&lut));
        let r = guarded(|| m.lookup_table_rotate(k, &mut lut));
        rec.evals(1);
        let class = if k >= 2 * d { "k>=2D" } else { "k<=-2D" };
        match r {
            Err(msg) => rec.fail(json!({"op": "lookup_table_rotate", "backend": B::NAME, "kind": "panic", "case": c, "inner": {"k": k}, "range": class, "panic": msg})),
            Ok(()) => {
                let got = extended(&read_table(&lut));
                let ok = (0..cc.size).all(|j| got[j] == ring::mul_xk(&e0[j], k));
                if !ok {
                    rec.fail(json!({"op": "lookup_table_rotate", "backend": B::NAME, "kind": "rotate_wrong_value", "case": c, "inner": {"k": k}, "range": class}));
                }
            }
        }
    }
}

fn clear_cases<B: Bk>(tier: Tier) -> Vec<ClearCase> {
    let mut out = vec![];
    for &n in &[8usize, 16, 32] {
        for &ext in &[1usize, 2, 4, 8] {
            let mut len = 1;
            while len <= n {
                for k_msg in 1..=6usize {
                    for &base2k in &[4usize, 12, 19] {
                        let need = k_msg.div_ceil(base2k);
                        let sizes: Vec<usize> = tier.pick(vec![need], vec![need, need + 1]);
                        for size in sizes {
                            let alphas: &[Alpha] = tier.pick(&[Alpha::Index, Alpha::Extreme][..], &ALL_ALPHAS[..]);
                            for &alpha in alphas {
                                out.push(ClearCase {
                                    backend: B::NAME.into(),
                                    n,
                                    ext,
                                    len,
                                    k_msg,
                                    base2k,
                                    size,
                                    alpha,
                                });
                            }
                        }
                    }
                }
                len *= 2;
            }
        }
    }
    out.sort_by_key(|c| (c.n * c.ext, c.len, c.k_msg));
    out
}

fn fam_clear<B: Bk>(run: &mut Run)
where
    Module<B>: HalAll<B> + CoreAll<B> + BrAll<B>,
    Scratch<B>: ScratchTakeCore<B>,
{
    let cases = clear_cases::<B>(run.tier);
    run.family(
        &format!("clear/{}", B::NAME),
        "outer = (N in {8,16,32}, ext in {1,2,4,8}, table length dividing the domain (<= N), scale k in 1..6 (message precision 1..5 with padding bit, and 1 without), base2k in {4,12,19}, limbs, value alphabet); inner = set vs definition at every coefficient (value mod 1 + digit range), then every k in [0, 2*N*ext): rotate(k), rotate(-k), rotate(-k), rotate(k) each compared limb-exactly with the ring model, and the constant coefficient with the entry selected by the index (negacyclic sign)",
        cases,
        |c, rec| exec_clear::<B>(c, None, rec),
    );
    let mut wide = vec![];
    for &n in &[8usize, 32] {
        for &ext in &[1usize, 2, 8] {
            wide.push(WideCase {
                backend: B::NAME.into(),
                n,
                ext,
                base2k: 12,
            });
        }
    }
    run.family(
        &format!("clear-wide/{}", B::NAME),
        "rotation amounts outside (-2D, 2D): k in {2D, 2D+1, 4D+3, 6D-1, -2D, -2D-1, -3D, -4D-3, -6D+1, +-(2^31-1)} against the ring model",
        wide,
        |c, rec| exec_wide::<B>(c, rec),
    );
}

// ===============================================================================================================
// blind path
// ===============================================================================================================

pub const BR_BASE2K: usize = 19;
pub const K_LWE: usize = 24;
pub const K_BRK: usize = 3 * BR_BASE2K;
pub const DNUM_BRK: usize = 2;
pub const K_LUT: usize = BR_BASE2K;
pub const K_RES: usize = 2 * BR_BASE2K;
pub const RANK: usize = 1;
/// |e| <= ceil(6 * 3.2) for every error coefficient (truncated Gaussian, rounded)
pub const ERR_BOUND: f64 = 20.0;

#[derive(Clone, Copy, Debug, PartialEq, Eq, Serialize, Deserialize)]
pub enum LweDist {
    /// fill_binary_block(block)
    Block,
    /// fill_binary_hw(n/2)
    BinaryHw,
    /// fill_binary_prob(0.5)
    BinaryProb,
    Zero,
}

#[derive(Clone, Debug, Serialize, Deserialize)]
pub struct BlindCase {
    pub backend: String,
    pub n_glwe: usize,
    pub n_lwe: usize,
    pub block: usize,
    pub dist: LweDist,
    pub ext: usize,
    pub left: bool,
    pub key_seed: u8,
    pub lwe_base2k: usize,
    /// true: crafted noiseless samples (family blind-mask); false: library-encrypted messages
    pub crafted: bool,
    /// precision of the lookup table: K_LUT (one limb, narrower than the accumulator) or K_RES (as many limbs as the
    /// accumulator, so that nothing but the rotation itself overwrites the garbage the receiver held before)
    #[serde(default = "default_k_lut")]
    pub k_lut: usize,
}

fn default_k_lut() -> usize {
    K_LUT
}

struct BlindCtx<B: Bk> {
    module: Module<B>,
    sk_glwe_clear: Vec<Vec<i64>>,
    sk_lwe: LWESecret<Vec<u8>>,
    brk: BlindRotationKeyPrepared<DeviceBuf<B>, CGGI, B>,
    scratch_bytes: usize,
    enc_scratch_bytes: usize,
}

fn blind_ctx<B: Bk>(c: &BlindCase) -> Result<BlindCtx<B>, String>
where
    Module<B>: HalAll<B> + CoreAll<B> + BrAll<B>,
    Scratch<B>: ScratchTakeCore<B>,
{
    guarded(|| {
        let module = B::module(c.n_glwe);
        let brk_infos = EncryptionLayout::new_from_default_sigma(BlindRotationKeyLayout {
            n_glwe: (c.n_glwe as u32).into(),
            n_lwe: (c.n_lwe as u32).into(),
            base2k: (BR_BASE2K as u32).into(),
            k: (K_BRK as u32).into(),
            dnum: (DNUM_BRK as u32).into(),
            rank: (RANK as u32).into(),
        })
        .unwrap();
        let glwe_infos = glwe_infos(c.n_glwe);
        let mut seed_g = [c.key_seed; 32];
        seed_g[1] = 0x51;
        let mut seed_l = [c.key_seed; 32];
        seed_l[1] = 0x52;
        let mut sk_glwe: GLWESecret<Vec<u8>> = GLWESecret::alloc_from_infos(&glwe_infos);
        sk_glwe.fill_ternary_prob(0.5, &mut Source::new(seed_g));
        let sk_glwe_clear = clear_secret(c.n_glwe, RANK, Dist::TernaryProb, seed_g);
        let mut sk_prep: GLWESecretPrepared<DeviceBuf<B>, B> = module.glwe_secret_prepared_alloc_from_infos(&glwe_infos);
        module.glwe_secret_prepare(&mut sk_prep, &sk_glwe);
        let mut sk_lwe: LWESecret<Vec<u8>> = LWESecret::alloc((c.n_lwe as u32).into());
        let mut src_l = Source::new(seed_l);
        match c.dist {
            LweDist::Block => sk_lwe.fill_binary_block(c.block, &mut src_l),
            LweDist::BinaryHw => sk_lwe.fill_binary_hw((c.n_lwe / 2).max(1), &mut src_l),
            LweDist::BinaryProb => sk_lwe.fill_binary_prob(0.5, &mut src_l),
            LweDist::Zero => sk_lwe.fill_zero(),
        }
        let enc_bytes = BlindRotationKey::<Vec<u8>, CGGI>::encrypt_sk_tmp_bytes(&module, &brk_infos).max(module.lwe_encrypt_sk_tmp_bytes(&lwe_layout(c)));
        let mut scratch = B::scratch(enc_bytes);
        garbage(&mut B::borrow(&mut scratch).data, 0);
        let mut brk: BlindRotationKey<Vec<u8>, CGGI> = BlindRotationKey::<Vec<u8>, CGGI>::alloc(&brk_infos);
        let mut sxe = Source::new([c.key_seed.wrapping_add(2); 32]);
        let mut sxa = Source::new([c.key_seed.wrapping_add(1); 32]);
        module.blind_rotation_key_encrypt_sk(&mut brk, &sk_prep, &sk_lwe, &brk_infos, &mut sxe, &mut sxa, B::borrow(&mut scratch));
        let block = if c.dist == LweDist::Block { c.block } else { 1 };
        let exec_bytes = BlindRotationKeyPrepared::<DeviceBuf<B>, CGGI, B>::execute_tmp_bytes(&module, block, c.ext, &glwe_infos, &brk_infos);
        let prep_bytes = BlindRotationKeyPrepared::<DeviceBuf<B>, CGGI, B>::prepare_tmp_bytes(&module, &brk_infos);
        let mut brk_prep: BlindRotationKeyPrepared<DeviceBuf<B>, CGGI, B> = BlindRotationKeyPrepared::alloc(&module, &brk);
        let mut sp = B::scratch(prep_bytes.max(64));
        garbage(&mut B::borrow(&mut sp).data, 0);
        brk_prep.prepare(&module, &brk, B::borrow(&mut sp));
        BlindCtx {
            module,
            sk_glwe_clear,
            sk_lwe,
            brk: brk_prep,
            scratch_bytes: exec_bytes,
            enc_scratch_bytes: enc_bytes,
        }
    })
}

fn glwe_infos(n: usize) -> GLWELayout {
    GLWELayout {
        n: (n as u32).into(),
        base2k: (BR_BASE2K as u32).into(),
        k: (K_RES as u32).into(),
        rank: (RANK as u32).into(),
    }
}

fn lwe_layout(c: &BlindCase) -> LWELayout {
    LWELayout {
        n: (c.n_lwe as u32).into(),
        k: (K_LWE as u32).into(),
        base2k: (c.lwe_base2k as u32).into(),
    }
}

/// worst-case |phase error| of the blind-rotation output, scaled by 2^K_RES (derivation in the family rule text)
pub fn noise_bound_scaled(n_glwe: usize, n_lwe: usize) -> i128 {
    // one accumulator update adds (X^a - 1) * (acc (x) BRK_i):
    //   gadget product: (rank+1) columns x dnum digits, digit magnitude <= 2^(b-1), row error <= ERR_BOUND * 2^-K_BRK per
    //   coefficient, negacyclic product of N terms;
    //   rounding of the product to the K_RES-bit accumulator: <= 1 unit per column, (1 + rank*N) units in the phase
    //   (ternary secret);
    //   factor 2 for (X^a - 1).
    let gadget = ((RANK + 1) * DNUM_BRK * n_glwe) as f64 * (2f64).powi(BR_BASE2K as i32 - 1) * ERR_BOUND * (2f64).powi(K_RES as i32 - K_BRK as i32);
    let round = (1 + RANK * n_glwe) as f64;
    let per_step = 2.0 * (gadget + round);
    // final normalisation / copy: one more unit per column
    (n_lwe as f64 * per_step + round).ceil() as i128 + 1
}

/// balanced base-2^b digits (most significant first) of value/2^(size*b) mod 1
fn balanced_digits(value: i128, b: usize, size: usize) -> Vec<i64> {
    let bits = size * b;
    let mut v = torus::centered_mod_pow2_i128(value, bits);
    let mut out = vec![0i64; size];
    let base = 1i128 << b;
    let half = base >> 1;
    for j in (0..size).rev() {
        let mut dgt = v.rem_euclid(base);
        if dgt >= half {
            dgt -= base;
        }
        out[j] = dgt as i64;
        v = (v - dgt) >> b;
    }
    out
}

/// records a failure and counts it per class (the per-thread failure cap drops descriptors, never counts)
fn fail_count(rec: &mut Rec, d: Value) {
    let key = format!(
        "fail:{}:mod_switch_multi_limb={}:ext_gt_1={}{}",
        d["kind"].as_str().unwrap_or("?"),
        d["mod_switch_multi_limb"].as_bool().map(|b| b.to_string()).unwrap_or_else(|| "-".into()),
        d["ext_gt_1"].as_bool().map(|b| b.to_string()).unwrap_or_else(|| "-".into()),
        d.get("ext_boundary_rotation").and_then(|b| b.as_bool()).map(|b| format!(":ext_boundary_rotation={b}")).unwrap_or_default()
    );
    rec.add(&key, 1);
    rec.fail(d);
}

struct Sample {
    lwe: LWE<Vec<u8>>,
    /// message and precision for the semantic check (encrypted samples only)
    msg: Option<(usize, usize)>,
    inner: Value,
}

#[allow(clippy::too_many_arguments)]
fn check_sample<B: Bk>(ctx: &BlindCtx<B>, scratch_bytes: usize, c: &BlindCase, lut: &LookupTable, model: &LutModel, f: &[i64], p: usize, s: &Sample, gfill: usize, rec: &mut Rec)
where
    Module<B>: HalAll<B> + CoreAll<B> + BrAll<B>,
    Scratch<B>: ScratchTakeCore<B>,
{
    let m = &ctx.module;
    let d = c.n_glwe * c.ext;
    let two_d = 2 * d as i64;
    let dir = if c.left { LookUpTableRotationDirection::Left } else { LookUpTableRotationDirection::Right };
    // which code path of the library's modulus switch this sample takes (classification only, never used by a check):
    // radix > log2(2D) + 1 -> the top limb alone is rounded; otherwise several limbs are concatenated
    let log2_two_d = (two_d as u64).trailing_zeros() as usize;
    let multi_limb = c.lwe_base2k <= log2_two_d + 1;
    let fail = |kind: &str, extra: Value| json!({"op": "blind_rotation", "backend": B::NAME, "kind": kind, "case": c, "inner": s.inner, "p": p,
        "mod_switch_multi_limb": multi_limb, "ext_gt_1": c.ext > 1, "detail": extra});
    let sk: Vec<i64> = ctx.sk_lwe.raw().to_vec();
    let hw: i64 = sk.iter().map(|x| x.abs()).sum();

    // ---- modulus switch: definition vs library ----
    let lb = c.lwe_base2k;
    let lsize = s.lwe.data().size();
    let lbits = lsize * lb;
    let coeff_val = |i: usize| -> i128 {
        let digits: Vec<i64> = (0..lsize).map(|j| s.lwe.data().at(0, j)[i]).collect();
        torus::value_scaled_small(&digits, lb)
    };
    let sign: i128 = if c.left { -1 } else { 1 };
    let mut lib = vec![0i64; c.n_lwe + 1];
    if let Err(msg) = guarded(|| mod_switch_2n(2 * d, &mut lib, &s.lwe.to_ref(), dir)) {
        fail_count(rec, fail("panic", json!({"where": "mod_switch_2n", "panic": msg})));
        return;
    }
    // exact scaled index contribution of coefficient i: sign * value_i * 2D / 2^lbits ; compare lib_i * 2^lbits with it mod 2D*2^lbits
    let modulus_bits = lbits + (two_d as u64).trailing_zeros() as usize;
    let mut inadmissible: Option<Value> = None;
    let mut exact_total: i128 = 0; // scaled by 2^lbits
    let mut lib_total: i64 = 0;
    for i in 0..=c.n_lwe {
        let exact = sign * coeff_val(i) * two_d as i128;
        let diff = torus::centered_mod_pow2_i128(((lib[i] as i128) << lbits) - exact, modulus_bits);
        if diff.abs() >= (1i128 << lbits) && inadmissible.is_none() {
            inadmissible = Some(json!({"coefficient": i, "library": lib[i], "exact_times_2D": exact as f64 / (2f64).powi(lbits as i32),
                "error_units": diff as f64 / (2f64).powi(lbits as i32), "lwe_base2k": lb, "two_d": two_d}));
        }
        let w = if i == 0 { 1 } else { sk[i - 1] };
        exact_total += exact * w as i128;
        lib_total += lib[i] * w;
    }
    let k_lib = lib_total.rem_euclid(two_d);
    if let Some(v) = inadmissible {
        fail_count(rec, fail("mod_switch_inadmissible", v));
    }

    // ---- the real blind rotation ----
    let gi = glwe_infos(c.n_glwe);
    let mut res: GLWE<Vec<u8>> = GLWE::alloc_from_infos(&gi);
    garbage(res.data_mut().data.as_mut_slice(), gfill);
    let mut scratch = B::scratch(scratch_bytes);
    garbage(&mut B::borrow(&mut scratch).data, gfill);
    let r = guarded(|| ctx.brk.execute(m, &mut res, &s.lwe, lut, B::borrow(&mut scratch)));
    rec.evals(1);
    if let Err(msg) = r {
        fail_count(rec, fail("panic", json!({"where": "execute", "panic": msg, "k_lib": k_lib})));
        return;
    }
    // exact phase, centred, scaled by 2^K_RES
    let ph: Vec<i128> = glwe_phase(res.data(), BR_BASE2K, &ctx.sk_glwe_clear)
        .iter()
        .map(|x| i128::try_from(torus::centered_mod_pow2(x, K_RES)).unwrap())
        .collect();
    let bound = noise_bound_scaled(c.n_glwe, c.n_lwe);
    let up = K_RES - c.k_lut; // table values are scaled by 2^k_lut
    // which rotations of the table does the result equal (within the bound)?
    let matches_rot = |t: i64| -> (bool, i128) {
        let mut worst = 0i128;
        for (mm, &phv) in ph.iter().enumerate() {
            let want = (model.rotated_coeff(t, mm * c.ext) as i128) << up;
            let e = torus::centered_mod_pow2_i128(phv - want, K_RES).abs();
            if e > worst {
                worst = e;
            }
            if e > bound {
                return (false, e);
            }
        }
        (true, worst)
    };
    let (ok_lib, err_lib) = matches_rot(k_lib);
    rec.outcome(fnv(format!("{}:{}", p, k_lib).as_bytes()));
    if ok_lib {
        rec.add(&format!("noise_log2_le_{}", 128 - (err_lib.max(1) as u128).leading_zeros() as i64 - K_RES as i64), 1);
    } else {
        // which rotation (if any) was realised?
        let found: Vec<i64> = (0..two_d).filter(|&t| matches_rot(t).0).collect();
        // classification: a secret-one coefficient whose rotation amount a = hi*ext + lo has lo != 0 and hi in {0, 2N-1}
        let two_n = 2 * c.n_glwe;
        let boundary = c.ext > 1
            && (0..c.n_lwe).any(|i| {
                let ap = lib[1 + i].rem_euclid(two_d) as usize;
                sk[i] != 0 && ap % c.ext != 0 && (ap / c.ext == 0 || ap / c.ext == two_n - 1)
            });
        let mut desc = fail(
            "wrong_rotation",
            json!({"index_from_library_mod_switch": k_lib, "rotations_matching_result": found, "delta": found.first().map(|t| (t - k_lib).rem_euclid(two_d)),
                "a_mod_switched": lib, "sk_lwe": sk, "bound_log2": (bound as f64).log2() - K_RES as f64, "first_error_log2": (err_lib as f64).log2() - K_RES as f64,
                "ai_hi_lo": lib[1..].iter().map(|&a| { let ap = a.rem_euclid(two_d) as usize; (ap / c.ext, ap % c.ext) }).collect::<Vec<_>>()}),
        );
        desc["ext_boundary_rotation"] = json!(boundary);
        fail_count(rec, desc);
        return;
    }
    // ---- definition window: the realised index must be within (1 + hw) units of the exact index ----
    let dw = torus::centered_mod_pow2_i128(((k_lib as i128) << lbits) - exact_total, modulus_bits);
    if dw.abs() >= ((1 + hw) as i128) << lbits {
        fail_count(rec, fail(
            "index_outside_definition_window",
            json!({"k_lib": k_lib, "exact_index": exact_total as f64 / (2f64).powi(lbits as i32), "units_off": dw as f64 / (2f64).powi(lbits as i32), "hw": hw}),
        ));
    }
    // ---- semantic statement (standard direction): constant coefficient decodes to f(m) ----
    if let Some((msg, p)) = s.msg {
        if c.left {
            let lwe_err_units = (ERR_BOUND * (2f64).powi(-(K_LWE as i32)) * two_d as f64).ceil() as i64 + 1;
            let budget = 1 + hw + lwe_err_units;
            if (model.step as i64) / 2 > budget {
                rec.add("semantic_checks", 1);
                let want = (f[msg] as i128) << (K_RES - (p + 1));
                let e = torus::centered_mod_pow2_i128(ph[0] - want, K_RES).abs();
                if e > bound {
                    fail_count(rec, fail("wrong_entry", json!({"message": msg, "f": f[msg], "k_lib": k_lib, "ideal_index": msg * model.step, "budget_units": budget, "half_step": model.step / 2})));
                }
            } else {
                rec.add("semantic_skipped_budget_exceeds_half_step", 1);
            }
        }
    }
}

pub fn exec_blind<B: Bk>(c: &BlindCase, only: Option<&Value>, thorough_bodies: bool, rec: &mut Rec)
where
    Module<B>: HalAll<B> + CoreAll<B> + BrAll<B>,
    Scratch<B>: ScratchTakeCore<B>,
{
    rec.distinct(fnv(format!("{:?}", c).as_bytes()));
    rec.sample(|| serde_json::to_value(c).unwrap());
    let ctx = match blind_ctx::<B>(c) {
        Ok(x) => x,
        Err(msg) => {
            rec.fail(json!({"op": "blind_rotation_key", "backend": B::NAME, "kind": "panic", "case": c, "inner": {}, "panic": msg}));
            return;
        }
    };
    let m = &ctx.module;
    let d = c.n_glwe * c.ext;
    let two_d = 2 * d;
    let dir = if c.left { LookUpTableRotationDirection::Left } else { LookUpTableRotationDirection::Right };
    let ps: Vec<usize> = if c.crafted { vec![3] } else { (1..=5).collect() };
    let lwe_infos = EncryptionLayout::new_from_default_sigma(lwe_layout(c)).unwrap();
    let mut sxe = Source::new([c.key_seed.wrapping_add(11); 32]);
    let mut sxa = Source::new([c.key_seed.wrapping_add(12); 32]);
    let mut gfill = 0usize;
    let mut scratch_bytes = ctx.scratch_bytes;
    let mut probed = false;
    for p in ps {
        // replay: the encryption sources advance through every p, so only crafted (deterministic) cases may skip
        let p_wanted = only.map(|o| o.get("p").and_then(|x| x.as_u64()).map(|x| x as usize == p).unwrap_or(true)).unwrap_or(true);
        if c.crafted && !p_wanted {
            continue;
        }
        let len = 1usize << p;
        // distinct entries so that the realised rotation is identifiable: f(i) = 2i+1 reduced to the signed (p+1)-bit range
        let f: Vec<i64> = (0..len).map(|i| torus::centered_mod_pow2_i128(2 * i as i128 + 1, p + 1) as i64).collect();
        let mut lut = LookupTable::alloc(&LookUpTableLayout {
            n: (c.n_glwe as u32).into(),
            extension_factor: c.ext,
            k: (c.k_lut as u32).into(),
            base2k: (BR_BASE2K as u32).into(),
        });
        if let Err(msg) = guarded(|| {
            lut.set(m, &f, p + 1);
            lut.set_rotation_direction(dir);
        }) {
            rec.fail(json!({"op": "lookup_table_set", "backend": B::NAME, "kind": "panic", "case": c, "inner": {"p": p}, "panic": msg}));
            continue;
        }
        let model = LutModel::new(d, &f, p + 1, c.k_lut);
        // the table the real rotation starts from must be the defined one (also checked exhaustively by clear/*)
        {
            let e0 = extended(&read_table(&lut));
            // value over all limbs of the table (one limb for K_LUT, two for K_RES)
            let val = |pos: usize| -> i64 { e0.iter().fold(0i64, |acc, limb| (acc << BR_BASE2K) + limb[pos]) };
            if (0..d).any(|pos| val(pos) != model.pre[pos]) {
                rec.fail(json!({"op": "lookup_table_set", "backend": B::NAME, "kind": "set_wrong_value", "case": c, "inner": {"p": p}}));
                continue;
            }
        }
        let mut samples: Vec<Sample> = vec![];
        if c.crafted {
            // every value v at every mask position j (others 0), body in {0, 1, D+3} (quick: {1, D+3})
            let all_bodies = [0usize, 1, d + 3];
            let bodies: &[usize] = if thorough_bodies { &all_bodies[..] } else { &all_bodies[1..] };
            let lsize = K_LWE.div_ceil(c.lwe_base2k);
            let lbits = lsize * c.lwe_base2k;
            let unit = 1i128 << (lbits - two_d.trailing_zeros() as usize);
            for j in 0..c.n_lwe {
                for v in 0..two_d {
                    for &body in bodies {
                        if let Some(o) = only {
                            if o.get("j").and_then(|x| x.as_u64()) != Some(j as u64)
                                || o.get("v").and_then(|x| x.as_u64()) != Some(v as u64)
                                || o.get("body").and_then(|x| x.as_u64()) != Some(body as u64)
                            {
                                continue;
                            }
                        }
                        let mut lwe: LWE<Vec<u8>> = LWE::alloc_from_infos(&lwe_infos);
                        let db = balanced_digits(body as i128 * unit, c.lwe_base2k, lsize);
                        let dv = balanced_digits(v as i128 * unit, c.lwe_base2k, lsize);
                        for l in 0..lsize {
                            lwe.data_mut().at_mut(0, l)[0] = db[l];
                            lwe.data_mut().at_mut(0, l)[1 + j] = dv[l];
                        }
                        samples.push(Sample {
                            lwe,
                            msg: None,
                            inner: json!({"p": p, "j": j, "v": v, "body": body}),
                        });
                    }
                }
            }
        } else {
            let err_seeds = 2usize;
            for msg in 0..len {
                for es in 0..err_seeds {
                    // the sources advance deterministically; a replay re-generates the same stream up to the wanted sample
                    let mut lwe: LWE<Vec<u8>> = LWE::alloc_from_infos(&lwe_infos);
                    let mut pt: LWEPlaintext<Vec<u8>> = LWEPlaintext::alloc_from_infos(&lwe_infos);
                    pt.encode_i64(msg as i64, ((p + 1) as u32).into());
                    let mut se = B::scratch(ctx.enc_scratch_bytes);
                    garbage(&mut B::borrow(&mut se).data, gfill & 1);
                    if let Err(e) = guarded(|| m.lwe_encrypt_sk(&mut lwe, &pt, &ctx.sk_lwe, &lwe_infos, &mut sxe, &mut sxa, B::borrow(&mut se))) {
                        rec.fail(json!({"op": "lwe_encrypt_sk", "backend": B::NAME, "kind": "panic", "case": c, "inner": {"p": p, "msg": msg}, "panic": e}));
                        continue;
                    }
                    if let Some(o) = only {
                        if !p_wanted || o.get("msg").and_then(|x| x.as_u64()) != Some(msg as u64) || o.get("err_seed").and_then(|x| x.as_u64()) != Some(es as u64) {
                            continue;
                        }
                    }
                    samples.push(Sample {
                        lwe,
                        msg: Some((msg, p)),
                        inner: json!({"p": p, "msg": msg, "err_seed": es}),
                    });
                }
            }
        }
        if !probed && !samples.is_empty() {
            // the declared scratch size must suffice: probe once per outer case; if the library panics on its own
            // declared size, report it once and continue the functional checks with a larger arena
            probed = true;
            let gi = glwe_infos(c.n_glwe);
            let mut res: GLWE<Vec<u8>> = GLWE::alloc_from_infos(&gi);
            let mut scratch = B::scratch(scratch_bytes);
            garbage(&mut B::borrow(&mut scratch).data, 0);
            if let Err(msg) = guarded(|| ctx.brk.execute(m, &mut res, &samples[0].lwe, &lut, B::borrow(&mut scratch))) {
                if msg.contains("from scratch") {
                    fail_count(rec, json!({"op": "blind_rotation_execute_tmp_bytes", "backend": B::NAME, "kind": "declared_scratch_insufficient", "case": c, "inner": samples[0].inner, "ext_gt_1": c.ext > 1,
                        "declared_bytes": scratch_bytes, "block_gt_1": c.dist == LweDist::Block && c.block > 1, "ext_gt_1": c.ext > 1, "panic": msg}));
                    scratch_bytes = scratch_bytes * 8 + (1 << 16);
                }
            }
        }
        for s in &samples {
            gfill ^= 1;
            check_sample::<B>(&ctx, scratch_bytes, c, &lut, &model, &f, p, s, gfill, rec);
        }
    }
}

fn blind_cases<B: Bk>(tier: Tier, crafted: bool) -> Vec<BlindCase> {
    let mut out = vec![];
    let thorough = tier.is_thorough();
    // the NTT120 backends are ~5x slower per rotation: in the quick tier they run N_glwe = 32, LWE radix 19 only
    let light = !thorough && B::FAMILY == pvc_common::Family::Ntt120;
    let n_glwes: Vec<usize> = if crafted || light { vec![32] } else { vec![32, 64] };
    let shapes: Vec<(usize, usize, LweDist)> = vec![
        (4, 1, LweDist::Block),
        (4, 2, LweDist::Block),
        (4, 4, LweDist::Block),
        (7, 1, LweDist::Block),
        (7, 7, LweDist::Block),
        (8, 1, LweDist::Block),
        (8, 2, LweDist::Block),
        (8, 4, LweDist::Block),
        (8, 8, LweDist::Block),
        (4, 1, LweDist::BinaryHw),
        (7, 1, LweDist::BinaryProb),
        (8, 1, LweDist::BinaryHw),
        (4, 1, LweDist::Zero),
    ];
    let seeds: Vec<u8> = if crafted { vec![1, 2] } else { tier.pick(vec![1, 2], vec![1, 2, 3]) };
    // radix 8 / 7 sit on either side of the library's branch point log2(2D)+1 for D = 32; 4 is the radix of the
    // library's own LWE key-switching keys
    let lwe_b: Vec<usize> = if light {
        vec![19]
    } else if crafted {
        tier.pick(vec![19], vec![19, 12, 8, 7, 4])
    } else {
        tier.pick(vec![19, 4], vec![19, 12, 8, 7, 4])
    };
    for &n_glwe in &n_glwes {
        for &(n_lwe, block, dist) in &shapes {
            if crafted && !thorough && !((n_lwe == 4 && !light) || (n_lwe == 4 && block == 2) || (n_lwe == 8 && block == 4 && !light)) {
                continue;
            }
            for &ext in &[1usize, 2, 4] {
                // the extended algorithm requires the block-binary distribution (asserted by the library)
                if ext > 1 && dist != LweDist::Block {
                    continue;
                }
                for left in [true, false] {
                    for &key_seed in &seeds {
                        for &lwe_base2k in &lwe_b {
                            for k_lut in [K_LUT, K_RES] {
                                out.push(BlindCase {
                                    backend: B::NAME.into(),
                                    n_glwe,
                                    n_lwe,
                                    block,
                                    dist,
                                    ext,
                                    left,
                                    key_seed,
                                    lwe_base2k,
                                    crafted,
                                    k_lut,
                                });
                            }
                        }
                    }
                }
            }
        }
    }
    out.sort_by_key(|c| (c.n_glwe * c.ext, c.n_lwe, c.block));
    out
}

fn fam_blind<B: Bk>(run: &mut Run)
where
    Module<B>: HalAll<B> + CoreAll<B> + BrAll<B>,
    Scratch<B>: ScratchTakeCore<B>,
{
    let cases = blind_cases::<B>(run.tier, false);
    run.family(
        &format!("blind/{}", B::NAME),
        "outer = (N_glwe in {32,64}, (n_lwe, block, distribution), ext in {1,2,4}, direction, key seed, LWE base2k, table precision in {19, 38}); inner = p in 1..5, every message of Z_{2^p}, 2 error draws; checks: mod_switch_2n within 1 unit of the definition per coefficient; exact phase of the result == table rotated by the library's own index at every coefficient within the worst-case bound n_lwe*2*((rank+1)*dnum*N*2^(b-1)*20*2^-k_brk + (1+rank*N)*2^-k_res); index within (1+hw) units of the exact index; Left: constant coefficient == f(m) when the budget is below half a step",
        cases,
        |c, rec| exec_blind::<B>(c, None, true, rec),
    );
    let thorough = run.tier.is_thorough();
    let cases = blind_cases::<B>(run.tier, true);
    run.family(
        &format!("blind-mask/{}", B::NAME),
        "crafted noiseless LWE samples at N_glwe = 32: every value v in [0, 2D) at every mask position j (other mask coefficients 0) x body in {0, 1, D+3} (quick: {1, D+3}); same checks",
        cases,
        |c, rec| exec_blind::<B>(c, None, thorough, rec),
    );
}

pub fn run(run: &mut Run) {
    run.assume("clear path: table lengths are the powers of two dividing the domain and <= N (lookup_table_set asserts f.len() <= N); scale k <= limbs * base2k; rotation amounts in (-2D, 2D) for the main family (blind rotation only produces those), wider amounts in clear-wide");
    run.assume("blind path: key / accumulator / table radix 19 with k_brk = 57 (dnum 2), k_res = 38, k_lut = 19 as in the library's blind-rotation test and k_lut = 38 (table as wide as the accumulator; receiver and scratch garbage-filled before every call), k_lwe = 24; rank 1; ternary GLWE secret; LWE radix in {19, 12, 4}; default sigma 3.2 truncated at 6 sigma, so |e| <= 20 per error coefficient");
    run.assume("the extended algorithm (ext > 1) is only defined for block-binary LWE secrets (asserted by the library); block size 1 is the standard binary algorithm");
    run.assume("an admissible modulus switch rounds every coefficient to strictly less than one unit from value * 2D (floor, ceiling or nearest on any number of leading limbs); the rotation actually performed must be exactly the one of the library's own mod-switched coefficients");
    for_backends!(fam_clear(run));
    for_backends!(fam_blind(run));
    // summary notes: rotations performed, semantic checks, measured noise against the derived bound
    let mut rotations = 0u64;
    let mut blind = 0u64;
    let mut semantic = 0u64;
    let mut skipped = 0u64;
    let mut hist: std::collections::BTreeMap<String, u64> = Default::default();
    for f in &run.families {
        if f.name.starts_with("clear") {
            rotations += f.rec.evaluations;
        } else {
            blind += f.rec.evaluations;
            for (k, v) in &f.rec.extra {
                if k == "semantic_checks" {
                    semantic += v;
                } else if k.starts_with("semantic_skipped") {
                    skipped += v;
                } else if k.starts_with("noise_log2_le_") || k.starts_with("fail:") {
                    *hist.entry(k.clone()).or_insert(0) += v;
                }
            }
        }
    }
    run.note(
        "summary",
        json!({"clear_set_and_rotate_calls": rotations, "blind_rotations_checked": blind, "semantic_f_of_m_checks": semantic,
            "semantic_skipped_budget_exceeds_half_step": skipped, "failure_classes_and_measured_max_phase_error_log2_histogram_of_passing_rotations": hist,
            "derived_bound_log2": {"N32_nlwe4": (noise_bound_scaled(32, 4) as f64).log2() - K_RES as f64, "N64_nlwe8": (noise_bound_scaled(64, 8) as f64).log2() - K_RES as f64}}),
    );
}

pub fn replay(run: &mut Run, d: &Value) {
    let fam = d["family"].as_str().unwrap_or("").to_string();
    let backend = d["case"]["backend"].as_str().unwrap_or("fft64-ref").to_string();
    macro_rules! on_backend {
        ($f:ident ( $($args:expr),* )) => {
            match backend.as_str() {
                "fft64-ref" => $f::<pvc_common::FFT64Ref>($($args),*),
                "ntt120-ref" => $f::<pvc_common::NTT120Ref>($($args),*),
                "fft64-avx" => $f::<pvc_common::FFT64Avx>($($args),*),
                "ntt120-avx" => $f::<pvc_common::NTT120Avx>($($args),*),
                o => panic!("unknown backend {o}"),
            }
        };
    }
    if fam.starts_with("clear-wide/") {
        let c: WideCase = serde_json::from_value(d["case"].clone()).expect("case");
        run.single(&fam, "replay", |rec| on_backend!(exec_wide(&c, rec)));
    } else if fam.starts_with("clear/") {
        let c: ClearCase = serde_json::from_value(d["case"].clone()).expect("case");
        let k = d["inner"]["k"].as_i64();
        run.single(&fam, "replay", |rec| on_backend!(exec_clear(&c, k, rec)));
    } else if fam.starts_with("blind") {
        let c: BlindCase = serde_json::from_value(d["case"].clone()).expect("case");
        let inner = d.get("inner").cloned();
        run.single(&fam, "replay", |rec| on_backend!(exec_blind(&c, inner.as_ref(), true, rec)));
    } else {
        panic!("C14 replay: unknown family {fam}");
    }
}

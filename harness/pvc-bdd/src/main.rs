//! pvc-bdd: checks C13, C14.  usage: pvc-bdd <Cxx> --tier quick|thorough [--replay f] [--only family]

pub mod c13;
pub mod c13_bind;
pub mod c14;
pub mod lutmodel;

use pvc_engine::{Run, load_replay, parse_args};

fn main() {
    let args = parse_args();
    macro_rules! check {
        ($level:expr, $run:path, $replay:path) => {{
            let mut run = Run::new(&args, $level);
            match &args.replay {
                Some(p) => $replay(&mut run, &load_replay(p)),
                None => $run(&mut run),
            }
            run.finish()
        }};
    }
    let code = match args.property.as_str() {
        "C13" => check!("model_checking", c13::run, c13::replay),
        "C14" => check!("exploration", c14::run, c14::replay),
        o => {
            eprintln!("pvc-bdd: unknown property {o}");
            2
        }
    };
    std::process::exit(code);
}

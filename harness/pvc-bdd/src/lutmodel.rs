//! Definition-level model of a lookup table on Z[Y]/(Y^D + 1), D = N * extension factor (used by C14).
//!
//! A table of `len` entries (len | D) is replicated in steps of `step = D / len` (entry i occupies positions
//! [i*step, (i+1)*step)), scaled to 2^-k, and pre-rotated by half a step (`drift = step / 2`, multiplication by
//! Y^-drift) so that an index within half a step of i*step selects entry i; indices wrap negacyclically.

use pvc_model::ring;
use serde::{Deserialize, Serialize};

#[derive(Clone, Copy, Debug, PartialEq, Eq, Serialize, Deserialize)]
pub enum Alpha {
    /// f(i) = i
    Index,
    /// f(i) = i - len/2
    Centered,
    /// f(i) = 2i + 1 (the library's test function)
    Odd,
    /// alternating extremes of the signed k-bit range
    Extreme,
}

pub const ALL_ALPHAS: [Alpha; 4] = [Alpha::Index, Alpha::Centered, Alpha::Odd, Alpha::Extreme];

pub fn alpha_table(a: Alpha, len: usize, k: usize) -> Vec<i64> {
    (0..len as i64)
        .map(|i| match a {
            Alpha::Index => i,
            Alpha::Centered => i - (len as i64) / 2,
            Alpha::Odd => 2 * i + 1,
            Alpha::Extreme => {
                if i % 2 == 0 {
                    -(1i64 << (k - 1))
                } else {
                    (1i64 << (k - 1)) - 1
                }
            }
        })
        .collect()
}

pub struct LutModel {
    pub d: usize,
    pub step: usize,
    pub drift: usize,
    /// the table as set (after the half-step pre-rotation), values scaled by 2^bits
    pub pre: Vec<i64>,
}

impl LutModel {
    /// entries `f` at scale 2^-k, values returned scaled by 2^bits (bits >= k)
    pub fn new(d: usize, f: &[i64], k: usize, bits: usize) -> Self {
        assert!(d % f.len() == 0 && bits >= k && bits <= 57);
        let step = d / f.len();
        let drift = step / 2;
        let mut p = vec![0i64; d];
        for (i, &fi) in f.iter().enumerate() {
            for x in p.iter_mut().skip(i * step).take(step) {
                *x = fi << (bits - k);
            }
        }
        let pre = ring::mul_xk(&p, -(drift as i64));
        LutModel { d, step, drift, pre }
    }

    /// the entry selected by index t in [0, 2D): (sign, entry index)
    pub fn select(&self, t: usize) -> (i64, usize) {
        let u = (t + self.drift) % (2 * self.d);
        if u < self.d { (1, u / self.step) } else { (-1, (u - self.d) / self.step) }
    }

    /// coefficient `pos` of (table as set) * Y^t, t any integer
    pub fn rotated_coeff(&self, t: i64, pos: usize) -> i64 {
        let two_d = 2 * self.d as i64;
        let s = (pos as i64 - t).rem_euclid(two_d) as usize;
        if s < self.d { self.pre[s] } else { -self.pre[s - self.d] }
    }
}

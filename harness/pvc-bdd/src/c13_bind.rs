//! C13 binding to the implementation ("traces validated"): the real evaluator on enumerated concrete input pairs.
//!
//! Key material, layouts and the encrypt -> evaluate -> decrypt pipeline are those of the library's own test-suite
//! (`bdd_arithmetic/tests/test_suite/mod.rs`: GLWE base2k 13 / k 26 rank 2, GGSW k 39 dnum 2, BDD key with BRK
//! base2k 12, ATK 11, TSK 10, LWE 4, n_lwe 77 block 7), only the ring degree is a parameter.
//!
//! Two paths per (circuit, a, b):
//! * `word`: the public word operation (`res.add(module, &a, &b, key, scratch)`, ...; `identity` for the one-word
//!   circuit) followed by `FheUint::decrypt` - this is what ties the operation name to its table, the input
//!   numbering (FheUintHelper), the initial state `[0, 1, 0..]`, "Cmux takes hi when the bit is 1", packing and decoding
//!   to the code; the decrypted word must equal the Rust u32 operator and the interpreter's reading of the table.
//! * `raw`: `Module::execute_bdd_circuit` on the harness's *copy* of the table (the object the symbolic family
//!   decided), each output GLWE decrypted with the exact phase under the clear secret: coefficient 0 must decode
//!   (k = 2 encoding, radius 1/8) to the interpreter's bit, every other coefficient to 0. Measured margins are
//!   reported as notes.

use crate::c13::Table;
use poulpy_bin_fhe::bdd_arithmetic::{
    Add, And, BDDEncryptionInfos, BDDKey, BDDKeyEncryptSk, BDDKeyLayout, BDDKeyPrepared, BDDKeyPreparedFactory, BitSize,
    ExecuteBDDCircuit, ExecuteBDDCircuit1WTo1W, ExecuteBDDCircuit2WTo1W, FheUint, FheUintPrepared, FheUintPreparedEncryptSk,
    FheUintPreparedFactory, GetBitCircuitInfo, GetGGSWBit, Identity, Node, Or, Sll, Slt, Sltu, Sra, Srl, Sub, Xor,
};
use poulpy_bin_fhe::blind_rotation::{BlindRotationKeyLayout, CGGI};
use poulpy_bin_fhe::circuit_bootstrapping::CircuitBootstrappingKeyLayout;
use poulpy_core::layouts::{
    Base2K, Degree, Dnum, Dsize, GGLWEToGGSWKeyLayout, GGSWLayout, GGSWPrepared, GLWE, GLWEAutomorphismKeyLayout, GLWELayout,
    GLWESecret, GLWESecretPrepared, GLWESecretPreparedFactory, GLWESwitchingKeyLayout, GLWEToLWEKeyLayout, LWESecret, Rank,
    TorusPrecision,
};
use poulpy_core::{EncryptionLayout, GLWEDecrypt, ScratchTakeCore};
use poulpy_hal::layouts::{DeviceBuf, Module, Scratch, ZnxInfos};
use poulpy_hal::source::Source;
use pvc_common::phase::{Dist, clear_secret, glwe_phase};
use pvc_common::{Bk, CoreAll, FFT64Avx, FFT64Ref, HalAll, NTT120Avx, NTT120Ref, host_has_avx};
use pvc_engine::rng::garbage;
use pvc_engine::{Rec, Run, fnv, guarded};
use pvc_model::bdd::{CNode, WordOp, interpret_u64, word_op};
use pvc_model::torus;
use serde::{Deserialize, Serialize};
use serde_json::{Value, json};

/// Umbrella for the bin-fhe traits used here (blanket-implemented for every backend with the HAL/core API).
pub trait BinAll<B: Bk>:
    BDDKeyEncryptSk<CGGI, B>
    + BDDKeyPreparedFactory<CGGI, B>
    + FheUintPreparedFactory<u32, B>
    + FheUintPreparedEncryptSk<u32, B>
    + ExecuteBDDCircuit<B>
    + ExecuteBDDCircuit2WTo1W<B>
    + ExecuteBDDCircuit1WTo1W<B>
    + GLWESecretPreparedFactory<B>
    + GLWEDecrypt<B>
{
}
impl<B: Bk, T> BinAll<B> for T where
    T: BDDKeyEncryptSk<CGGI, B>
        + BDDKeyPreparedFactory<CGGI, B>
        + FheUintPreparedFactory<u32, B>
        + FheUintPreparedEncryptSk<u32, B>
        + ExecuteBDDCircuit<B>
        + ExecuteBDDCircuit2WTo1W<B>
        + ExecuteBDDCircuit1WTo1W<B>
        + GLWESecretPreparedFactory<B>
        + GLWEDecrypt<B>
{
}

pub const RANK: u32 = 2;
pub const FHEUINT_BASE2K: u32 = 13;
pub const K_GLWE: u32 = 26;
pub const K_GGSW: u32 = 39;
pub const N_LWE: u32 = 77;
pub const BLOCK: usize = 7;

pub fn glwe_layout(n: u32) -> GLWELayout {
    GLWELayout {
        n: Degree(n),
        base2k: Base2K(FHEUINT_BASE2K),
        k: TorusPrecision(K_GLWE),
        rank: Rank(RANK),
    }
}

pub fn ggsw_layout(n: u32) -> GGSWLayout {
    GGSWLayout {
        n: Degree(n),
        base2k: Base2K(FHEUINT_BASE2K),
        k: TorusPrecision(K_GGSW),
        rank: Rank(RANK),
        dnum: Dnum(2),
        dsize: Dsize(1),
    }
}

/// the test-suite's TEST_BDD_KEY_LAYOUT with the ring degree as a parameter
pub fn bdd_key_layout(n: u32) -> BDDKeyLayout {
    BDDKeyLayout {
        cbt_layout: CircuitBootstrappingKeyLayout {
            brk_layout: BlindRotationKeyLayout {
                n_glwe: Degree(n),
                n_lwe: Degree(N_LWE),
                base2k: Base2K(12),
                k: TorusPrecision(52),
                dnum: Dnum(4),
                rank: Rank(RANK),
            },
            atk_layout: GLWEAutomorphismKeyLayout {
                n: Degree(n),
                base2k: Base2K(11),
                k: TorusPrecision(52),
                rank: Rank(RANK),
                dnum: Dnum(4),
                dsize: Dsize(1),
            },
            tsk_layout: GGLWEToGGSWKeyLayout {
                n: Degree(n),
                base2k: Base2K(10),
                k: TorusPrecision(52),
                rank: Rank(RANK),
                dnum: Dnum(4),
                dsize: Dsize(1),
            },
        },
        ks_glwe_layout: Some(GLWESwitchingKeyLayout {
            n: Degree(n),
            base2k: Base2K(4),
            k: TorusPrecision(20),
            rank_in: Rank(RANK),
            rank_out: Rank(1),
            dnum: Dnum(3),
            dsize: Dsize(1),
        }),
        ks_lwe_layout: GLWEToLWEKeyLayout {
            n: Degree(n),
            base2k: Base2K(4),
            k: TorusPrecision(16),
            rank_in: Rank(1),
            dnum: Dnum(3),
        },
    }
}

/// 24-element boundary set: 0, 1, extremes, alternating patterns, single bits, shift amounts and their aliases
/// beyond 5 bits (32 -> 0, 33 -> 1, 63 -> 31, 0xE0 -> 0 with high bits set).
pub const BOUNDARY: [u32; 24] = [
    0,
    1,
    2,
    3,
    5,
    16,
    31,
    32,
    33,
    63,
    0xE0,
    0x0001_0000,
    0x0000_FFFF,
    0xFFFF_0000,
    0x7FFF_FFFF,
    0x8000_0000,
    0x8000_0001,
    0xFFFF_FFFE,
    0xFFFF_FFFF,
    0x5555_5555,
    0xAAAA_AAAA,
    0x0F0F_0F0F,
    0x1234_5678,
    0xDEAD_BEEF,
];

/// quick tier: 4 x 4 pairs
pub const QUICK_A: [u32; 4] = [0xFFFF_FFFF, 0x8000_0001, 0x1234_5678, 0];
pub const QUICK_B: [u32; 4] = [1, 33, 0xFFFF_FFFF, 0x8000_0000];

/// A table in the library's node type, handed to the real evaluator.
pub struct OwnedCircuit {
    pub input_size: usize,
    pub bits: Vec<(Vec<Node>, usize)>,
}

impl OwnedCircuit {
    pub fn from_table(t: &Table) -> Self {
        OwnedCircuit {
            input_size: t.input_size,
            bits: t
                .bits
                .iter()
                .map(|(v, w)| {
                    (
                        v.iter()
                            .map(|n| match *n {
                                CNode::Cmux(s, h, l) => Node::Cmux(s, h, l),
                                CNode::Copy => Node::Copy,
                                CNode::None => Node::None,
                            })
                            .collect(),
                        *w,
                    )
                })
                .collect(),
        }
    }
}

impl GetBitCircuitInfo for OwnedCircuit {
    fn input_size(&self) -> usize {
        self.input_size
    }
    fn output_size(&self) -> usize {
        self.bits.len()
    }
    fn get_circuit(&self, bit: usize) -> (&[Node], usize) {
        (&self.bits[bit].0, self.bits[bit].1)
    }
}

/// the two input words as one bit array: a = bits 0..32, b = bits 32..64 (the raw path's own numbering; the word
/// path uses the library's private helper)
struct TwoWords<'a, B: Bk> {
    a: &'a FheUintPrepared<DeviceBuf<B>, u32, B>,
    b: &'a FheUintPrepared<DeviceBuf<B>, u32, B>,
}

impl<'a, B: Bk> GetGGSWBit<B> for TwoWords<'a, B>
where
    FheUintPrepared<DeviceBuf<B>, u32, B>: Sync,
{
    fn get_bit(&self, bit: usize) -> GGSWPrepared<&[u8], B> {
        if bit < 32 { self.a.get_bit(bit) } else { self.b.get_bit(bit - 32) }
    }
}
impl<'a, B: Bk> BitSize for TwoWords<'a, B> {
    fn bit_size(&self) -> usize {
        64
    }
}

pub struct Ctx<B: Bk> {
    pub n: usize,
    pub module: Module<B>,
    pub sk_prep: GLWESecretPrepared<DeviceBuf<B>, B>,
    pub sk_clear: Vec<Vec<i64>>,
    pub key: BDDKeyPrepared<DeviceBuf<B>, CGGI, B>,
    pub values: Vec<u32>,
    pub operands: Vec<FheUintPrepared<DeviceBuf<B>, u32, B>>,
}

// SAFETY-free: all members are plain owned buffers; the library documents the prepared structures as Sync.

pub fn build_ctx<B: Bk>(n: usize, values: &[u32], seed: u64) -> Result<Ctx<B>, String>
where
    Module<B>: HalAll<B> + CoreAll<B> + BinAll<B>,
    Scratch<B>: ScratchTakeCore<B>,
{
    guarded(|| {
        let module = B::module(n);
        let mut s = [1u8; 32];
        s[0] = s[0].wrapping_add(seed as u8);
        let sk_seed = s;
        let mut source_xs = Source::new(sk_seed);
        let mut source_lwe = Source::new([7u8; 32]);
        let mut source_xa = Source::new([2u8; 32]);
        let mut source_xe = Source::new([3u8; 32]);
        let mut scratch = B::scratch(1 << 22);
        let mut sk_glwe: GLWESecret<Vec<u8>> = GLWESecret::alloc(Degree(n as u32), Rank(RANK));
        sk_glwe.fill_ternary_prob(0.5, &mut source_xs);
        let sk_clear = clear_secret(n, RANK as usize, Dist::TernaryProb, sk_seed);
        let mut sk_prep: GLWESecretPrepared<DeviceBuf<B>, B> = module.glwe_secret_prepared_alloc(Rank(RANK));
        module.glwe_secret_prepare(&mut sk_prep, &sk_glwe);
        let mut sk_lwe: LWESecret<Vec<u8>> = LWESecret::alloc(Degree(N_LWE));
        sk_lwe.fill_binary_block(BLOCK, &mut source_lwe);
        let layout = bdd_key_layout(n as u32);
        let mut key: BDDKey<Vec<u8>, CGGI> = BDDKey::alloc_from_infos(&layout);
        let enc = BDDEncryptionInfos::from_default_sigma(&layout).unwrap();
        key.encrypt_sk(&module, &sk_lwe, &sk_glwe, &enc, &mut source_xe, &mut source_xa, B::borrow(&mut scratch));
        let mut key_prep: BDDKeyPrepared<DeviceBuf<B>, CGGI, B> = BDDKeyPrepared::alloc_from_infos(&module, &layout);
        key_prep.prepare(&module, &key, B::borrow(&mut scratch));
        let ggsw_infos = ggsw_layout(n as u32);
        let ggsw_enc = EncryptionLayout::new_from_default_sigma(ggsw_infos).unwrap();
        let mut operands = vec![];
        for &v in values {
            let mut p: FheUintPrepared<DeviceBuf<B>, u32, B> = FheUintPrepared::alloc_from_infos(&module, &ggsw_infos);
            garbage(&mut B::borrow(&mut scratch).data, 0);
            p.encrypt_sk(&module, v, &sk_prep, &ggsw_enc, &mut source_xe, &mut source_xa, B::borrow(&mut scratch));
            operands.push(p);
        }
        Ctx {
            n,
            module,
            sk_prep,
            sk_clear,
            key: key_prep,
            values: values.to_vec(),
            operands,
        }
    })
}

#[derive(Clone, Debug, Serialize, Deserialize)]
pub struct BindCase {
    pub circuit: String,
    pub backend: String,
    pub n: usize,
    pub a: u32,
    /// the b operands run against this a
    pub bs: Vec<u32>,
    pub raw: bool,
}

fn interp_word(t: &Table, a: u32, b: u32) -> u32 {
    let x = if t.op.input_bits() == 32 { a as u64 } else { (a as u64) | ((b as u64) << 32) };
    let mut buf = vec![];
    let mut w = 0u32;
    for (i, (nodes, width)) in t.bits.iter().enumerate() {
        if interpret_u64(nodes, *width, x, &mut buf) {
            w |= 1 << i;
        }
    }
    w
}

fn word_call<B: Bk>(ctx: &Ctx<B>, op: WordOp, ia: usize, ib: usize, gfill: usize) -> Result<u32, String>
where
    Module<B>: HalAll<B> + CoreAll<B> + BinAll<B>,
    Scratch<B>: ScratchTakeCore<B>,
{
    let glwe_infos = glwe_layout(ctx.n as u32);
    let ggsw_infos = ggsw_layout(ctx.n as u32);
    let m = &ctx.module;
    let (a, b, key) = (&ctx.operands[ia], &ctx.operands[ib], &ctx.key);
    guarded(|| {
        let mut res: FheUint<Vec<u8>, u32> = FheUint::alloc_from_infos(&glwe_infos);
        {
            use poulpy_core::layouts::GLWEToMut;
            let mut g = res.to_mut();
            garbage(g.data_mut().data, gfill);
        }
        // declared scratch of the operation (identity has no query: it runs the same executor on a narrower state)
        let bytes = match op {
            WordOp::Add => res.add_tmp_bytes(m, &glwe_infos, &ggsw_infos, key),
            WordOp::Sub => res.sub_tmp_bytes(m, &glwe_infos, &ggsw_infos, key),
            WordOp::Sll => res.sll_tmp_bytes(m, &glwe_infos, &ggsw_infos, key),
            WordOp::Srl => res.srl_tmp_bytes(m, &glwe_infos, &ggsw_infos, key),
            WordOp::Sra => res.sra_tmp_bytes(m, &glwe_infos, &ggsw_infos, key),
            WordOp::Slt => res.slt_tmp_bytes(m, &glwe_infos, &ggsw_infos, key),
            WordOp::Sltu => res.sltu_tmp_bytes(m, &glwe_infos, &ggsw_infos, key),
            WordOp::And => res.and_tmp_bytes(m, &glwe_infos, &ggsw_infos, key),
            WordOp::Or => res.or_tmp_bytes(m, &glwe_infos, &ggsw_infos, key),
            WordOp::Xor | WordOp::Identity => res.xor_tmp_bytes(m, &glwe_infos, &ggsw_infos, key),
        };
        let mut scratch = B::scratch(bytes);
        garbage(&mut B::borrow(&mut scratch).data, gfill);
        let s = B::borrow(&mut scratch);
        match op {
            WordOp::Add => res.add(m, a, b, key, s),
            WordOp::Sub => res.sub(m, a, b, key, s),
            WordOp::Sll => res.sll(m, a, b, key, s),
            WordOp::Srl => res.srl(m, a, b, key, s),
            WordOp::Sra => res.sra(m, a, b, key, s),
            WordOp::Slt => res.slt(m, a, b, key, s),
            WordOp::Sltu => res.sltu(m, a, b, key, s),
            WordOp::And => res.and(m, a, b, key, s),
            WordOp::Or => res.or(m, a, b, key, s),
            WordOp::Xor => res.xor(m, a, b, key, s),
            WordOp::Identity => res.identity(m, a, key, s),
        }
        let mut sd = B::scratch(res.decrypt_tmp_bytes(m) + 64);
        garbage(&mut B::borrow(&mut sd).data, gfill);
        res.decrypt(m, &ctx.sk_prep, B::borrow(&mut sd))
    })
}

/// raw path: returns (decoded word, max |error| over all output bits and coefficients in units of 2^-60, rounded up)
fn raw_call<B: Bk>(ctx: &Ctx<B>, t: &Table, oc: &OwnedCircuit, ia: usize, ib: usize, gfill: usize) -> Result<(u32, f64, Option<String>), String>
where
    Module<B>: HalAll<B> + CoreAll<B> + BinAll<B>,
    Scratch<B>: ScratchTakeCore<B>,
{
    let glwe_infos = glwe_layout(ctx.n as u32);
    let ggsw_infos = ggsw_layout(ctx.n as u32);
    let m = &ctx.module;
    let mut out: Vec<GLWE<Vec<u8>>> = (0..32)
        .map(|_| {
            let mut g = GLWE::alloc_from_infos(&glwe_infos);
            garbage(g.data_mut().data.as_mut_slice(), gfill);
            g
        })
        .collect();
    guarded(|| {
        let bytes = m.execute_bdd_circuit_tmp_bytes(&glwe_infos, oc.max_state_size(), &ggsw_infos);
        let mut scratch = B::scratch(bytes);
        garbage(&mut B::borrow(&mut scratch).data, gfill);
        if t.op.input_bits() == 32 {
            m.execute_bdd_circuit(&mut out, &ctx.operands[ia], oc, B::borrow(&mut scratch));
        } else {
            let inputs = TwoWords {
                a: &ctx.operands[ia],
                b: &ctx.operands[ib],
            };
            m.execute_bdd_circuit(&mut out, &inputs, oc, B::borrow(&mut scratch));
        }
    })?;
    let b2k = FHEUINT_BASE2K as usize;
    let mut word = 0u32;
    let mut worst = 0f64;
    let mut problem = None;
    for (i, g) in out.iter().enumerate() {
        let ph = glwe_phase(g.data(), b2k, &ctx.sk_clear);
        let bits = g.data().size() * b2k;
        for (j, p) in ph.iter().enumerate() {
            // nearest multiple of 1/4 and the distance to it
            let c = torus::centered_mod_pow2(p, bits);
            let quarter = pvc_model::IBig::from(1) << (bits - 2);
            let half_q = pvc_model::IBig::from(1) << (bits - 3);
            // q = round(c / quarter)
            let shifted: pvc_model::IBig = &c + &half_q;
            let q: pvc_model::IBig = floor_div(&shifted, &quarter);
            let err: pvc_model::IBig = &c - &q * &quarter;
            let e = ibig_to_f64(&torus::abs(&err)) / (2f64).powi(bits as i32);
            if e > worst {
                worst = e;
            }
            let qv = ibig_to_i64(&q).rem_euclid(4);
            if j == 0 {
                if qv == 1 {
                    word |= 1 << i;
                } else if qv != 0 && problem.is_none() {
                    problem = Some(format!("output bit {i}: coefficient 0 decodes to {qv}/4"));
                }
            } else if qv != 0 && problem.is_none() {
                problem = Some(format!("output bit {i}: coefficient {j} decodes to {qv}/4, expected 0"));
            }
        }
        if i >= oc.bits.len() {
            // beyond output_size the evaluator must zero the ciphertext exactly
            use poulpy_hal::layouts::ZnxView;
            if g.data().raw().iter().any(|&x| x != 0) && problem.is_none() {
                problem = Some(format!("output {i} beyond output_size is not zeroed"));
            }
        }
    }
    Ok((word, worst, problem))
}

fn floor_div(a: &pvc_model::IBig, b: &pvc_model::IBig) -> pvc_model::IBig {
    // b > 0
    let q: pvc_model::IBig = a / b;
    let r: pvc_model::IBig = a - &q * b;
    if r < pvc_model::IBig::from(0) { q - pvc_model::IBig::from(1) } else { q }
}

fn ibig_to_i64(x: &pvc_model::IBig) -> i64 {
    i64::try_from(x.clone()).expect("small")
}

fn ibig_to_f64(x: &pvc_model::IBig) -> f64 {
    // magnitudes here are < 2^80; go through the decimal string only when it does not fit i128
    match i128::try_from(x.clone()) {
        Ok(v) => v as f64,
        Err(_) => x.to_string().parse::<f64>().unwrap_or(f64::INFINITY),
    }
}

fn exec_bind<B: Bk>(ctx: &Ctx<B>, tables: &[Table], c: &BindCase, rec: &mut Rec)
where
    Module<B>: HalAll<B> + CoreAll<B> + BinAll<B>,
    Scratch<B>: ScratchTakeCore<B>,
{
    let t = tables.iter().find(|t| t.op.name() == c.circuit).expect("circuit");
    let op = t.op;
    let oc = OwnedCircuit::from_table(t);
    let idx = |v: u32| ctx.values.iter().position(|&x| x == v).expect("operand prepared");
    let ia = idx(c.a);
    let bs: Vec<u32> = if op.input_bits() == 32 { vec![c.bs[0]] } else { c.bs.clone() };
    let mut worst = 0f64;
    for (k, &b) in bs.iter().enumerate() {
        let ib = idx(b);
        let want = word_op(op, c.a, b);
        let model = interp_word(t, c.a, b);
        let inner = json!({"a": c.a, "b": b});
        let gfill = k & 1;
        if model != want {
            rec.fail(json!({"op": op.name(), "backend": B::NAME, "kind": "interpreter_vs_u32_operator", "case": c, "inner": inner, "interpreter": model, "want": want}));
        }
        match word_call::<B>(ctx, op, ia, ib, gfill) {
            Err(msg) => rec.fail(json!({"op": op.name(), "backend": B::NAME, "kind": "panic", "path": "word", "case": c, "inner": inner, "panic": msg})),
            Ok(got) => {
                rec.evals(1);
                rec.add("word_replays", 1);
                rec.outcome(fnv(&[op as u8, (got >> 24) as u8, (got >> 16) as u8, (got >> 8) as u8, got as u8]));
                if got != want {
                    rec.fail(json!({"op": op.name(), "backend": B::NAME, "kind": "wrong_value", "path": "word", "case": c, "inner": inner,
                        "got": got, "want": want, "interpreter": model, "xor": got ^ want}));
                }
            }
        }
        if c.raw {
            match raw_call::<B>(ctx, t, &oc, ia, ib, gfill) {
                Err(msg) => rec.fail(json!({"op": op.name(), "backend": B::NAME, "kind": "panic", "path": "raw", "case": c, "inner": inner, "panic": msg})),
                Ok((got, w, problem)) => {
                    rec.evals(1);
                    rec.add("raw_replays", 1);
                    worst = worst.max(w);
                    if let Some(p) = problem {
                        rec.fail(json!({"op": op.name(), "backend": B::NAME, "kind": "undecodable_output", "path": "raw", "case": c, "inner": inner, "detail": p, "max_err": w}));
                    } else if got != model {
                        rec.fail(json!({"op": op.name(), "backend": B::NAME, "kind": "wrong_value", "path": "raw", "case": c, "inner": inner,
                            "got": got, "interpreter": model, "want": want, "xor": got ^ model}));
                    }
                    if w >= 1.0 / 16.0 {
                        rec.fail(json!({"op": op.name(), "backend": B::NAME, "kind": "noise_margin_below_half_radius", "path": "raw", "case": c, "inner": inner, "max_err": w}));
                    }
                }
            }
        }
        rec.distinct(fnv(format!("{}:{}:{}", op.name(), c.a, b).as_bytes()));
    }
    if worst > 0.0 {
        // -log2(worst error) in tenths, as a max-tracked counter is not available: record the worst per thread via `add` of a histogram bucket
        let bucket = (-(worst.log2())).floor() as i64;
        rec.add(&format!("raw_worst_err_log2_bucket_-{}", bucket), 1);
    }
    rec.sample(|| serde_json::to_value(c).unwrap());
}

fn cases_for(tables: &[Table], backend: &str, n: usize, a_set: &[u32], b_set: &[u32], raw_every: usize) -> Vec<BindCase> {
    let mut out = vec![];
    for t in tables {
        for (i, &a) in a_set.iter().enumerate() {
            out.push(BindCase {
                circuit: t.op.name().into(),
                backend: backend.into(),
                n,
                a,
                bs: b_set.to_vec(),
                raw: raw_every > 0 && i % raw_every == 0,
            });
        }
    }
    out
}

fn fam_bind<B: Bk>(run: &mut Run, tables: &[Table], n: usize)
where
    Module<B>: HalAll<B> + CoreAll<B> + BinAll<B>,
    Scratch<B>: ScratchTakeCore<B>,
    Ctx<B>: Sync,
{
    let name = format!("bind-{}", B::NAME);
    if !run.wants(&name) {
        return;
    }
    // full 24 x 24 boundary product on the FFT64 backends in the thorough tier; the NTT120 backends are ~30x slower
    // per operation and replay the 4 x 4 quick set
    let thorough = run.tier.is_thorough() && B::FAMILY == pvc_common::Family::Fft64;
    let (a_set, b_set): (Vec<u32>, Vec<u32>) = if thorough { (BOUNDARY.to_vec(), BOUNDARY.to_vec()) } else { (QUICK_A.to_vec(), QUICK_B.to_vec()) };
    let mut values = a_set.clone();
    for b in &b_set {
        if !values.contains(b) {
            values.push(*b);
        }
    }
    let ctx = match build_ctx::<B>(n, &values, run.seed) {
        Ok(c) => c,
        Err(msg) => {
            run.single(&name, "context construction", |rec| {
                rec.fail(json!({"op": "context", "backend": B::NAME, "kind": "panic", "case": {"n": n}, "inner": {}, "panic": msg}));
            });
            return;
        }
    };
    // raw path on every pair
    let cases = cases_for(tables, B::NAME, n, &a_set, &b_set, 1);
    run.family(
        &name,
        "outer = (circuit, a) over the boundary set; inner = every b of the boundary set (identity: once); word path: public word operation + FheUint::decrypt == u32 operator == interpreter; raw path: execute_bdd_circuit on the harness's copy of the table, exact phase of every output bit decodes to the interpreter's bit; distinct = (circuit, a, b)",
        cases,
        |c, rec| exec_bind::<B>(&ctx, tables, c, rec),
    );
    if let Some(f) = run.families.iter().find(|f| f.name == name) {
        let g = |k: &str| f.rec.extra.get(k).copied().unwrap_or(0);
        run.traces_validated += g("word_replays") + g("raw_replays");
        let worst: Vec<String> = f.rec.extra.keys().filter(|k| k.starts_with("raw_worst_err")).cloned().collect();
        run.note(
            &format!("bind_{}", B::NAME),
            json!({"n": n, "word_replays": g("word_replays"), "raw_replays": g("raw_replays"), "raw_worst_error_log2_buckets": worst,
                "decoding_radius_log2": -3}),
        );
    }
}

pub fn bind_n() -> usize {
    std::env::var("VERIF_C13_N").ok().and_then(|s| s.parse().ok()).unwrap_or(256)
}

pub fn run(run: &mut Run, tables: &[Table]) {
    let n = bind_n();
    run.assume(&format!(
        "bind families: layouts and pipeline of the library's test-suite (GLWE base2k 13 k 26 rank 2; GGSW k 39 dnum 2; BDD key BRK/ATK/TSK base2k 12/11/10 k 52, n_lwe 77 block 7), ring degree N = {n}; operands encrypted directly as FheUintPrepared (GGSW per bit) as the test-suite does; default sigma 3.2 truncated at 6 sigma"
    ));
    if host_has_avx() {
        fam_bind::<FFT64Avx>(run, tables, n);
        if run.tier.is_thorough() || std::env::var("VERIF_C13_ALL_BACKENDS").is_ok() {
            fam_bind::<FFT64Ref>(run, tables, n);
            fam_bind::<NTT120Avx>(run, tables, n);
            fam_bind::<NTT120Ref>(run, tables, n);
        }
    } else {
        run.note("bind_avx", json!("host lacks AVX2/FMA: AVX instantiation skipped"));
        fam_bind::<FFT64Ref>(run, tables, n);
    }
}

pub fn replay(run: &mut Run, tables: &[Table], d: &Value) {
    let c: BindCase = serde_json::from_value(d["case"].clone()).expect("case");
    let mut c1 = c.clone();
    if let (Some(a), Some(b)) = (d["inner"]["a"].as_u64(), d["inner"]["b"].as_u64()) {
        c1.a = a as u32;
        c1.bs = vec![b as u32];
    }
    c1.raw = true;
    let mut values = vec![c1.a];
    for b in &c1.bs {
        if !values.contains(b) {
            values.push(*b);
        }
    }
    let seed = run.seed;
    match c.backend.as_str() {
        "fft64-avx" if host_has_avx() => {
            let ctx = build_ctx::<FFT64Avx>(c.n, &values, seed).expect("context");
            run.single("bind-fft64-avx", "replay", |rec| exec_bind::<FFT64Avx>(&ctx, tables, &c1, rec));
        }
        "ntt120-avx" if host_has_avx() => {
            let ctx = build_ctx::<NTT120Avx>(c.n, &values, seed).expect("context");
            run.single("bind-ntt120-avx", "replay", |rec| exec_bind::<NTT120Avx>(&ctx, tables, &c1, rec));
        }
        "ntt120-ref" => {
            let ctx = build_ctx::<NTT120Ref>(c.n, &values, seed).expect("context");
            run.single("bind-ntt120-ref", "replay", |rec| exec_bind::<NTT120Ref>(&ctx, tables, &c1, rec));
        }
        _ => {
            let ctx = build_ctx::<FFT64Ref>(c.n, &values, seed).expect("context");
            run.single("bind-fft64-ref", "replay", |rec| exec_bind::<FFT64Ref>(&ctx, tables, &c1, rec));
        }
    }
}

//! pvc-sched: check C20 (thread count and scheduling never change results).

pub mod c12mt;
pub mod c20;
pub mod sched;

use pvc_engine::{Run, load_replay, parse_args};

fn main() {
    let args = parse_args();
    let code = match args.property.as_str() {
        "C20" => {
            let mut run = Run::new(&args, "model_checking");
            match &args.replay {
                Some(p) => c20::replay(&mut run, &load_replay(p)),
                None => c20::run(&mut run),
            }
            run.finish()
        }
        "C12" => {
            let mut run = Run::new(&args, "exploration");
            match &args.replay {
                Some(p) => {
                    if !c12mt::replay(&mut run, &load_replay(p)) {
                        std::process::exit(2);
                    }
                }
                None => c12mt::run(&mut run),
            }
            run.finish()
        }
        o => {
            eprintln!("pvc-sched: unknown property {o}");
            2
        }
    };
    std::process::exit(code);
}

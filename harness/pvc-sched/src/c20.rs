//! C20 - thread count and scheduling never change results (engine E3 + E1).

use crate::sched::{Explorer, RunTrace, run_schedule};
use poulpy_bin_fhe::bdd_arithmetic::{
    ExecuteBDDCircuit, FheUintPrepared, FheUintPreparedFactory, GetBitCircuitInfo, Node,
};
use poulpy_bin_fhe::verif_hooks as vh;
use poulpy_core::layouts::{
    Base2K, Degree, Dnum, Dsize, GGSWLayout, GLWE, GLWELayout, GLWESecret, GLWESecretPreparedFactory, Rank, TorusPrecision,
};
use poulpy_core::{EncryptionLayout, ScratchTakeCore};
use poulpy_hal::api::{ScratchAvailable, TakeSlice};
use poulpy_hal::layouts::{Module, Scratch};
use poulpy_hal::source::Source;
use pvc_common::{Bk, CoreAll, HalAll};
use pvc_engine::rng::garbage;
use pvc_engine::{Rec, Run, fnv, guarded};
use serde::{Deserialize, Serialize};
use serde_json::{Value, json};

// ---------------------------------------------------------------------------------------------
// a purpose-built circuit: OUT output bits, 3 levels, state width 3 (live state in the per-thread scratch
// across several CMux calls)
// ---------------------------------------------------------------------------------------------

pub struct ToyCircuit {
    pub bits: Vec<(Vec<Node>, usize)>,
    pub inputs: usize,
}

impl GetBitCircuitInfo for ToyCircuit {
    fn input_size(&self) -> usize {
        self.inputs
    }
    fn output_size(&self) -> usize {
        self.bits.len()
    }
    fn get_circuit(&self, bit: usize) -> (&[Node], usize) {
        (&self.bits[bit].0, self.bits[bit].1)
    }
}

/// output bit o = (x_o AND x_{o+1}) XOR x_{o+2} as a 3-level diagram of width 3 over slots [0,1,_]
pub fn toy_circuit(outputs: usize, inputs: usize) -> ToyCircuit {
    let mut bits = vec![];
    for o in 0..outputs {
        let (i0, i1, i2) = (o % inputs, (o + 1) % inputs, (o + 2) % inputs);
        // level 1: slot0 = x_i2 ? 1 : 0 (=x2), slot1 = x_i2 ? 0 : 1 (= !x2), slot2 = Copy-like constant 0 via cmux(0,0)
        // level 2: slot0 = x_i1 ? prev0 : prev0 ... build (x0 & x1) ^ x2 :
        //   f = x0 ? (x1 ? !x2 : x2) : x2
        let nodes = vec![
            // level 1 (reads initial state [0, 1, 0])
            Node::Cmux(i2, 1, 0), // slot0 = x2
            Node::Cmux(i2, 0, 1), // slot1 = !x2
            Node::None,
            // level 2
            Node::Cmux(i1, 1, 0), // slot0 = x1 ? !x2 : x2
            Node::Cmux(i1, 0, 0), // slot1 = x2
            Node::None,
            // last level: [Cmux, None, None]
            Node::Cmux(i0, 0, 1), // out = x0 ? slot0 : slot1
            Node::None,
            Node::None,
        ];
        bits.push((nodes, 3));
    }
    ToyCircuit { bits, inputs }
}

pub struct Fixture<B: Bk> {
    pub module: Module<B>,
    pub inputs: FheUintPrepared<poulpy_hal::layouts::DeviceBuf<B>, u8, B>,
    pub glwe: GLWELayout,
    pub ggsw: GGSWLayout,
}

pub fn fixture<B: Bk>(n: usize, value: u8) -> Fixture<B>
where
    Module<B>: HalAll<B> + CoreAll<B> + FheUintPreparedFactory<u8, B> + poulpy_bin_fhe::bdd_arithmetic::FheUintPreparedEncryptSk<u8, B>,
    Scratch<B>: ScratchTakeCore<B>,
{
    let module = B::module(n);
    let (base2k, k_glwe, k_ggsw, rank) = (8u32, 16u32, 24u32, 1u32);
    let glwe = GLWELayout {
        n: Degree(n as u32),
        base2k: Base2K(base2k),
        k: TorusPrecision(k_glwe),
        rank: Rank(rank),
    };
    let ggsw = GGSWLayout {
        n: Degree(n as u32),
        base2k: Base2K(base2k),
        k: TorusPrecision(k_ggsw),
        rank: Rank(rank),
        dnum: Dnum(2),
        dsize: Dsize(1),
    };
    let mut sk = GLWESecret::alloc(Degree(n as u32), Rank(rank));
    sk.fill_ternary_prob(0.5, &mut Source::new([1u8; 32]));
    let mut skp = module.glwe_secret_prepared_alloc(Rank(rank));
    module.glwe_secret_prepare(&mut skp, &sk);
    let mut inputs: FheUintPrepared<_, u8, B> = FheUintPrepared::alloc_from_infos(&module, &ggsw);
    let enc = EncryptionLayout::new_from_default_sigma(ggsw).unwrap();
    let mut s = B::scratch(1 << 20);
    inputs.encrypt_sk(
        &module,
        value,
        &skp,
        &enc,
        &mut Source::new([2u8; 32]),
        &mut Source::new([3u8; 32]),
        B::borrow(&mut s),
    );
    Fixture { module, inputs, glwe, ggsw }
}

/// runs the multi-threaded evaluator; returns the concatenated bytes of all outputs
pub fn eval_bytes<B: Bk>(fx: &Fixture<B>, circuit: &ToyCircuit, threads: usize, extra_out: usize, fill: usize) -> Vec<u8>
where
    Module<B>: HalAll<B> + CoreAll<B> + ExecuteBDDCircuit<B>,
    Scratch<B>: ScratchTakeCore<B> + ScratchAvailable + TakeSlice,
{
    let per = fx
        .module
        .execute_bdd_circuit_tmp_bytes(&fx.glwe, circuit.max_state_size(), &fx.ggsw);
    // generous: exact multi-thread sizing is C12's business
    let mut s = B::scratch(threads * (per + 64) + 64);
    eval_bytes_with::<B>(fx, circuit, threads, extra_out, fill, B::borrow(&mut s))
}

/// same with a caller-provided scratch
pub fn eval_bytes_with<B: Bk>(fx: &Fixture<B>, circuit: &ToyCircuit, threads: usize, extra_out: usize, fill: usize, scratch: &mut Scratch<B>) -> Vec<u8>
where
    Module<B>: HalAll<B> + CoreAll<B> + ExecuteBDDCircuit<B>,
    Scratch<B>: ScratchTakeCore<B> + ScratchAvailable + TakeSlice,
{
    let mut out: Vec<GLWE<Vec<u8>>> = (0..circuit.output_size() + extra_out).map(|_| GLWE::alloc_from_infos(&fx.glwe)).collect();
    for o in out.iter_mut() {
        garbage(o.data_mut().data.as_mut_slice(), fill);
    }
    fx.module.execute_bdd_circuit_multi_thread(threads, &mut out, &fx.inputs, circuit, scratch);
    let mut bytes = vec![];
    for o in &out {
        bytes.extend_from_slice(&o.data().data);
    }
    bytes
}

#[derive(Clone, Debug, Serialize, Deserialize)]
pub struct SchedCase {
    pub subject: String,
    pub backend: String,
    pub n: usize,
    pub outputs: usize,
    pub threads: usize,
    pub bound: usize,
    pub value: u8,
}

fn judge_trace(c: &SchedCase, t: &RunTrace, got: &Option<Vec<u8>>, want: &[u8], rec: &mut Rec, outcomes: &mut std::collections::BTreeSet<u64>) -> bool {
    let base = |kind: &str, why: String| {
        json!({"op": c.subject, "backend": c.backend, "kind": kind, "case": c, "inner": {"schedule": t.choices}, "why": why,
            "events": t.events.iter().take(400).map(|e| json!([e.0, e.1, if e.2 >= usize::MAX - 1 { -((usize::MAX - e.2) as i64) - 1 } else { e.2 as i64 }])).collect::<Vec<_>>()})
    };
    if let Some(e) = &t.error {
        rec.fail(base(if e.starts_with("deadlock") { "deadlock" } else { "scheduler_error" }, e.clone()));
        return false;
    }
    // every work item exactly once
    let mut items: Vec<usize> = t.events.iter().filter(|e| e.1 == vh::SITE_EVAL && e.2 < usize::MAX - 1).map(|e| e.2).collect();
    items.sort();
    let expect: Vec<usize> = (0..c.outputs).collect();
    if items != expect {
        rec.fail(base("work_item_multiset", format!("work items executed: {items:?}, expected each of 0..{} exactly once", c.outputs)));
        return false;
    }
    match got {
        None => {
            rec.fail(base("panic", "the subject panicked under this schedule".into()));
            false
        }
        Some(g) => {
            outcomes.insert(fnv(g));
            if g != want {
                rec.fail(base("schedule_dependent_result", "output bytes differ from the single-threaded run".into()));
                return false;
            }
            true
        }
    }
}

pub fn exec_sched<B: Bk>(c: &SchedCase, only_schedule: Option<Vec<usize>>, rec: &mut Rec) -> (u64, u64, usize, bool)
where
    Module<B>: HalAll<B>
        + CoreAll<B>
        + ExecuteBDDCircuit<B>
        + FheUintPreparedFactory<u8, B>
        + poulpy_bin_fhe::bdd_arithmetic::FheUintPreparedEncryptSk<u8, B>,
    Scratch<B>: ScratchTakeCore<B> + ScratchAvailable + TakeSlice,
{
    let fx = fixture::<B>(c.n, c.value);
    let circuit = toy_circuit(c.outputs, 8);
    // reference: single-threaded, hook not installed
    let want = eval_bytes::<B>(&fx, &circuit, 1, 1, 2);
    let mut outcomes = std::collections::BTreeSet::new();
    let mut transitions = 0u64;
    let runner = |prefix: &[usize]| -> (RunTrace, Option<Vec<u8>>) {
        let mut got: Option<Vec<u8>> = None;
        let t = run_schedule(prefix, || {
            got = guarded(|| eval_bytes::<B>(&fx, &circuit, c.threads, 1, (prefix.len() % 2) as usize)).ok();
        });
        (t, got)
    };
    if let Some(s) = only_schedule {
        // replay: run the recorded schedule twice and require identical observations before judging
        let (t1, g1) = runner(&s);
        let (t2, g2) = runner(&s);
        if t1.events != t2.events || g1 != g2 {
            rec.fail(json!({"op": c.subject, "backend": c.backend, "kind": "nondeterministic_replay", "case": c, "inner": {"schedule": s}}));
            return (0, 0, 0, false);
        }
        rec.evals(2);
        judge_trace(c, &t1, &g1, &want, rec, &mut outcomes);
        return (2, t1.events.len() as u64, t1.points.len(), false);
    }
    // determinism of the machinery: the default schedule replayed twice gives identical traces
    let (d1, g1) = runner(&[]);
    let (d2, g2) = runner(&[]);
    if d1.events != d2.events || g1 != g2 || d1.points != d2.points {
        rec.fail(json!({"op": c.subject, "backend": c.backend, "kind": "nondeterministic_replay", "case": c, "inner": {"schedule": []}}));
        return (0, 0, 0, false);
    }
    let mut ex = Explorer::new(c.bound, 200_000);
    let last: std::cell::RefCell<Option<Option<Vec<u8>>>> = std::cell::RefCell::new(None);
    let transitions_c = std::cell::Cell::new(0u64);
    let mut run_dyn = |p: &[usize]| -> RunTrace {
        let (t, g) = runner(p);
        transitions_c.set(transitions_c.get() + t.points.len() as u64);
        *last.borrow_mut() = Some(g);
        t
    };
    let mut check_dyn = |t: &RunTrace| -> bool {
        let l = last.borrow();
        rec.evals(1);
        judge_trace(c, t, l.as_ref().unwrap(), &want, rec, &mut outcomes)
    };
    ex.explore(vec![], &mut run_dyn, &mut check_dyn);
    transitions += transitions_c.get();
    rec.add("schedules", ex.schedules);
    rec.add("distinct_outcomes", outcomes.len() as u64);
    rec.distinct(fnv(format!("{:?}", c).as_bytes()));
    rec.sample(|| json!({"case": c, "default_schedule_points": d1.points.len(), "workers": d1.workers, "schedules": ex.schedules}));
    (ex.schedules, transitions, ex.max_points, ex.capped)
}

// ---------------------------------------------------------------------------------------------
// thread counts (free running, no hook): bit-identical to threads = 1 for every count
// ---------------------------------------------------------------------------------------------

#[derive(Clone, Debug, Serialize, Deserialize)]
pub struct CountCase {
    pub backend: String,
    pub n: usize,
    pub outputs: usize,
    pub value: u8,
}

pub fn exec_counts<B: Bk>(c: &CountCase, max_threads: usize, rec: &mut Rec)
where
    Module<B>: HalAll<B>
        + CoreAll<B>
        + ExecuteBDDCircuit<B>
        + FheUintPreparedFactory<u8, B>
        + poulpy_bin_fhe::bdd_arithmetic::FheUintPreparedEncryptSk<u8, B>,
    Scratch<B>: ScratchTakeCore<B> + ScratchAvailable + TakeSlice,
{
    let fx = fixture::<B>(c.n, c.value);
    let circuit = toy_circuit(c.outputs, 8);
    let want = eval_bytes::<B>(&fx, &circuit, 1, 2, 2);
    for threads in 1..=max_threads {
        for fill in 0..2usize {
            let got = guarded(|| eval_bytes::<B>(&fx, &circuit, threads, 2, fill));
            rec.evals(1);
            match got {
                Err(p) => {
                    rec.fail(json!({"op": "execute_bdd_circuit_multi_thread", "backend": B::NAME, "kind": "panic", "case": c, "inner": {"threads": threads}, "panic": p}));
                    return;
                }
                Ok(g) => {
                    if g != want {
                        rec.fail(json!({"op": "execute_bdd_circuit_multi_thread", "backend": B::NAME, "kind": "thread_count_dependent_result", "case": c, "inner": {"threads": threads, "garbage": fill}}));
                        return;
                    }
                }
            }
        }
    }
    rec.distinct(fnv(format!("{:?}", c).as_bytes()));
    rec.sample(|| serde_json::to_value(c).unwrap());
}

// ---------------------------------------------------------------------------------------------
// chunking arithmetic and scratch partition, enumerated
// ---------------------------------------------------------------------------------------------

#[derive(Clone, Debug, Serialize, Deserialize)]
pub struct ChunkCase {
    pub items: usize,
}

pub fn exec_chunks(c: &ChunkCase, rec: &mut Rec) {
    // the library partitions `items` outputs into chunks of div_ceil(items, threads) zipped with `threads`
    // scratch windows: every item must be covered exactly once and the number of chunks must not exceed threads
    for threads in 1..=80usize {
        let chunk = c.items.div_ceil(threads);
        let v: Vec<usize> = (0..c.items).collect();
        let chunks: Vec<&[usize]> = v.chunks(chunk).collect();
        rec.evals(1);
        let covered: Vec<usize> = chunks.iter().take(threads).flat_map(|c| c.iter().copied()).collect();
        if chunks.len() > threads || covered != v {
            rec.fail(json!({"op": "chunking", "backend": "model", "kind": "partition_error", "case": c, "inner": {"threads": threads}}));
            return;
        }
    }
    rec.distinct(c.items as u64);
}

pub fn exec_split<B: Bk>(threads: usize, len: usize, rec: &mut Rec)
where
    Scratch<B>: ScratchAvailable + TakeSlice + ScratchTakeCore<B>,
{
    // per-thread windows returned by split_mut are pairwise disjoint and inside the parent
    for mis in [0usize, 8, 24, 56] {
        let total = threads * len + 64 + mis + 64;
        let mut buf = poulpy_hal::alloc_aligned::<u8>(total + 64);
        let base = buf.as_ptr() as usize;
        let parent = B::scratch_from_bytes(&mut buf[mis..mis + total]);
        let r = guarded(|| {
            let (parts, _rest) = parent.split_mut(threads, len);
            parts.iter().map(|p| (p.data.as_ptr() as usize, p.data.len())).collect::<Vec<_>>()
        });
        rec.evals(1);
        match r {
            Err(p) => {
                // not enough room after alignment is a legitimate assertion of split_mut; count it
                let _ = p;
                rec.add("split_rejected", 1);
            }
            Ok(ws) => {
                for (i, (p, l)) in ws.iter().enumerate() {
                    if *l < len || *p < base + mis || p + l > base + mis + total {
                        rec.fail(json!({"op": "scratch_split_mut", "backend": B::NAME, "kind": "window_out_of_parent", "case": {"threads": threads, "len": len, "misalign": mis}}));
                        return;
                    }
                    for (q, m) in ws.iter().skip(i + 1) {
                        if p < &(q + m) && q < &(p + l) {
                            rec.fail(json!({"op": "scratch_split_mut", "backend": B::NAME, "kind": "windows_overlap", "case": {"threads": threads, "len": len, "misalign": mis}}));
                            return;
                        }
                    }
                }
            }
        }
    }
    rec.distinct((threads * 100_000 + len) as u64);
}

// ---------------------------------------------------------------------------------------------
// shared Module: interleavings of harness threads at operation granularity
// ---------------------------------------------------------------------------------------------

fn shared_ops<B: Bk>(fx: &Fixture<B>, circuit: &ToyCircuit, which: usize) -> Vec<u8>
where
    Module<B>: HalAll<B> + CoreAll<B> + ExecuteBDDCircuit<B>,
    Scratch<B>: ScratchTakeCore<B> + ScratchAvailable + TakeSlice,
{
    // each harness thread evaluates a different slice of the circuit with its own scratch on the shared module,
    // prepared inputs and read-only data
    let sub = ToyCircuit {
        bits: vec![(
            circuit.bits[which % circuit.bits.len()]
                .0
                .iter()
                .map(|n| match n {
                    Node::Cmux(a, b, c) => Node::Cmux(*a, *b, *c),
                    Node::Copy => Node::Copy,
                    Node::None => Node::None,
                })
                .collect(),
            3,
        )],
        inputs: 8,
    };
    eval_bytes::<B>(fx, &sub, 1, 0, which % 2)
}

pub fn exec_shared<B: Bk>(rec: &mut Rec)
where
    Module<B>: HalAll<B>
        + CoreAll<B>
        + ExecuteBDDCircuit<B>
        + FheUintPreparedFactory<u8, B>
        + poulpy_bin_fhe::bdd_arithmetic::FheUintPreparedEncryptSk<u8, B>,
    Scratch<B>: ScratchTakeCore<B> + ScratchAvailable + TakeSlice,
{
    use std::sync::{Condvar, Mutex};
    let fx = fixture::<B>(8, 0xA7);
    let circuit = toy_circuit(6, 8);
    let nthreads = 3usize;
    let nops = 2usize;
    // solo results
    let solo: Vec<Vec<Vec<u8>>> = (0..nthreads).map(|t| (0..nops).map(|o| shared_ops::<B>(&fx, &circuit, t * nops + o)).collect()).collect();
    // all interleavings of 3 threads x 2 operations = 90 sequences of thread ids
    let mut seqs: Vec<Vec<usize>> = vec![];
    fn gen_seqs(cur: &mut Vec<usize>, left: &mut Vec<usize>, out: &mut Vec<Vec<usize>>) {
        if left.iter().all(|x| *x == 0) {
            out.push(cur.clone());
            return;
        }
        for t in 0..left.len() {
            if left[t] > 0 {
                left[t] -= 1;
                cur.push(t);
                gen_seqs(cur, left, out);
                cur.pop();
                left[t] += 1;
            }
        }
    }
    gen_seqs(&mut vec![], &mut vec![nops; nthreads], &mut seqs);
    for seq in &seqs {
        let turn = Mutex::new(0usize);
        let cv = Condvar::new();
        let results: Vec<Mutex<Vec<Vec<u8>>>> = (0..nthreads).map(|_| Mutex::new(vec![])).collect();
        std::thread::scope(|s| {
            for t in 0..nthreads {
                let (turn, cv, seq, fx, circuit, results) = (&turn, &cv, seq, &fx, &circuit, &results);
                s.spawn(move || {
                    for o in 0..nops {
                        // wait until it is this thread's turn in the sequence
                        let mut g = turn.lock().unwrap();
                        loop {
                            let pos = *g;
                            if pos < seq.len() && seq[pos] == t && seq[..pos].iter().filter(|x| **x == t).count() == o {
                                break;
                            }
                            g = cv.wait(g).unwrap();
                        }
                        drop(g);
                        let r = shared_ops::<B>(fx, circuit, t * nops + o);
                        results[t].lock().unwrap().push(r);
                        let mut g = turn.lock().unwrap();
                        *g += 1;
                        cv.notify_all();
                    }
                });
            }
        });
        rec.evals(1);
        for t in 0..nthreads {
            if *results[t].lock().unwrap() != solo[t] {
                rec.fail(json!({"op": "shared_module", "backend": B::NAME, "kind": "interference", "case": {"sequence": seq}, "inner": {"thread": t}}));
                return;
            }
        }
    }
    rec.add("interleavings", seqs.len() as u64);
    rec.distinct(1);
    rec.distinct(2);
}

// ---------------------------------------------------------------------------------------------
// shared Module, free running (complement to the exhaustive parts: OS threads, no controlled scheduler)
// ---------------------------------------------------------------------------------------------

/// One job of thread `t`: a digest of values that depend only on (t, it). The jobs go through the entry points worker
/// threads share in the library: Galois elements for thread-specific generators, the trace's element list,
/// automorphisms and rotations on thread-private vectors, and a slice of the toy circuit on the shared prepared inputs.
fn free_job<B: Bk>(fx: &Fixture<B>, circuit: &ToyCircuit, t: usize, it: usize) -> u64
where
    Module<B>: HalAll<B> + CoreAll<B> + ExecuteBDDCircuit<B>,
    Scratch<B>: ScratchTakeCore<B> + ScratchAvailable + TakeSlice,
{
    use poulpy_core::GLWETrace;
    use poulpy_hal::api::{VecZnxAutomorphism, VecZnxRotate};
    use poulpy_hal::layouts::{GaloisElement, VecZnx, ZnxViewMut};
    let m = &fx.module;
    let mut h: u64 = 0xcbf2_9ce4_8422_2325 ^ ((t as u64) << 32 | it as u64);
    let mut mix = |x: u64| {
        h ^= x;
        h = h.wrapping_mul(0x0000_0100_0000_01B3);
    };
    match (t + it) % 7 {
        0 => {
            for k in 0..64i64 {
                let g = (2 * t as i64 + 1) * (k + 1) * if k % 3 == 0 { -1 } else { 1 };
                let e = m.galois_element(g);
                mix(e as u64);
                mix(m.galois_element_inv(e) as u64);
            }
        }
        1 => {
            for e in m.glwe_trace_galois_elements() {
                mix(e as u64);
            }
            for k in 0..16i64 {
                mix(m.galois_element(k * (t as i64 + 1)) as u64);
            }
        }
        2 => {
            let n = m.n();
            let mut a = VecZnx::alloc(n, 1, 2);
            for (i, x) in a.raw_mut().iter_mut().enumerate() {
                *x = ((i * 31 + t * 7 + it) % 97) as i64 - 48;
            }
            let mut r = VecZnx::alloc(n, 1, 2);
            let p = m.galois_element(t as i64 + it as i64 % 5 + 1);
            m.vec_znx_automorphism(p, &mut r, 0, &a, 0);
            mix(fnv(&r.data));
            m.vec_znx_rotate(t as i64 - it as i64, &mut r, 0, &a, 0);
            mix(fnv(&r.data));
        }
        3 => mix(fnv(&shared_ops::<B>(fx, circuit, t * 2 + it % 2))),
        // the preparation / transform entry points every worker of a multi-threaded evaluation goes through with the
        // shared module handle (tables, twiddles and any working storage behind it)
        k => {
            use poulpy_hal::api::*;
            use poulpy_hal::layouts::{DataView, MatZnx, ScalarZnx};
            let n = m.n();
            let val = |i: usize, salt: usize| ((i * 17 + t * 29 + it * 5 + salt) % 201) as i64 - 100;
            match k {
                4 => {
                    let mut sc = ScalarZnx::alloc(n, 1);
                    for (i, x) in sc.raw_mut().iter_mut().enumerate() {
                        *x = val(i, 1) % 2;
                    }
                    let mut pp = m.svp_ppol_alloc(1);
                    m.svp_prepare(&mut pp, 0, &sc, 0);
                    mix(fnv(pp.data().as_ref()));
                }
                5 => {
                    let mut a = VecZnx::alloc(n, 1, 2);
                    for (i, x) in a.raw_mut().iter_mut().enumerate() {
                        *x = val(i, 2);
                    }
                    let mut d = m.vec_znx_dft_alloc(1, 2);
                    m.vec_znx_dft_apply(1, 0, &mut d, 0, &a, 0);
                    mix(fnv(d.data().as_ref()));
                    let mut big = m.vec_znx_big_alloc(1, 2);
                    let mut s = B::scratch(m.vec_znx_idft_apply_tmp_bytes() + 64);
                    m.vec_znx_idft_apply(&mut big, 0, &d, 0, B::borrow(&mut s));
                    mix(fnv(big.data().as_ref()));
                }
                _ => {
                    let mut mat = MatZnx::alloc(n, 2, 1, 2, 2);
                    for (i, x) in mat.raw_mut().iter_mut().enumerate() {
                        *x = val(i, 3);
                    }
                    let mut pm = m.vmp_pmat_alloc(2, 1, 2, 2);
                    let mut s = B::scratch(m.vmp_prepare_tmp_bytes(2, 1, 2, 2) + 64);
                    m.vmp_prepare(&mut pm, &mat, B::borrow(&mut s));
                    mix(fnv(pm.data().as_ref()));
                }
            }
        }
    }
    h
}

pub fn exec_shared_free<B: Bk>(budget_ms: u64, rec: &mut Rec)
where
    Module<B>: HalAll<B>
        + CoreAll<B>
        + ExecuteBDDCircuit<B>
        + FheUintPreparedFactory<u8, B>
        + poulpy_bin_fhe::bdd_arithmetic::FheUintPreparedEncryptSk<u8, B>,
    Scratch<B>: ScratchTakeCore<B> + ScratchAvailable + TakeSlice,
{
    let fx = fixture::<B>(8, 0xA7);
    let circuit = toy_circuit(6, 8);
    let nthreads = 8usize;
    let iters = 32usize;
    let solo: Vec<Vec<u64>> = (0..nthreads).map(|t| (0..iters).map(|it| free_job::<B>(&fx, &circuit, t, it)).collect()).collect();
    let start = std::time::Instant::now();
    let mut rounds = 0u64;
    while start.elapsed().as_millis() < budget_ms as u128 {
        let barrier = std::sync::Barrier::new(nthreads);
        let bad: std::sync::Mutex<Option<(usize, usize)>> = std::sync::Mutex::new(None);
        std::thread::scope(|s| {
            for t in 0..nthreads {
                let (fx, circuit, solo, barrier, bad) = (&fx, &circuit, &solo, &barrier, &bad);
                s.spawn(move || {
                    barrier.wait();
                    for it in 0..iters {
                        let got = guarded(|| free_job::<B>(fx, circuit, t, it));
                        if got.as_ref().ok() != Some(&solo[t][it]) {
                            let mut b = bad.lock().unwrap();
                            if b.is_none() {
                                *b = Some((t, it));
                            }
                            return;
                        }
                    }
                });
            }
        });
        rounds += 1;
        rec.evals((nthreads * iters) as u64);
        if let Some((t, it)) = *bad.lock().unwrap() {
            rec.fail(json!({"op": "shared_module_free_running", "backend": B::NAME, "kind": "interference", "case": {"thread": t, "iteration": it, "job_kind": (t + it) % 7},
                "inner": {"round": rounds}, "why": "a job run concurrently with 7 other threads on the shared Module gave a result different from the same job run alone"}));
            return;
        }
    }
    rec.add("free_running_rounds", rounds);
    rec.distinct(3);
}

// ---------------------------------------------------------------------------------------------

fn fam_sched<B: Bk>(run: &mut Run)
where
    Module<B>: HalAll<B>
        + CoreAll<B>
        + ExecuteBDDCircuit<B>
        + FheUintPreparedFactory<u8, B>
        + poulpy_bin_fhe::bdd_arithmetic::FheUintPreparedEncryptSk<u8, B>,
    Scratch<B>: ScratchTakeCore<B> + ScratchAvailable + TakeSlice,
{
    // E3 is sequential by construction (one controller, global hook): cases run one after the other
    let mut cs = vec![];
    let tier = run.tier;
    for &(outputs, threads, bound) in tier
        .pick(&[(4usize, 2usize, 2usize), (5, 3, 1), (3, 2, 3)][..], &[(4usize, 2usize, 3usize), (5, 3, 2), (5, 2, 3), (7, 3, 2), (2, 2, 64)][..])
        .iter()
    {
        cs.push(SchedCase {
            subject: "execute_bdd_circuit_multi_thread".into(),
            backend: B::NAME.into(),
            n: 8,
            outputs,
            threads,
            bound,
            value: 0xA7,
        });
    }
    let (mut states, mut transitions, mut capped) = (0u64, 0u64, false);
    let name = format!("schedules/{}", B::NAME);
    run.single(
        &name,
        "all schedules of execute_bdd_circuit_multi_thread on a 3-level, width-3 toy circuit (yield points: worker start, each work item, each CMux, worker end) with at most `bound` preemptions for (outputs, threads, bound) instances; oracle: output bytes identical to threads=1, every work item exactly once, no deadlock; the default schedule is replayed twice first (determinism of the machinery)",
        |rec| {
            for c in &cs {
                let (s, t, _p, cap) = exec_sched::<B>(c, None, rec);
                states += s;
                transitions += t;
                capped |= cap;
            }
        },
    );
    run.states += states;
    run.transitions += transitions;
    run.traces_validated += states;
    if capped {
        run.note("schedule_cap_hit", json!(true));
    }
}

fn fam_counts<B: Bk>(run: &mut Run)
where
    Module<B>: HalAll<B>
        + CoreAll<B>
        + ExecuteBDDCircuit<B>
        + FheUintPreparedFactory<u8, B>
        + poulpy_bin_fhe::bdd_arithmetic::FheUintPreparedEncryptSk<u8, B>,
    Scratch<B>: ScratchTakeCore<B> + ScratchAvailable + TakeSlice,
{
    let cores = std::thread::available_parallelism().map(|n| n.get()).unwrap_or(4);
    let mut cs = vec![];
    for outputs in run.tier.pick(vec![1usize, 3, 5, 8], vec![1usize, 2, 3, 4, 5, 7, 8, 9, 13, 16]) {
        for value in [0x00u8, 0xA7, 0xFF] {
            cs.push(CountCase {
                backend: B::NAME.into(),
                n: 8,
                outputs,
                value,
            });
        }
    }
    let maxt = (2 * cores).max(19);
    run.family(
        &format!("thread_counts/{}", B::NAME),
        "free-running real threads (no hook): thread counts 1..=max(2*cores, 19) incl. counts that do not divide / exceed the number of outputs, two garbage fills of outputs; result bytes identical to threads=1 and surplus outputs zeroed",
        cs,
        |c, rec| exec_counts::<B>(c, maxt, rec),
    );
}

pub fn run(run: &mut Run) {
    run.assume("the controlled scheduler serialises workers between yield points: two workers are never inside the same kernel simultaneously; a data race confined to one kernel call is outside this check (no shared mutable state exists in the library: see the source-scan note)");
    run.assume("toy parameters (N=8, rank 1): only ciphertext bytes are compared, noise correctness is irrelevant");
    // source scan (coverage note, never a violation): shared mutable state in non-test library code
    let scan = std::process::Command::new("sh")
        .arg("-c")
        .arg("grep -rnE 'static mut|thread_local!|Lazy<|OnceCell|OnceLock|Mutex<|RwLock<|Atomic[A-Z]' /repo/poulpy-hal/src /repo/poulpy-core/src /repo/poulpy-cpu-ref/src /repo/poulpy-cpu-avx/src /repo/poulpy-ckks/src /repo/poulpy-bin-fhe/src --include=*.rs | grep -v '/tests/' | grep -v 'test_suite' | grep -v verif_hooks | wc -l")
        .output();
    if let Ok(o) = scan {
        run.note("shared_mutable_state_sites_in_library_sources", json!(String::from_utf8_lossy(&o.stdout).trim()));
    }
    pvc_common::for_backends!(fam_sched(run));
    pvc_common::for_backends!(fam_counts(run));
    {
        // integer preparation (circuit bootstrapping of every bit) at the suite's parameters (N=256)
        let thorough = run.tier.is_thorough();
        let cs = prep_cases("fft64-ref", thorough);
        let (mut st, mut tr) = (0u64, 0u64);
        run.single(
            "schedules_prepare/fft64-ref",
            "all schedules of fhe_uint_prepare_custom_multi_thread on a u8 word (yield points: worker start, before each of the three stages of each bit, worker end) with at most `bound` preemptions for (threads, bit_start, bit_count, bound) instances; oracle: prepared GGSW bytes of all 8 bits identical to threads=1 (bits outside the range zeroed), every bit prepared exactly once",
            |rec| {
                let r = prepare_fft64_ref(&cs, None, rec);
                st = r.0;
                tr = r.1;
            },
        );
        run.states += st;
        run.transitions += tr;
        run.traces_validated += st;
        if thorough && pvc_common::host_has_avx() {
            let cs = prep_cases("fft64-avx", false);
            let (mut st, mut tr) = (0u64, 0u64);
            run.single("schedules_prepare/fft64-avx", "as schedules_prepare/fft64-ref (quick instances) on the AVX backend", |rec| {
                let r = prepare_fft64_avx(&cs, None, rec);
                st = r.0;
                tr = r.1;
            });
            run.states += st;
            run.transitions += tr;
            run.traces_validated += st;
        }
    }
    let cs: Vec<ChunkCase> = (1..=70).map(|items| ChunkCase { items }).collect();
    run.family(
        "chunking_model",
        "model of the partition (chunk = div_ceil(items, threads); chunks zipped with `threads` windows) for all items 1..70 x threads 1..80: every item covered exactly once, chunks <= threads",
        cs,
        exec_chunks,
    );
    let pairs: Vec<(usize, usize)> = (1..=6).flat_map(|t| [64usize, 72, 100, 128, 1000, 4096].into_iter().map(move |l| (t, l))).collect();
    run.family(
        "scratch_split/fft64-ref",
        "Scratch::split_mut(threads, len) for threads 1..6 x len in {64,72,100,128,1000,4096} x 4 base misalignments: windows pairwise disjoint, inside the parent, at least len bytes",
        pairs,
        |&(t, l), rec| exec_split::<pvc_common::FFT64Ref>(t, l, rec),
    );
    {
        macro_rules! shared {
            ($B:ty) => {
                run.single(
                    &format!("shared_module/{}", <$B as Bk>::NAME),
                    "3 harness threads x 2 operations on one shared Module / prepared inputs, own scratch each: all 90 interleavings at operation granularity; each thread's outputs equal its solo run",
                    |rec| exec_shared::<$B>(rec),
                );
            };
        }
        let budget = run.tier.pick(1500u64, 20_000u64);
        run.note(
            "sampling_complement",
            json!("families shared_module_free_running/* are free-running OS-thread stress runs for a fixed time budget: a sample, not part of the exhaustive claim (`exhaustive` refers to the schedule, thread-count, partition, window and operation-interleaving enumerations)"),
        );
        run.single(
            "shared_module_free_running/fft64-ref",
            "COMPLEMENT, not exhaustive: 8 OS threads x 32 jobs (Galois elements of thread-specific generators and their inverses, the trace's element list, automorphism / rotation of private vectors, circuit slices on shared prepared inputs, svp / vmp preparation, forward and inverse transforms of private data) on one shared Module, released together from a barrier and repeated for a fixed time budget; every job's digest equals the digest of the same job run alone. Catches shared mutable state behind &Module that the controlled scheduler (yield points at work-item granularity) cannot interleave",
            |rec| exec_shared_free::<pvc_common::FFT64Ref>(budget, rec),
        );
        run.single(
            "shared_module_free_running/ntt120-ref",
            "as shared_module_free_running/fft64-ref on the NTT120 reference backend (its preparation routines keep more working storage)",
            |rec| exec_shared_free::<pvc_common::NTT120Ref>(budget, rec),
        );
        shared!(pvc_common::FFT64Ref);
        shared!(pvc_common::NTT120Ref);
        if pvc_common::host_has_avx() {
            shared!(pvc_common::FFT64Avx);
            shared!(pvc_common::NTT120Avx);
        }
    }
    if run.states == 0 {
        run.states = 1;
    }
}

pub fn replay(run: &mut Run, d: &Value) {
    let fam = d["family"].as_str().unwrap_or("").to_string();
    let backend = d["backend"].as_str().unwrap_or("").to_string();
    macro_rules! go {
        ($B:ty) => {{
            if fam.starts_with("schedules") {
                let c: SchedCase = serde_json::from_value(d["case"].clone()).unwrap();
                let s: Vec<usize> = serde_json::from_value(d["inner"]["schedule"].clone()).unwrap_or_default();
                run.single(&fam, "replay", |rec| {
                    exec_sched::<$B>(&c, Some(s), rec);
                });
            } else if fam.starts_with("thread_counts") {
                let c: CountCase = serde_json::from_value(d["case"].clone()).unwrap();
                run.single(&fam, "replay", |rec| exec_counts::<$B>(&c, 40, rec));
            } else if fam.starts_with("shared_module") {
                if fam.starts_with("shared_module_free_running") {
                    run.single(&fam, "replay", |rec| exec_shared_free::<$B>(3000, rec));
                } else {
                    run.single(&fam, "replay", |rec| exec_shared::<$B>(rec));
                }
            }
        }};
    }
    if fam.starts_with("schedules_prepare") {
        let c: PrepCase = serde_json::from_value(d["case"].clone()).unwrap();
        let s: Vec<usize> = serde_json::from_value(d["inner"]["schedule"].clone()).unwrap_or_default();
        run.single(&fam, "replay", |rec| {
            if backend == "fft64-avx" {
                prepare_fft64_avx(&[c.clone()], Some((0, s.clone())), rec);
            } else {
                prepare_fft64_ref(&[c.clone()], Some((0, s.clone())), rec);
            }
        });
        return;
    }
    if fam == "chunking_model" {
        let c: ChunkCase = serde_json::from_value(d["case"].clone()).unwrap();
        run.single(&fam, "replay", |rec| exec_chunks(&c, rec));
        return;
    }
    match backend.as_str() {
        "ntt120-ref" => go!(pvc_common::NTT120Ref),
        "fft64-avx" => go!(pvc_common::FFT64Avx),
        "ntt120-avx" => go!(pvc_common::NTT120Avx),
        _ => go!(pvc_common::FFT64Ref),
    }
}

// ---------------------------------------------------------------------------------------------
// second hooked site: fhe_uint_prepare_custom_multi_thread (integer preparation through circuit bootstrapping)
// ---------------------------------------------------------------------------------------------

#[derive(Clone, Debug, Serialize, Deserialize)]
pub struct PrepCase {
    pub subject: String,
    pub backend: String,
    pub threads: usize,
    pub bit_start: usize,
    pub bit_count: usize,
    pub bound: usize,
    pub value: u8,
}

macro_rules! prepare_subject {
    ($fname:ident, $B:ty) => {
        pub fn $fname(cases: &[PrepCase], only: Option<(usize, Vec<usize>)>, rec: &mut Rec) -> (u64, u64) {
            use poulpy_bin_fhe::bdd_arithmetic::tests::test_suite::TestContext;
            use poulpy_bin_fhe::bdd_arithmetic::{FheUint, FheUintPrepare, GetGGSWBit};
            use poulpy_bin_fhe::blind_rotation::CGGI;
            use poulpy_hal::layouts::DataView;
            type B = $B;
            let ctx: TestContext<CGGI, B> = TestContext::new();
            let module = &ctx.module;
            let glwe_infos = ctx.glwe_infos();
            let ggsw_infos = ctx.ggsw_infos();
            let enc = EncryptionLayout::new_from_default_sigma(glwe_infos).unwrap();
            let (mut schedules, mut transitions) = (0u64, 0u64);
            for (ci, c) in cases.iter().enumerate() {
                if let Some((i, _)) = &only {
                    if *i != ci {
                        continue;
                    }
                }
                let mut word: FheUint<Vec<u8>, u8> = FheUint::alloc_from_infos(&glwe_infos);
                {
                    let mut s = <B as Bk>::scratch(1 << 22);
                    word.encrypt_sk(
                        module,
                        c.value,
                        &ctx.sk_glwe,
                        &enc,
                        &mut Source::new([7u8; 32]),
                        &mut Source::new([8u8; 32]),
                        <B as Bk>::borrow(&mut s),
                    );
                }
                let per = module.fhe_uint_prepare_tmp_bytes(7, 1, &ggsw_infos, &glwe_infos, &ctx.bdd_key);
                let run_once = |threads: usize, fill: usize| -> Vec<u8> {
                    let mut res: FheUintPrepared<_, u8, B> = FheUintPrepared::alloc_from_infos(module, &ggsw_infos);
                    // the receiver is a re-used one: every bit already holds a (bootstrapping-free) encryption of the
                    // complement, so that a bit the routine should have rewritten or cleared and did not is visible
                    {
                        let enc_ggsw = EncryptionLayout::new_from_default_sigma(ggsw_infos).unwrap();
                        let mut s0 = <B as Bk>::scratch(1 << 22);
                        res.encrypt_sk(
                            module,
                            !c.value,
                            &ctx.sk_glwe,
                            &enc_ggsw,
                            &mut Source::new([9u8; 32]),
                            &mut Source::new([10u8; 32]),
                            <B as Bk>::borrow(&mut s0),
                        );
                    }
                    // generous: exact multi-thread sizing is C12's business (per-thread windows are re-aligned to 64 bytes)
                    let mut s = <B as Bk>::scratch(threads * (per + 64) + 64);
                    garbage(s.data.as_mut(), fill);
                    module.fhe_uint_prepare_custom_multi_thread(threads, &mut res, &word, c.bit_start, c.bit_count, &ctx.bdd_key, <B as Bk>::borrow(&mut s));
                    let mut bytes = vec![];
                    for i in 0..8 {
                        bytes.extend_from_slice(res.get_bit(i).data().data().as_ref());
                    }
                    bytes
                };
                let want = run_once(1, 2);
                let mut outcomes = std::collections::BTreeSet::new();
                let judge = |t: &RunTrace, got: &Option<Vec<u8>>, rec: &mut Rec, outcomes: &mut std::collections::BTreeSet<u64>| -> bool {
                    let base = |kind: &str, why: String| json!({"op": c.subject, "backend": c.backend, "kind": kind, "case": c, "inner": {"case_index": ci, "schedule": t.choices}, "why": why});
                    if let Some(e) = &t.error {
                        rec.fail(base(if e.starts_with("deadlock") { "deadlock" } else { "scheduler_error" }, e.clone()));
                        return false;
                    }
                    // stage 0 of every bit exactly once
                    let mut items: Vec<usize> = t.events.iter().filter(|e| e.1 == vh::SITE_PREPARE && e.2 < usize::MAX - 1 && e.2 % 4 == 0).map(|e| e.2 / 4).collect();
                    items.sort();
                    let expect: Vec<usize> = (c.bit_start..c.bit_start + c.bit_count).collect();
                    if items != expect {
                        rec.fail(base("work_item_multiset", format!("bits prepared: {items:?}, expected {expect:?}")));
                        return false;
                    }
                    match got {
                        None => {
                            rec.fail(base("panic", "the subject panicked under this schedule".into()));
                            false
                        }
                        Some(g) => {
                            outcomes.insert(fnv(g));
                            if *g != want {
                                rec.fail(base("schedule_dependent_result", "prepared bits differ from the single-threaded run".into()));
                                return false;
                            }
                            true
                        }
                    }
                };
                let runner = |prefix: &[usize]| -> (RunTrace, Option<Vec<u8>>) {
                    let mut got = None;
                    let t = run_schedule(prefix, || {
                        got = guarded(|| run_once(c.threads, prefix.len() % 2)).ok();
                    });
                    (t, got)
                };
                if let Some((_, s)) = &only {
                    let (t1, g1) = runner(s);
                    let (t2, g2) = runner(s);
                    if t1.events != t2.events || g1 != g2 {
                        rec.fail(json!({"op": c.subject, "backend": c.backend, "kind": "nondeterministic_replay", "case": c}));
                    } else {
                        judge(&t1, &g1, rec, &mut outcomes);
                    }
                    rec.evals(2);
                    continue;
                }
                let last: std::cell::RefCell<Option<Option<Vec<u8>>>> = std::cell::RefCell::new(None);
                let trans = std::cell::Cell::new(0u64);
                let mut run_dyn = |p: &[usize]| -> RunTrace {
                    let (t, g) = runner(p);
                    trans.set(trans.get() + t.points.len() as u64);
                    *last.borrow_mut() = Some(g);
                    t
                };
                let mut check_dyn = |t: &RunTrace| -> bool {
                    rec.evals(1);
                    let l = last.borrow();
                    judge(t, l.as_ref().unwrap(), rec, &mut outcomes)
                };
                let mut ex = Explorer::new(c.bound, 5_000);
                ex.explore(vec![], &mut run_dyn, &mut check_dyn);
                schedules += ex.schedules;
                transitions += trans.get();
                rec.add("schedules", ex.schedules);
                rec.distinct(fnv(format!("{:?}", c).as_bytes()));
                rec.sample(|| json!({"case": c, "schedules": ex.schedules, "max_points": ex.max_points}));
            }
            (schedules, transitions)
        }
    };
}

prepare_subject!(prepare_fft64_ref, pvc_common::FFT64Ref);
prepare_subject!(prepare_fft64_avx, pvc_common::FFT64Avx);

pub fn prep_cases(backend: &str, thorough: bool) -> Vec<PrepCase> {
    let mut v = vec![];
    let insts: &[(usize, usize, usize, usize)] =
        if thorough { &[(2, 0, 4, 3), (3, 1, 5, 2), (2, 2, 3, 64), (3, 0, 8, 2), (3, 0, 4, 2), (4, 1, 5, 1), (5, 0, 7, 1)] } else { &[(2, 0, 4, 2), (3, 1, 5, 1), (3, 0, 4, 1)] };
    for &(threads, bit_start, bit_count, bound) in insts {
        v.push(PrepCase {
            subject: "fhe_uint_prepare_custom_multi_thread".into(),
            backend: backend.into(),
            threads,
            bit_start,
            bit_count,
            bound,
            value: 0xA7,
        });
    }
    v
}

//! C12 (multi-thread part) - `threads x per-thread size` is what the `_multi_thread` routines document as
//! sufficient; the scratch handed over is an exact-size window between canaries.

use crate::c20::{eval_bytes_with, fixture, toy_circuit};
use poulpy_bin_fhe::bdd_arithmetic::GetBitCircuitInfo;
use poulpy_bin_fhe::bdd_arithmetic::{ExecuteBDDCircuit, FheUintPrepared};
use poulpy_core::EncryptionLayout;
use poulpy_hal::source::Source;
use pvc_common::Bk;
use pvc_engine::rng::garbage;
use pvc_engine::{Run, fnv, guarded};
use serde_json::{Value, json};

const CANARY: u8 = 0xC5;

/// exact-size window of `bytes` bytes between canaries, pre-filled with `fill`
pub fn with_window<B: Bk, T>(bytes: usize, fill: usize, f: impl FnOnce(&mut poulpy_hal::layouts::Scratch<B>) -> T) -> (T, bool) {
    let pad = 128usize;
    let mut buf = poulpy_hal::alloc_aligned::<u8>(pad + bytes + pad + 64);
    buf.fill(CANARY);
    garbage(&mut buf[pad..pad + bytes], fill);
    let r = f(B::scratch_from_bytes(&mut buf[pad..pad + bytes]));
    let ok = buf[..pad].iter().all(|x| *x == CANARY) && buf[pad + bytes..].iter().all(|x| *x == CANARY);
    (r, ok)
}

fn eval_family(run: &mut Run) {
    type B = pvc_common::FFT64Ref;
    let cs: Vec<(usize, usize)> = (1..=4usize).flat_map(|t| [1usize, 3, 4, 5].into_iter().map(move |o| (t, o))).collect();
    run.family(
        "mt_execute_bdd_circuit/fft64-ref",
        "execute_bdd_circuit_multi_thread with threads 1..4 x outputs {1,3,4,5} and a scratch window of exactly threads * execute_bdd_circuit_tmp_bytes bytes, three pre-fills",
        cs,
        |&(threads, outputs), rec| {
            let fx = fixture::<B>(8, 0xA7);
            let circuit = toy_circuit(outputs, 8);
            let per = fx.module.execute_bdd_circuit_tmp_bytes(&fx.glwe, circuit.max_state_size(), &fx.ggsw);
            let mut outs = vec![];
            for fill in [2usize, 3, 0] {
                let (r, canaries_ok) = with_window::<B, _>(threads * per, fill, |s| guarded(|| eval_bytes_with::<B>(&fx, &circuit, threads, 0, 1, s)));
                rec.evals(1);
                let case = json!({"threads": threads, "outputs": outputs, "per_thread_bytes": per});
                match r {
                    Err(p) => {
                        rec.fail(json!({"op": "execute_bdd_circuit_multi_thread", "backend": B::NAME, "kind": if p.contains("scratch") { "scratch_too_small" } else { "panic" }, "case": case, "panic": p,
                            "per_thread_multiple_of_64": per % 64 == 0}));
                        return;
                    }
                    Ok(b) => outs.push(b),
                }
                if !canaries_ok {
                    rec.fail(json!({"op": "execute_bdd_circuit_multi_thread", "backend": B::NAME, "kind": "scratch_overrun", "case": case}));
                    return;
                }
            }
            if outs[0] != outs[1] || outs[0] != outs[2] {
                rec.fail(json!({"op": "execute_bdd_circuit_multi_thread", "backend": B::NAME, "kind": "scratch_dependent_result", "case": {"threads": threads, "outputs": outputs}}));
            }
            rec.distinct(fnv(format!("{threads}-{outputs}").as_bytes()));
            rec.sample(|| json!({"threads": threads, "outputs": outputs, "per_thread_bytes": per}));
        },
    );
}

fn prepare_family(run: &mut Run) {
    use poulpy_bin_fhe::bdd_arithmetic::tests::test_suite::TestContext;
    use poulpy_bin_fhe::bdd_arithmetic::{FheUint, FheUintPrepare, GetGGSWBit};
    use poulpy_bin_fhe::blind_rotation::CGGI;
    use poulpy_hal::layouts::DataView;
    type B = pvc_common::FFT64Ref;
    run.single(
        "mt_fhe_uint_prepare/fft64-ref",
        "fhe_uint_prepare_custom_multi_thread on a u8 word at the suite's parameters with threads 1..3 and a scratch window of exactly threads * fhe_uint_prepare_tmp_bytes bytes (the per-thread size is not a multiple of the 64-byte scratch alignment), three pre-fills",
        |rec| {
            let ctx: TestContext<CGGI, B> = TestContext::new();
            let module = &ctx.module;
            let (glwe_infos, ggsw_infos) = (ctx.glwe_infos(), ctx.ggsw_infos());
            let enc = EncryptionLayout::new_from_default_sigma(glwe_infos).unwrap();
            let mut word: FheUint<Vec<u8>, u8> = FheUint::alloc_from_infos(&glwe_infos);
            let mut s = B::scratch(1 << 22);
            word.encrypt_sk(module, 0xA7u8, &ctx.sk_glwe, &enc, &mut Source::new([7u8; 32]), &mut Source::new([8u8; 32]), B::borrow(&mut s));
            let per = module.fhe_uint_prepare_tmp_bytes(7, 1, &ggsw_infos, &glwe_infos, &ctx.bdd_key);
            for threads in 1..=3usize {
                let mut outs = vec![];
                for fill in [2usize, 3, 0] {
                    let (r, canaries_ok) = with_window::<B, _>(threads * per, fill, |sc| {
                        guarded(|| {
                            let mut res: FheUintPrepared<_, u8, B> = FheUintPrepared::alloc_from_infos(module, &ggsw_infos);
                            module.fhe_uint_prepare_custom_multi_thread(threads, &mut res, &word, 0, 4, &ctx.bdd_key, sc);
                            let mut bytes = vec![];
                            for i in 0..8 {
                                bytes.extend_from_slice(res.get_bit(i).data().data().as_ref());
                            }
                            bytes
                        })
                    });
                    rec.evals(1);
                    let case = json!({"threads": threads, "per_thread_bytes": per});
                    match r {
                        Err(p) => {
                            rec.fail(json!({"op": "fhe_uint_prepare_custom_multi_thread", "backend": B::NAME, "kind": if p.contains("scratch") { "scratch_too_small" } else { "panic" }, "case": case, "panic": p,
                                "per_thread_multiple_of_64": per % 64 == 0}));
                            break;
                        }
                        Ok(b) => outs.push(b),
                    }
                    if !canaries_ok {
                        rec.fail(json!({"op": "fhe_uint_prepare_custom_multi_thread", "backend": B::NAME, "kind": "scratch_overrun", "case": case}));
                        break;
                    }
                }
                if outs.len() == 3 && (outs[0] != outs[1] || outs[0] != outs[2]) {
                    rec.fail(json!({"op": "fhe_uint_prepare_custom_multi_thread", "backend": B::NAME, "kind": "scratch_dependent_result", "case": {"threads": threads}}));
                }
                rec.distinct(threads as u64 + 1000);
            }
            rec.sample(|| json!({"per_thread_bytes": per}));
        },
    );
}

pub fn run(run: &mut Run) {
    eval_family(run);
    prepare_family(run);
}

pub fn replay(run: &mut Run, d: &Value) -> bool {
    let fam = d["family"].as_str().unwrap_or("");
    if !fam.starts_with("mt_") {
        return false;
    }
    // both families are small: re-run the family the case belongs to
    if fam.starts_with("mt_execute") {
        eval_family(run);
    } else {
        prepare_family(run);
    }
    true
}

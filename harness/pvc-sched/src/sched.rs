//! E3 - controlled scheduler for the two `thread::scope` sites of poulpy-bin-fhe (hook H3).
//!
//! Workers are real OS threads, but each blocks at every yield point until the controller grants it the
//! baton, so exactly one worker runs at a time and an interleaving is a sequence of choices owned by the
//! harness. `explore` is the deviation-bounded depth-first search of the CHESS papers: the default schedule
//! first (always continue the running worker, else the lowest id), then every schedule with one preemption,
//! two, ... A prefix that cannot be replayed is a hard error; "no worker waiting and not all finished" after
//! the spawner announced the worker count is a deadlock verdict (watchdog only, never used to pick schedules).

use std::collections::{BTreeMap, BTreeSet};
use std::sync::{Condvar, Mutex};
use std::time::{Duration, Instant};

use poulpy_bin_fhe::verif_hooks as vh;

#[derive(Clone, Debug, PartialEq, Eq)]
pub struct Point {
    /// workers waiting at this decision point, canonical order: running worker first (if still enabled), then ascending
    pub enabled: Vec<usize>,
    pub chosen: usize,
    pub running_still_enabled: bool,
}

#[derive(Default)]
struct Ctl {
    active: bool,
    expected: Option<usize>,
    waiting: BTreeMap<usize, (u32, usize)>,
    finished: BTreeSet<usize>,
    granted: Option<usize>,
    last_run: Option<usize>,
    events: Vec<(usize, u32, usize)>,
    /// the subject returned (normally or by unwinding) - nothing more can happen
    subject_done: bool,
}

static CTL: Mutex<Option<Ctl>> = Mutex::new(None);
static CV: Condvar = Condvar::new();

fn hook(site: u32, worker: usize, step: usize) {
    let mut g = CTL.lock().unwrap();
    let Some(c) = g.as_mut() else { return };
    if !c.active {
        return;
    }
    if site == vh::SITE_SPAWNED {
        c.expected = Some(step);
        CV.notify_all();
        return;
    }
    if step == vh::STEP_END {
        c.finished.insert(worker);
        c.waiting.remove(&worker);
        if c.granted == Some(worker) {
            c.granted = None;
        }
        c.events.push((worker, site, step));
        CV.notify_all();
        return;
    }
    // CMux yields come from the same worker thread (id from the thread-local)
    c.waiting.insert(worker, (site, step));
    if c.granted == Some(worker) {
        c.granted = None;
    }
    CV.notify_all();
    loop {
        let c = g.as_mut().unwrap();
        if !c.active {
            return; // controller gave up (error path): let everything run to completion
        }
        if c.granted == Some(worker) && !c.waiting.contains_key(&worker) {
            c.events.push((worker, site, step));
            return;
        }
        g = CV.wait(g).unwrap();
    }
}

#[derive(Debug)]
pub struct RunTrace {
    pub points: Vec<Point>,
    pub choices: Vec<usize>,
    /// (worker, site, step) in execution order
    pub events: Vec<(usize, u32, usize)>,
    pub workers: usize,
    pub error: Option<String>,
}

/// Runs `subject` under the schedule `prefix` (then default choices). `subject` is executed on the calling thread
/// and must call one of the hooked multi-threaded routines exactly once.
pub fn run_schedule(prefix: &[usize], subject: impl FnOnce()) -> RunTrace {
    {
        let mut g = CTL.lock().unwrap();
        *g = Some(Ctl {
            active: true,
            ..Default::default()
        });
    }
    vh::set_yield_hook(Some(hook));
    let prefix_v: Vec<usize> = prefix.to_vec();
    let controller = std::thread::spawn(move || -> (Vec<Point>, Vec<usize>, Option<String>) {
        let mut points: Vec<Point> = vec![];
        let mut choices: Vec<usize> = vec![];
        let mut err: Option<String> = None;
        let start = Instant::now();
        let mut g = CTL.lock().unwrap();
        loop {
            let c = g.as_mut().unwrap();
            let quiescent = c.granted.is_none() && c.expected.map(|e| c.waiting.len() + c.finished.len() == e).unwrap_or(false);
            if c.subject_done && c.granted.is_none() && c.waiting.is_empty() {
                break; // the subject returned (e.g. it panicked before spawning anything)
            }
            if quiescent {
                if c.waiting.is_empty() {
                    break; // all workers finished
                }
                let mut enabled: Vec<usize> = c.waiting.keys().copied().collect();
                let still = c.last_run.map(|w| enabled.contains(&w)).unwrap_or(false);
                if still {
                    let w = c.last_run.unwrap();
                    enabled.retain(|x| *x != w);
                    enabled.insert(0, w);
                }
                let i = points.len();
                let choice = if i < prefix_v.len() { prefix_v[i] } else { 0 };
                if choice >= enabled.len() {
                    err = Some(format!("schedule prefix not replayable at point {i}: choice {choice} but only {} workers enabled", enabled.len()));
                    c.active = false;
                    CV.notify_all();
                    break;
                }
                let w = enabled[choice];
                points.push(Point {
                    enabled: enabled.clone(),
                    chosen: choice,
                    running_still_enabled: still,
                });
                choices.push(choice);
                c.waiting.remove(&w);
                c.granted = Some(w);
                c.last_run = Some(w);
                CV.notify_all();
                continue;
            }
            let (ng, to) = CV.wait_timeout(g, Duration::from_secs(20)).unwrap();
            g = ng;
            if to.timed_out() && start.elapsed() > Duration::from_secs(20) {
                let c = g.as_mut().unwrap();
                let q = c.granted.is_none();
                if q {
                    err = Some(format!(
                        "deadlock/hang: expected {:?} workers, {} waiting, {} finished, nobody granted",
                        c.expected,
                        c.waiting.len(),
                        c.finished.len()
                    ));
                    c.active = false;
                    CV.notify_all();
                    break;
                }
            }
        }
        (points, choices, err)
    });
    subject();
    {
        let mut g = CTL.lock().unwrap();
        if let Some(c) = g.as_mut() {
            c.subject_done = true;
        }
        CV.notify_all();
    }
    let (points, choices, error) = controller.join().expect("controller thread");
    vh::set_yield_hook(None);
    let mut g = CTL.lock().unwrap();
    let c = g.take().unwrap();
    RunTrace {
        points,
        choices,
        events: c.events,
        workers: c.expected.unwrap_or(0),
        error,
    }
}

pub struct Explorer {
    pub bound: usize,
    pub schedules: u64,
    pub max_points: usize,
    pub cap: u64,
    pub capped: bool,
}

impl Explorer {
    pub fn new(bound: usize, cap: u64) -> Self {
        Explorer {
            bound,
            schedules: 0,
            max_points: 0,
            cap,
            capped: false,
        }
    }

    /// `run(prefix)` executes one schedule and returns its trace; `check(trace)` judges it (false stops the search).
    pub fn explore(&mut self, prefix: Vec<usize>, run: &mut dyn FnMut(&[usize]) -> RunTrace, check: &mut dyn FnMut(&RunTrace) -> bool) -> bool {
        if self.schedules >= self.cap {
            self.capped = true;
            return true;
        }
        let x = run(&prefix);
        self.schedules += 1;
        self.max_points = self.max_points.max(x.points.len());
        if !check(&x) {
            return false;
        }
        for i in prefix.len()..x.points.len() {
            let p = &x.points[i];
            // preemptions in choices[..i]
            let mut cost = 0usize;
            for (j, q) in x.points.iter().enumerate().take(i) {
                if q.running_still_enabled && x.choices[j] != 0 {
                    cost += 1;
                }
            }
            if p.running_still_enabled {
                cost += 1;
            }
            if cost > self.bound {
                continue;
            }
            for alt in 1..p.enabled.len() {
                let mut np: Vec<usize> = x.choices[..i].to_vec();
                np.push(alt);
                if !self.explore(np, run, check) {
                    return false;
                }
            }
        }
        true
    }
}

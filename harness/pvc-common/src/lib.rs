//! Plumbing shared by the scheme-level check crates: backend umbrella traits (HAL + core), exact phase
//! computation under clear secrets (reference model R3), secret construction with known coefficients.

pub mod be;
pub mod core_be;
pub mod phase;

pub use be::*;
pub use core_be::*;

#[allow(dead_code)]
fn _assert_bounds() {
    use poulpy_hal::layouts::Module;
    fn ok<B: Bk>()
    where
        Module<B>: CoreAll<B> + HalAll<B>,
    {
    }
    ok::<FFT64Ref>();
    ok::<NTT120Ref>();
    ok::<FFT64Avx>();
    ok::<NTT120Avx>();
}

//! R3 - exact phase of LWE/GLWE ciphertexts under clear secrets: body + sum_i mask_i * s_i, as big integers
//! scaled by 2^(size*base2k), read modulo 1. Written from the definition; no library arithmetic is used.

use poulpy_hal::layouts::{ScalarZnx, VecZnx, ZnxInfos, ZnxView};
use poulpy_hal::source::Source;
use pvc_model::IBig;
use pvc_model::torus;

/// secret distributions offered by the layouts
#[derive(Clone, Copy, Debug, PartialEq, Eq, serde::Serialize, serde::Deserialize)]
pub enum Dist {
    TernaryProb,
    TernaryHw,
    BinaryProb,
    BinaryHw,
    BinaryBlock,
    Zero,
}

pub const ALL_DISTS: [Dist; 6] = [Dist::TernaryProb, Dist::TernaryHw, Dist::BinaryProb, Dist::BinaryHw, Dist::BinaryBlock, Dist::Zero];

/// Clear coefficients of a secret with `cols` polynomials of degree n, drawn exactly as
/// `GLWESecret::fill_*` / `LWESecret::fill_*` draw them from `Source::new(seed)` (column by column through the
/// public `ScalarZnx::fill_*`), so that a harness-side copy of the secret exists without any accessor.
pub fn clear_secret(n: usize, cols: usize, dist: Dist, seed: [u8; 32]) -> Vec<Vec<i64>> {
    let mut s = ScalarZnx::alloc(n, cols);
    let mut src = Source::new(seed);
    for i in 0..cols {
        match dist {
            Dist::TernaryProb => s.fill_ternary_prob(i, 0.5, &mut src),
            Dist::TernaryHw => s.fill_ternary_hw(i, (n / 2).max(1), &mut src),
            Dist::BinaryProb => s.fill_binary_prob(i, 0.5, &mut src),
            Dist::BinaryHw => s.fill_binary_hw(i, (n / 2).max(1), &mut src),
            Dist::BinaryBlock => s.fill_binary_block(i, if n % 4 == 0 { 4 } else { 1 }, &mut src),
            Dist::Zero => {}
        }
    }
    (0..cols).map(|i| s.at(i, 0).to_vec()).collect()
}

/// exact value (scaled by 2^(size*b)) of every coefficient of column `col`
pub fn column_values(v: &VecZnx<Vec<u8>>, col: usize, b: usize) -> Vec<IBig> {
    let n = v.n();
    let size = v.size();
    (0..n)
        .map(|i| {
            let digits: Vec<i64> = (0..size).map(|j| v.at(col, j)[i]).collect();
            torus::value_scaled(&digits, b)
        })
        .collect()
}

/// negacyclic product of a big-integer polynomial with a small-integer polynomial
pub fn negacyclic_mul_small(a: &[IBig], s: &[i64]) -> Vec<IBig> {
    let n = a.len();
    let mut out: Vec<IBig> = vec![IBig::from(0); n];
    for (j, &sj) in s.iter().enumerate() {
        if sj == 0 {
            continue;
        }
        for (i, ai) in a.iter().enumerate() {
            let k = i + j;
            let t: IBig = ai * IBig::from(sj);
            if k < n {
                out[k] += t;
            } else {
                out[k - n] -= t;
            }
        }
    }
    out
}

/// GLWE phase: column 0 + sum_i column i * s[i-1]; scaled by 2^(size*b); NOT reduced modulo 1.
pub fn glwe_phase(data: &VecZnx<Vec<u8>>, b: usize, sk: &[Vec<i64>]) -> Vec<IBig> {
    let cols = data.cols();
    assert_eq!(cols, sk.len() + 1, "glwe_phase: rank mismatch");
    let mut acc = column_values(data, 0, b);
    for i in 1..cols {
        let m = column_values(data, i, b);
        let p = negacyclic_mul_small(&m, &sk[i - 1]);
        for (x, y) in acc.iter_mut().zip(p.iter()) {
            *x += y;
        }
    }
    acc
}

/// LWE phase: data = [body, a_0 .. a_{n-1}] in one VecZnx column of length n+1 : body + <a, s>
pub fn lwe_phase(data: &VecZnx<Vec<u8>>, b: usize, sk: &[i64]) -> IBig {
    let size = data.size();
    let val = |i: usize| -> IBig {
        let digits: Vec<i64> = (0..size).map(|j| data.at(0, j)[i]).collect();
        torus::value_scaled(&digits, b)
    };
    let mut acc = val(0);
    for (i, &s) in sk.iter().enumerate() {
        if s != 0 {
            acc += val(i + 1) * IBig::from(s);
        }
    }
    acc
}

/// centered difference (got - want) modulo 1 where `got` is scaled by 2^gbits and `want` by 2^wbits; returns
/// (difference scaled by 2^max(gbits,wbits), that exponent)
pub fn torus_err(got: &IBig, gbits: usize, want: &IBig, wbits: usize) -> (IBig, usize) {
    torus::torus_diff(got, gbits, want, wbits)
}

//! One umbrella bound for the poulpy-core API (never `use poulpy_core::*`: it also imports the doc(hidden)
//! `*Default` traits and makes every method call ambiguous).

use poulpy_core::layouts::compressed::*;
use poulpy_core::layouts::*;
use poulpy_core::*;
use poulpy_hal::layouts::Backend;

macro_rules! umbrella {
    ($name:ident<$b:ident> : $($t:path),+ $(,)?) => {
        pub trait $name<$b: Backend>: $($t +)+ Sized {}
        impl<$b: Backend, T> $name<$b> for T where T: $($t +)+ Sized {}
    };
}

umbrella!(CoreAll<B>:
    GLWEEncryptSk<B>, GLWEEncryptPk<B>, GLWEPublicKeyGenerate<B>, GLWECompressedEncryptSk<B>, LWEEncryptSk<B>,
    GLWEDecrypt<B>, LWEDecrypt<B>, GLWETensorDecrypt<B>,
    GGLWEEncryptSk<B>, GGSWEncryptSk<B>, GGLWEToGGSWKeyEncryptSk<B>, GLWESwitchingKeyEncryptSk<B>, GLWETensorKeyEncryptSk<B>,
    GLWEToLWESwitchingKeyEncryptSk<B>, LWESwitchingKeyEncrypt<B>, LWEToGLWESwitchingKeyEncryptSk<B>, GLWEAutomorphismKeyEncryptSk<B>,
    GGLWECompressedEncryptSk<B>, GGSWCompressedEncryptSk<B>, GLWESwitchingKeyCompressedEncryptSk<B>,
    GLWEAutomorphismKeyCompressedEncryptSk<B>, GLWETensorKeyCompressedEncryptSk<B>, GGLWEToGGSWKeyCompressedEncryptSk<B>,
    GLWEExternalProduct<B>, GGLWEExternalProduct<B>, GGSWExternalProduct<B>,
    GLWEKeyswitch<B>, GGLWEKeyswitch<B>, GGSWKeyswitch<B>, LWEKeySwitch<B>,
    GLWEAutomorphism<B>, GGSWAutomorphism<B>, GLWEAutomorphismKeyAutomorphism<B>,
    GLWEFromLWE<B>, LWEFromGLWE<B>, GGSWFromGGLWE<B>, GGSWExpandRows<B>, LWESampleExtract,
    GLWENoise<B>, GGLWENoise<B>, GGSWNoise<B>,
    GLWETrace<B>, GLWEPacking<B>, GLWEPackerOps<B>, GLWEMulConst<B>, GLWEMulPlain<B>, GLWETensoring<B>,
    GLWEAdd, GLWENegate, GLWESub, GLWERotate<B>, GGSWRotate<B>, GLWEMulXpMinusOne<B>, GLWECopy, GLWEShift<B>, GLWENormalize<B>,
    GLWESecretPreparedFactory<B>, GLWEPublicKeyPreparedFactory<B>, GGLWEPreparedFactory<B>, GGSWPreparedFactory<B>,
    GLWESwitchingKeyPreparedFactory<B>, GLWEAutomorphismKeyPreparedFactory<B>, GLWETensorKeyPreparedFactory<B>,
    GGLWEToGGSWKeyPreparedFactory<B>, GLWEToLWEKeyPreparedFactory<B>, LWESwitchingKeyPreparedFactory<B>, LWEToGLWEKeyPreparedFactory<B>,
    GLWESecretTensorFactory<B>, GLWESecretTensorPreparedFactory<B>,
    GLWEDecompress, GGLWEDecompress, GGSWDecompress,
);

//! Backend plumbing: one umbrella bound for the whole HAL API and a small per-backend trait that
//! hides the scratch constructors, so that every check is written once and instantiated 4 times.

use poulpy_hal::api::*;
use poulpy_hal::layouts::{Backend, Module, Scratch, ScratchOwned};

pub use poulpy_cpu_avx::{FFT64Avx, NTT120Avx};
pub use poulpy_cpu_ref::{FFT64Ref, NTT120Ref};

macro_rules! umbrella {
    ($name:ident<$b:ident> : $($t:path),+ $(,)?) => {
        pub trait $name<$b: Backend>: $($t +)+ Sized {}
        impl<$b: Backend, T> $name<$b> for T where T: $($t +)+ Sized {}
    };
}

umbrella!(HalAll<B>:
    ModuleN, ModuleLogN,
    CnvPVecAlloc<B>, CnvPVecBytesOf, Convolution<B>,
    SvpPPolAlloc<B>, SvpPPolBytesOf, SvpPrepare<B>, SvpApplyDft<B>, SvpApplyDftToDft<B>, SvpApplyDftToDftAssign<B>,
    VecZnxNormalizeTmpBytes, VecZnxZero, VecZnxNormalize<B>, VecZnxNormalizeAssign<B>, VecZnxAddInto, VecZnxAddAssign,
    VecZnxAddScalarInto, VecZnxAddScalarAssign, VecZnxSub, VecZnxSubAssign, VecZnxSubNegateAssign, VecZnxSubScalar,
    VecZnxSubScalarAssign, VecZnxNegate, VecZnxNegateAssign, VecZnxLshTmpBytes, VecZnxLsh<B>, VecZnxLshAddInto<B>,
    VecZnxRshTmpBytes, VecZnxRsh<B>, VecZnxRshAddInto<B>, VecZnxLshSub<B>, VecZnxRshSub<B>, VecZnxLshAssign<B>,
    VecZnxRshAssign<B>, VecZnxRotate, VecZnxRotateAssignTmpBytes, VecZnxRotateAssign<B>, VecZnxAutomorphism,
    VecZnxAutomorphismAssignTmpBytes, VecZnxAutomorphismAssign<B>, VecZnxMulXpMinusOne, VecZnxMulXpMinusOneAssignTmpBytes,
    VecZnxMulXpMinusOneAssign<B>, VecZnxSplitRingTmpBytes, VecZnxSplitRing<B>, VecZnxMergeRingsTmpBytes, VecZnxMergeRings<B>,
    VecZnxSwitchRing, VecZnxCopy, VecZnxFillUniform, VecZnxFillNormal, VecZnxAddNormal,
    VecZnxBigFromSmall<B>, VecZnxBigAlloc<B>, VecZnxBigBytesOf, VecZnxBigFromBytes<B>, VecZnxBigAddNormal<B>,
    VecZnxBigAddInto<B>, VecZnxBigAddAssign<B>, VecZnxBigAddSmallInto<B>, VecZnxBigAddSmallAssign<B>, VecZnxBigSub<B>,
    VecZnxBigSubAssign<B>, VecZnxBigSubNegateAssign<B>, VecZnxBigSubSmallA<B>, VecZnxBigSubSmallAssign<B>,
    VecZnxBigSubSmallB<B>, VecZnxBigSubSmallNegateAssign<B>, VecZnxBigNegate<B>, VecZnxBigNegateAssign<B>,
    VecZnxBigNormalizeTmpBytes, VecZnxBigNormalize<B>, VecZnxBigAutomorphismAssignTmpBytes, VecZnxBigAutomorphism<B>,
    VecZnxBigAutomorphismAssign<B>,
    VecZnxDftAlloc<B>, VecZnxDftFromBytes<B>, VecZnxDftBytesOf, VecZnxDftApply<B>, VecZnxIdftApplyTmpBytes,
    VecZnxIdftApply<B>, VecZnxIdftApplyTmpA<B>, VecZnxIdftApplyConsume<B>, VecZnxDftAddInto<B>, VecZnxDftAddAssign<B>,
    VecZnxDftAddScaledAssign<B>, VecZnxDftSub<B>, VecZnxDftSubAssign<B>, VecZnxDftSubNegateAssign<B>, VecZnxDftCopy<B>,
    VecZnxDftZero<B>,
    VmpPMatAlloc<B>, VmpPMatBytesOf, VmpPrepareTmpBytes, VmpPrepare<B>, VmpApplyDftTmpBytes, VmpApplyDft<B>,
    VmpApplyDftToDftTmpBytes, VmpApplyDftToDft<B>, VmpZero<B>,
);

#[derive(Clone, Copy, PartialEq, Eq, Debug)]
pub enum Family {
    Fft64,
    Ntt120,
}

/// Per-backend plumbing.
pub trait Bk: Backend + 'static {
    const NAME: &'static str;
    const FAMILY: Family;
    const AVX: bool;
    fn module(n: usize) -> Module<Self>;
    fn scratch(bytes: usize) -> ScratchOwned<Self>;
    fn borrow(s: &mut ScratchOwned<Self>) -> &mut Scratch<Self>;
    fn scratch_from_bytes(b: &mut [u8]) -> &mut Scratch<Self>;
    fn available(s: &Scratch<Self>) -> usize;
}

macro_rules! impl_bk {
    ($t:ty, $name:expr, $fam:expr, $avx:expr) => {
        impl Bk for $t {
            const NAME: &'static str = $name;
            const FAMILY: Family = $fam;
            const AVX: bool = $avx;
            fn module(n: usize) -> Module<Self> {
                // the DFT tables need n >= 8 (FFT64) ; coefficient-domain operations never use the handle
                if n >= 8 { <Module<Self> as ModuleNew<Self>>::new(n as u64) } else { Module::<Self>::new_marker(n as u64) }
            }
            fn scratch(bytes: usize) -> ScratchOwned<Self> {
                <ScratchOwned<Self> as ScratchOwnedAlloc<Self>>::alloc(bytes)
            }
            fn borrow(s: &mut ScratchOwned<Self>) -> &mut Scratch<Self> {
                <ScratchOwned<Self> as ScratchOwnedBorrow<Self>>::borrow(s)
            }
            fn scratch_from_bytes(b: &mut [u8]) -> &mut Scratch<Self> {
                <Scratch<Self> as ScratchFromBytes<Self>>::from_bytes(b)
            }
            fn available(s: &Scratch<Self>) -> usize {
                <Scratch<Self> as ScratchAvailable>::available(s)
            }
        }
    };
}

impl_bk!(FFT64Ref, "fft64-ref", Family::Fft64, false);
impl_bk!(NTT120Ref, "ntt120-ref", Family::Ntt120, false);
impl_bk!(FFT64Avx, "fft64-avx", Family::Fft64, true);
impl_bk!(NTT120Avx, "ntt120-avx", Family::Ntt120, true);

pub fn host_has_avx() -> bool {
    std::arch::is_x86_feature_detected!("avx2") && std::arch::is_x86_feature_detected!("fma")
}

/// Calls `$f::<B>($args)` for each of the four backends (AVX ones only if the host supports them).
#[macro_export]
macro_rules! for_backends {
    ($f:ident ( $($args:expr),* )) => {{
        $f::<$crate::be::FFT64Ref>($($args),*);
        $f::<$crate::be::NTT120Ref>($($args),*);
        if $crate::be::host_has_avx() {
            $f::<$crate::be::FFT64Avx>($($args),*);
            $f::<$crate::be::NTT120Avx>($($args),*);
        }
    }};
}

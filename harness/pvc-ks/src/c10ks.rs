//! C10 (scheme-level part: key switching, automorphisms, external products, trace, packing, conversions) - all
//! backends give bit-identical results for identical inputs and seeds.
//!
//! Two families, both executed on every available backend under equal seeds and compared after EVERY step on the
//! pairs FFT64Ref~FFT64Avx, NTT120Ref~NTT120Avx, FFT64Ref~NTT120Ref (serialised keys, ciphertexts, matrices,
//! decrypted plaintexts; prepared / DFT-domain buffers are backend-specific representations and are compared only
//! through what they compute):
//! * `ks_pipelines`: the 38 single-operation pipelines of xks.rs [key generation, preparation, encryption, operation,
//!   decryption] on the reduced shape grid;
//! * `ks_programs`: every program of depth <= 3 (thorough: <= 4) over an alphabet of 8 GLWE -> GLWE operations
//!   (key switch, assign key switch, automorphism, add-assign automorphism, sub-negate automorphism, external product,
//!   assign external product, assign trace) applied to one ciphertext register, decrypting after every step.

use crate::c03::{KsOp, Shape};
use crate::c04::{M2, m2_poly};
use crate::kit::*;
use crate::xks::*;
use poulpy_bin_fhe::bdd_arithmetic::{Cmux, Cswap};
use poulpy_core::layouts::GLWESwitchingKeyLayout;
use poulpy_core::{GLWEAutomorphism, GLWEExternalProduct, GLWEKeyswitch, GLWETrace, ScratchTakeCore};
use poulpy_hal::layouts::{Module, Scratch};
use pvc_common::{Bk, CoreAll, HalAll, for_backends};
use pvc_engine::{Rec, Run, Tier, fnv};
use serde::{Deserialize, Serialize};
use serde_json::{Value, json};

pub const PAIRS: [(&str, &str); 3] = [("fft64-ref", "fft64-avx"), ("ntt120-ref", "ntt120-avx"), ("fft64-ref", "ntt120-ref")];

struct Per {
    name: &'static str,
    res: Result<Obs, String>,
}

fn compare(per: &[Per], opname: &str, case: &Value, rec: &mut Rec) {
    rec.evals(per.len() as u64);
    for p in per {
        if let Err(msg) = &p.res {
            let stage = msg.split(':').next().unwrap_or("").to_string();
            rec.fail(json!({"op": stage, "backend": p.name, "kind": "panic", "case": case, "inner": {}, "routine": opname, "panic": msg}));
        }
    }
    let get = |name: &str| per.iter().find(|p| p.name == name).and_then(|p| p.res.as_ref().ok());
    for (a, b) in PAIRS {
        let (Some(oa), Some(ob)) = (get(a), get(b)) else { continue };
        rec.add(&format!("pairs/{a}~{b}"), 1);
        rec.add(&format!("compared_steps/{}", oa.steps.len()), 1);
        if oa.steps.len() != ob.steps.len() {
            rec.fail(json!({"op": opname, "backend": format!("{a}~{b}"), "kind": "backend_mismatch", "case": case, "inner": {"pair": [a, b]}, "differs": "step_count", "routine": opname}));
            continue;
        }
        for (i, (x, y)) in oa.steps.iter().zip(ob.steps.iter()).enumerate() {
            if x.name != y.name || x.bytes != y.bytes {
                let at = x.bytes.iter().zip(y.bytes.iter()).position(|(p, q)| p != q);
                rec.fail(json!({"op": x.op, "backend": format!("{a}~{b}"), "kind": "backend_mismatch", "case": case,
                    "inner": {"pair": [a, b]}, "differs": x.name, "step_index": i, "first_differing_byte": at, "routine": opname,
                    "cross_family": a.split('-').next() != b.split('-').next(),
                    "radix_equal": case["shape"]["b_in"] == case["shape"]["b_key"] && case["shape"]["b_key"] == case["shape"]["b_out"],
                    "dsize": case["shape"]["dsize"]}));
                break;
            }
        }
    }
    if let Some(o) = per.iter().find_map(|p| p.res.as_ref().ok()) {
        if let Some(s) = o.steps.last() {
            rec.outcome(fnv(&s.bytes));
        }
    }
}

// ---------------------------------------------------------------------------------------------
// single-operation pipelines
// ---------------------------------------------------------------------------------------------

fn pipe_backend<B: Bk>(c: &XCase, seed: u64, out: &mut Vec<Per>)
where
    Module<B>: HalAll<B> + CoreAll<B> + Cmux<B> + Cswap<B>,
    Scratch<B>: ScratchTakeCore<B>,
{
    let mut sx = Sx::new(Pol::Slack { fill: 0 });
    out.push(Per {
        name: B::NAME,
        res: run_case::<B>(c, &mut sx, 0, seed),
    });
}

pub fn exec_pipe(c: &XCase, seed: u64, rec: &mut Rec) {
    rec.distinct(fnv(format!("{:?}", c).as_bytes()));
    rec.sample(|| serde_json::to_value(c).unwrap());
    let mut per: Vec<Per> = vec![];
    for_backends!(pipe_backend(c, seed, &mut per));
    compare(&per, c.op.name(), &serde_json::to_value(c).unwrap(), rec);
}

// ---------------------------------------------------------------------------------------------
// programs over one ciphertext register
// ---------------------------------------------------------------------------------------------

#[derive(Clone, Copy, Debug, PartialEq, Eq, Serialize, Deserialize)]
pub enum POp {
    Ks,
    KsAssign,
    Auto,
    AutoAddAssign,
    AutoSubNegate,
    Xp,
    XpAssign,
    TraceAssign,
}

pub const POPS: [POp; 8] = [POp::Ks, POp::KsAssign, POp::Auto, POp::AutoAddAssign, POp::AutoSubNegate, POp::Xp, POp::XpAssign, POp::TraceAssign];

#[derive(Clone, Debug, Serialize, Deserialize)]
pub struct ProgCase {
    /// rank_in = rank_out, b_in = b_out, res_size = a_size: the register keeps its layout
    pub shape: Shape,
    pub prog: Vec<POp>,
}

fn prog_backend<B: Bk>(c: &ProgCase, seed: u64, out: &mut Vec<Per>)
where
    Module<B>: HalAll<B> + CoreAll<B> + Cmux<B> + Cswap<B>,
    Scratch<B>: ScratchTakeCore<B>,
{
    let mut sx = Sx::new(Pol::Slack { fill: 0 });
    out.push(Per {
        name: B::NAME,
        res: run_prog::<B>(c, &mut sx, seed),
    });
}

fn run_prog<B: Bk>(c: &ProgCase, sx: &mut Sx, seed: u64) -> Result<Obs, String>
where
    Module<B>: HalAll<B> + CoreAll<B> + Cmux<B> + Cswap<B>,
    Scratch<B>: ScratchTakeCore<B>,
{
    let s = &c.shape;
    let n = s.n;
    let m = B::module(n);
    let mut e = Env::<B> {
        m: &m,
        sx,
        obs: Obs::default(),
        // keys depend on the shape only: every program of one shape runs on the same key material
        seed: seed ^ fnv(format!("{:?}", c.shape).as_bytes()),
        res_fill: 0,
        noise: s.noise,
        ctr: 0,
    };
    let k = s.a_size * s.b_in;
    let lay = glwe_lay(n, s.b_in, k, s.rank_in);
    let sk = e.secret(n, s.rank_in, 1);
    let ksk = e.ksk(s, &sk, &sk)?;
    let a5 = e.atk(s, &sk, 5)?;
    let a3 = e.atk(s, &sk, 3)?;
    let tr = m.glwe_trace_galois_elements();
    let trk = e.atks(s, &sk, &tr)?;
    let g = e.ggsw_prep(s, &sk, &m2_poly(M2::XPow(n + 3), n))?;
    let kl = GLWESwitchingKeyLayout {
        n: (n as u32).into(),
        base2k: (s.b_key as u32).into(),
        k: (s.k_key as u32).into(),
        rank_in: (s.rank_in as u32).into(),
        rank_out: (s.rank_in as u32).into(),
        dnum: (s.dnum as u32).into(),
        dsize: (s.dsize as u32).into(),
    };
    let al = Env::<B>::atk_layout(s);
    let gl = Env::<B>::ggsw_key_layout(s);
    let mut reg = e.glwe_enc(n, s.b_in, k, &sk, Msg::Ramp, "input")?;
    for (i, op) in c.prog.iter().enumerate() {
        let mut fresh = e.res_glwe(n, s.b_in, k, s.rank_in);
        let name: &str = match op {
            POp::Ks => {
                e.sx.call::<B, _>("glwe_keyswitch", m.glwe_keyswitch_tmp_bytes(&lay, &lay, &kl), |sc| m.glwe_keyswitch(&mut fresh, &reg, &ksk, sc))?;
                reg = fresh;
                "glwe_keyswitch"
            }
            POp::KsAssign => {
                e.sx.call::<B, _>("glwe_keyswitch_assign", m.glwe_keyswitch_tmp_bytes(&lay, &lay, &kl), |sc| m.glwe_keyswitch_assign(&mut reg, &ksk, sc))?;
                "glwe_keyswitch_assign"
            }
            POp::Auto => {
                e.sx.call::<B, _>("glwe_automorphism", m.glwe_automorphism_tmp_bytes(&lay, &lay, &al), |sc| m.glwe_automorphism(&mut fresh, &reg, &a5, sc))?;
                reg = fresh;
                KsOp::Automorphism.name()
            }
            POp::AutoAddAssign => {
                e.sx
                    .call::<B, _>("glwe_automorphism_add_assign", m.glwe_automorphism_tmp_bytes(&lay, &lay, &al), |sc| m.glwe_automorphism_add_assign(&mut reg, &a3, sc))?;
                KsOp::AutomorphismAddAssign.name()
            }
            POp::AutoSubNegate => {
                e.sx
                    .call::<B, _>("glwe_automorphism_sub_negate", m.glwe_automorphism_tmp_bytes(&lay, &lay, &al), |sc| m.glwe_automorphism_sub_negate(&mut fresh, &reg, &a5, sc))?;
                reg = fresh;
                KsOp::AutomorphismSubNegate.name()
            }
            POp::Xp => {
                e.sx
                    .call::<B, _>("glwe_external_product", m.glwe_external_product_tmp_bytes(&lay, &lay, &gl), |sc| m.glwe_external_product(&mut fresh, &reg, &g, sc))?;
                reg = fresh;
                "glwe_external_product"
            }
            POp::XpAssign => {
                e.sx
                    .call::<B, _>("glwe_external_product_assign", m.glwe_external_product_tmp_bytes(&lay, &lay, &gl), |sc| m.glwe_external_product_assign(&mut reg, &g, sc))?;
                "glwe_external_product_assign"
            }
            POp::TraceAssign => {
                e.sx.call::<B, _>("glwe_trace_assign", m.glwe_trace_tmp_bytes(&lay, &lay, &al), |sc| m.glwe_trace_assign(&mut reg, 1, &trk, sc))?;
                "glwe_trace_assign"
            }
        };
        e.obs.push(&format!("step{i}:{op:?}"), name, vz(reg.data()));
        e.glwe_dec(&reg, &sk, &format!("step{i}:decrypted"))?;
    }
    Ok(e.obs)
}

pub fn exec_prog(c: &ProgCase, seed: u64, rec: &mut Rec) {
    rec.distinct(fnv(format!("{:?}", c).as_bytes()));
    rec.sample(|| serde_json::to_value(c).unwrap());
    let mut per: Vec<Per> = vec![];
    for_backends!(prog_backend(c, seed, &mut per));
    rec.add(&format!("program_depth/{}", c.prog.len()), 1);
    compare(&per, "program", &serde_json::to_value(c).unwrap(), rec);
}

fn prog_shapes(tier: Tier) -> Vec<Shape> {
    let mut out = vec![];
    for n in tier.pick(vec![8], vec![8, 16]) {
        for (b_in, b_key) in [(12usize, 12usize), (10, 12)] {
            for rank in tier.pick(vec![1, 2], vec![1, 2, 3]) {
                for dsize in tier.pick(vec![1, 3], vec![1, 2, 3]) {
                    let a_size = 4usize;
                    let a_conv = if b_in == b_key { a_size } else { (a_size * b_in).div_ceil(b_key) };
                    let dnum = a_conv.div_ceil(dsize);
                    let min_size = (dnum * dsize).max(dsize + 1);
                    out.push(Shape {
                        n,
                        rank_in: rank,
                        rank_out: rank,
                        dsize,
                        a_size,
                        dnum,
                        dnum_rel: "equal".into(),
                        k_key: (a_conv * b_key + dsize * b_key + 1).max(min_size * b_key),
                        kprec: "above".into(),
                        b_in,
                        b_key,
                        b_out: b_in,
                        res_size: a_size,
                        res_rel: "equal".into(),
                        noise: NoiseCfg::Default,
                    });
                }
            }
        }
    }
    out
}

fn programs(max_depth: usize) -> Vec<Vec<POp>> {
    let mut out: Vec<Vec<POp>> = vec![];
    let mut level: Vec<Vec<POp>> = vec![vec![]];
    for _ in 0..max_depth {
        let mut next = vec![];
        for p in &level {
            for &o in POPS.iter() {
                let mut q = p.clone();
                q.push(o);
                next.push(q);
            }
        }
        out.extend(next.iter().cloned());
        level = next;
    }
    out
}

pub fn run(run: &mut Run) {
    run.assume("radices 10, 12, 17 (inside the magnitude domain of both families at N <= 16); secrets ternary (p = 1/2); noise = library default; equal seeds on every backend");
    run.assume("prepared / DFT-domain buffers are backend-specific representations and are compared only through what they compute");
    if !pvc_common::host_has_avx() {
        run.assume("host lacks AVX2/FMA: only FFT64Ref vs NTT120Ref is compared");
    }
    let seed = run.seed;
    let tier = run.tier;
    let cs = all_cases::<pvc_common::FFT64Ref>(tier).into_iter().map(|mut c| {
        c.backend = "all".into();
        c
    });
    run.family(
        "ks_pipelines/backend-pairs",
        "outer = (operation (38), shape grid as in the C12 part); each case is one program [key generation(s), preparation(s), input encryption, operation, decryption] run on all available backends; the backend pairs FFT64Ref~FFT64Avx, NTT120Ref~NTT120Avx, FFT64Ref~NTT120Ref are compared after every step; counters compared_steps/<n>",
        cs.collect(),
        |c, rec| exec_pipe(c, seed, rec),
    );
    let depth = tier.pick(3, 4);
    let mut cs = vec![];
    for shape in prog_shapes(tier) {
        for prog in programs(depth) {
            cs.push(ProgCase {
                shape: shape.clone(),
                prog,
            });
        }
    }
    run.family(
        "ks_programs/backend-pairs",
        "outer = (register shape: N, rank, dsize 1..3, radices equal / cross; EVERY program of depth 1..3 (thorough 1..4) over {keyswitch, keyswitch_assign, automorphism(5), automorphism_add_assign(3), automorphism_sub_negate(5), external_product(-X^3), external_product_assign, trace_assign(1)}); after every step the register and its decryption are compared on the three backend pairs",
        cs,
        |c, rec| exec_prog(c, seed, rec),
    );
    run.note("backend_pairs", json!(PAIRS.iter().map(|(a, b)| format!("{a}~{b}")).collect::<Vec<_>>()));
}

/// false if the descriptor does not belong to this part
pub fn replay(run: &mut Run, d: &Value) -> bool {
    let fam = d["family"].as_str().unwrap_or("").to_string();
    let seed = d["seed"].as_u64().unwrap_or(0);
    if fam.starts_with("ks_pipelines/") {
        let c: XCase = match serde_json::from_value(d["case"].clone()) {
            Ok(c) => c,
            Err(_) => return false,
        };
        run.single(&fam, "replay", |rec| exec_pipe(&c, seed, rec));
        true
    } else if fam.starts_with("ks_programs/") {
        let c: ProgCase = match serde_json::from_value(d["case"].clone()) {
            Ok(c) => c,
            Err(_) => return false,
        };
        run.single(&fam, "replay", |rec| exec_prog(&c, seed, rec));
        true
    } else {
        false
    }
}

//! C12 (key-switching / external-product part) - the declared scratch size always suffices and scratch contents never
//! matter.
//!
//! Every operation of xks.rs (38 operations + the key generation, key preparation, encryption and decryption routines
//! their pipelines call) receives a scratch window of EXACTLY the bytes its own companion `*_tmp_bytes` query returned,
//! carved with `scratch_from_bytes` out of a larger allocation whose surroundings are canary bytes, pre-filled with
//! zeros, 0x11 and the NaN/huge garbage.  Oracle: no panic (`scratch_too_small` if the message mentions the scratch,
//! else `panic`), canaries intact (`scratch_overrun`), every observable result byte-identical across the three fills
//! (`scratch_dependent_result`).  Second family: the documented idiom "allocate the MAX over the queries of the
//! operations you are going to call" - every call of the pipeline receives a window of exactly that maximum.

use crate::xks::*;
use poulpy_bin_fhe::bdd_arithmetic::{Cmux, Cswap};
use poulpy_core::ScratchTakeCore;
use poulpy_hal::layouts::{Module, Scratch};
use pvc_common::{Bk, CoreAll, HalAll, for_backends};
use pvc_engine::{Rec, Run, fnv};
use serde_json::{Value, json};

/// pre-fills in pvc_engine::rng::garbage numbering: zeros, 0x11, NaN/huge
const FILLS: [usize; 3] = [2, 3, 0];

fn fill_name(f: usize) -> &'static str {
    match f {
        2 => "zeros",
        3 => "0x11",
        _ => "nan_huge",
    }
}

fn shape_fields(c: &XCase) -> Value {
    let s = &c.shape;
    json!({"dsize": s.dsize, "dnum": s.dnum, "rank_in": s.rank_in, "rank_out": s.rank_out, "radix_equal": s.b_in == s.b_key && s.b_key == s.b_out,
        "res_rel": s.res_rel, "routine": c.op.name(), "n": s.n})
}

fn desc(op: &str, backend: &str, kind: &str, c: &XCase, inner: Value, extra: Value) -> Value {
    let mut d = json!({"op": op, "backend": backend, "kind": kind, "case": c, "inner": inner});
    for v in [shape_fields(c), extra] {
        if let (Value::Object(dm), Value::Object(em)) = (&mut d, v) {
            dm.extend(em);
        }
    }
    d
}

fn kind_of(msg: &str) -> &'static str {
    let l = msg.to_lowercase();
    if l.contains("scratch") || l.contains("tmp_bytes") { "scratch_too_small" } else { "panic" }
}

pub fn exec<B: Bk>(c: &XCase, seed: u64, rec: &mut Rec)
where
    Module<B>: HalAll<B> + CoreAll<B> + Cmux<B> + Cswap<B>,
    Scratch<B>: ScratchTakeCore<B>,
{
    rec.distinct(fnv(format!("{:?}", c).as_bytes()));
    rec.sample(|| serde_json::to_value(c).unwrap());
    let mut outs: Vec<(usize, Obs, Vec<Ev>)> = vec![];
    let mut lenient: Vec<String> = vec![];
    let mut reported: Vec<(String, String)> = vec![];
    let mut reported_overrun: Vec<String> = vec![];
    for fill in FILLS {
        let mut attempts = 0;
        loop {
            attempts += 1;
            let mut sx = Sx::new(Pol::Exact { fill });
            sx.lenient = lenient.clone();
            // result buffers always start from the same garbage: differences between the runs come from the scratch only
            let res = run_case::<B>(c, &mut sx, 0, seed);
            let events = std::mem::take(&mut sx.events);
            rec.evals(events.len().max(1) as u64);
            for e in &events {
                rec.add(&format!("calls/{}", e.op), 1);
                if e.bytes % 64 != 0 {
                    rec.add("windows_not_multiple_of_64", 1);
                }
            }
            for e in events.iter().filter(|e| !e.canaries_ok) {
                if !reported_overrun.contains(&e.op) {
                    reported_overrun.push(e.op.clone());
                    rec.fail(desc(&e.op, B::NAME, "scratch_overrun", c, json!({"fill": fill_name(fill)}), json!({"tmp_bytes": e.bytes, "tmp_bytes_multiple_of_64": e.bytes % 64 == 0})));
                }
            }
            match res {
                Ok(o) => {
                    outs.push((fill, o, events));
                    break;
                }
                Err(msg) => {
                    let stage = msg.split(':').next().unwrap_or("").to_string();
                    let kind = kind_of(&msg);
                    let ev = events.iter().rev().find(|e| e.op == stage);
                    if !reported.contains(&(stage.clone(), kind.to_string())) {
                        reported.push((stage.clone(), kind.to_string()));
                        rec.fail(desc(
                            &stage,
                            B::NAME,
                            kind,
                            c,
                            json!({"fill": fill_name(fill)}),
                            json!({"tmp_bytes": ev.map(|e| e.bytes), "tmp_bytes_multiple_of_64": ev.map(|e| e.bytes % 64 == 0), "panic": msg}),
                        ));
                    }
                    if ev.is_none() || lenient.contains(&stage) || attempts >= 8 {
                        return;
                    }
                    lenient.push(stage);
                }
            }
        }
    }
    let (f0, o0, ev0) = &outs[0];
    for (f1, o1, _) in outs.iter().skip(1) {
        if let Some((step, op)) = o0.first_difference(o1) {
            let tmp = ev0.iter().rev().find(|e| e.op == op).map(|e| e.bytes);
            rec.fail(desc(
                &op,
                B::NAME,
                "scratch_dependent_result",
                c,
                json!({"fill_a": fill_name(*f0), "fill_b": fill_name(*f1)}),
                json!({"differs": step, "tmp_bytes": tmp}),
            ));
            break;
        }
    }
    for n in &o0.operand_modified {
        rec.fail(desc(c.op.name(), B::NAME, "operand_modified", c, json!({"operand": n}), json!({"tmp_bytes": Value::Null})));
    }
    if let Some(s) = o0.steps.last() {
        rec.outcome(fnv(&s.bytes));
    }
}

/// the maximum over the pipeline's queries serves every call of the pipeline
pub fn exec_max<B: Bk>(c: &XCase, seed: u64, rec: &mut Rec)
where
    Module<B>: HalAll<B> + CoreAll<B> + Cmux<B> + Cswap<B>,
    Scratch<B>: ScratchTakeCore<B>,
{
    rec.distinct(fnv(format!("{:?}", c).as_bytes()));
    rec.sample(|| serde_json::to_value(c).unwrap());
    let mut sx = Sx::new(Pol::Slack { fill: 0 });
    let reference = match run_case::<B>(c, &mut sx, 0, seed) {
        Ok(o) => o,
        Err(_) => return, // reported by the exact-window family
    };
    let mx = sx.events.iter().map(|e| e.bytes).max().unwrap_or(0);
    let argmax = sx.events.iter().find(|e| e.bytes == mx).map(|e| e.op.clone()).unwrap_or_default();
    for fill in [0usize, 2] {
        let mut sy = Sx::new(Pol::ExactMax { fill, bytes: mx });
        let res = run_case::<B>(c, &mut sy, 0, seed);
        rec.evals(sy.events.len().max(1) as u64);
        let idiom = json!({"idiom": "max_over_queries", "tmp_bytes": mx, "largest_query": argmax});
        if let Some(e) = sy.events.iter().find(|e| !e.canaries_ok) {
            rec.fail(desc(&e.op, B::NAME, "scratch_overrun", c, json!({"fill": fill_name(fill)}), idiom.clone()));
        }
        match res {
            Err(msg) => {
                let stage = msg.split(':').next().unwrap_or("").to_string();
                let mut ex = idiom.clone();
                ex["panic"] = json!(msg);
                ex["own_query"] = json!(sx.events.iter().find(|e| e.op == stage).map(|e| e.bytes));
                rec.fail(desc(&stage, B::NAME, kind_of(&msg), c, json!({"fill": fill_name(fill)}), ex));
                return;
            }
            Ok(o) => {
                if let Some((step, op)) = reference.first_difference(&o) {
                    let mut ex = idiom.clone();
                    ex["differs"] = json!(step);
                    rec.fail(desc(&op, B::NAME, "scratch_dependent_result", c, json!({"fill": fill_name(fill)}), ex));
                    return;
                }
            }
        }
    }
}

fn fam<B: Bk>(run: &mut Run)
where
    Module<B>: HalAll<B> + CoreAll<B> + Cmux<B> + Cswap<B>,
    Scratch<B>: ScratchTakeCore<B>,
{
    let seed = run.seed;
    let cs = all_cases::<B>(run.tier);
    run.family(
        &format!("ks_exact_scratch/{}", B::NAME),
        "outer = (operation (38: glwe/gglwe/ggsw/lwe key switch incl. assign, 8 automorphism variants, ggsw / automorphism-key automorphism, trace, glwe_pack, packer add+flush, glwe_from_lwe, lwe_from_glwe index 0 and > 0, glwe/gglwe/ggsw external products, cmux x3, cswap, ggsw_from_gglwe, ggsw_expand_row), shape grid: N 8 (16), ranks 1..3 (in != out where admitted), dsize 1..4, input 2 / 5 limbs, result equal / shorter, radices (12,12,12) (10,12,8) (12,17,12) (17,10,12) (5,15,10) - input finer and coarser than the key, one key limb spanning three input limbs, LWE dimensions N and 5); inner = 3 pre-fills (zeros, 0x11, NaN/huge) of an exact-size window between canaries for EVERY scratch-taking call of the pipeline (key generation, key preparation, encryption, the operation, decryption); evaluations = exact-window library calls",
        cs,
        |c, rec| exec::<B>(c, seed, rec),
    );
    let cs = all_cases::<B>(run.tier);
    run.family(
        &format!("ks_max_of_queries/{}", B::NAME),
        "same outer cases; every call of the pipeline receives a window of exactly max(all companion queries of the pipeline) (the documented `a_tmp_bytes | b_tmp_bytes` / max idiom); oracle: no panic, canaries intact, results equal to the generous-scratch run",
        cs,
        |c, rec| exec_max::<B>(c, seed, rec),
    );
}

pub fn run(run: &mut Run) {
    run.assume("scratch = exactly the companion query of the call that receives it, evaluated on the layouts the call is made with (assign forms: query(res, res, key)); window start 64-byte aligned, length not rounded");
    run.assume("glwe_packer_flush has no query of its own: it receives the packer's query (glwe_packer_tmp_bytes), as the library's tests do; lwe_sample_extract and glwe_secret_prepare take no scratch");
    run.assume("result independence is judged on serialised keys / ciphertexts and decrypted plaintexts; prepared keys expose no accessor and are observed through the operation that uses them");
    for_backends!(fam(run));
}

/// false if the descriptor does not belong to this part
pub fn replay(run: &mut Run, d: &Value) -> bool {
    let fam = d["family"].as_str().unwrap_or("").to_string();
    let exact = fam.starts_with("ks_exact_scratch/");
    if !exact && !fam.starts_with("ks_max_of_queries/") {
        return false;
    }
    let c: XCase = match serde_json::from_value(d["case"].clone()) {
        Ok(c) => c,
        Err(_) => return false,
    };
    let seed = d["seed"].as_u64().unwrap_or(0);
    macro_rules! go {
        ($B:ty) => {
            run.single(&fam, "replay", |rec| if exact { exec::<$B>(&c, seed, rec) } else { exec_max::<$B>(&c, seed, rec) })
        };
    }
    match c.backend.as_str() {
        "fft64-ref" => go!(pvc_common::FFT64Ref),
        "ntt120-ref" => go!(pvc_common::NTT120Ref),
        "fft64-avx" => go!(pvc_common::FFT64Avx),
        "ntt120-avx" => go!(pvc_common::NTT120Avx),
        _ => return false,
    }
    true
}

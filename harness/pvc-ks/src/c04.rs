//! C04 - external products and CMux multiply by the GGSW plaintext within noise; every cell of a GGSW produced by
//! row expansion / key switch / automorphism encrypts m2 * gadget(row) * (1 | s_col).
//!
//! Oracle: exact phase (R3) of the result minus the exact negacyclic product m2 * phase(input) (R2, big integers),
//! bounded by the R9 worst-case bound of the vector-matrix gadget product.  Every call is executed twice: from
//! zero-filled scratch (this run carries the C04 verdict) and from garbage-filled scratch (NaN / huge pattern); a
//! ciphertext that differs between the two runs is reported under the separate kind `scratch_dependent_result`
//! (property C12 class) and never masks or replaces the C04 verdict.

use crate::c03::{Shape, auto_big, check_key_rows, pick_kp};
use crate::c03b::SETUP_HOT;
use crate::kit::*;
use poulpy_bin_fhe::bdd_arithmetic::{Cmux, Cswap};
use poulpy_core::layouts::{
    GGLWE, GGLWELayout, GGLWEToGGSWKey, GGLWEToGGSWKeyLayout, GGLWEToGGSWKeyPreparedFactory, GGSW, GGSWLayout,
    GGSWPrepared, GGSWPreparedFactory, GLWE, GLWEAutomorphismKey, GLWEAutomorphismKeyLayout, GLWEAutomorphismKeyPreparedFactory,
    GLWELayout, GLWESwitchingKey, GLWESwitchingKeyLayout, GLWESwitchingKeyPreparedFactory,
};
use poulpy_core::{
    GGLWEEncryptSk, GGLWEExternalProduct, GGLWEToGGSWKeyEncryptSk, GGSWAutomorphism, GGSWEncryptSk, GGSWExpandRows, GGSWExternalProduct,
    GGSWFromGGLWE, GGSWKeyswitch, GLWEAutomorphismKeyEncryptSk, GLWEEncryptSk, GLWEExternalProduct, GLWESwitchingKeyEncryptSk,
    ScratchTakeCore,
};
use poulpy_hal::layouts::{DataView, DataViewMut, DeviceBuf, Module, ScalarZnx, Scratch, ZnxViewMut};
use poulpy_hal::source::Source;
use pvc_common::phase::Dist;
use pvc_common::{Bk, CoreAll, FFT64Avx, FFT64Ref, HalAll, NTT120Avx, NTT120Ref, for_backends};
use pvc_engine::rng::{Rng, garbage};
use pvc_engine::{Rec, Run, Tier, fnv, guarded};
use pvc_model::IBig;
use pvc_model::ring;
use serde::{Deserialize, Serialize};
use serde_json::{Value, json};

// ---------------------------------------------------------------------------------------------
// GGSW plaintexts
// ---------------------------------------------------------------------------------------------

#[derive(Clone, Copy, Debug, PartialEq, Eq, Serialize, Deserialize)]
pub enum M2 {
    Zero,
    One,
    MinusOne,
    /// X^k, k in [0, 2N)  (X^N = -1)
    XPow(usize),
    /// dense polynomial with coefficients in {-1,0,1}: base-3 digits of the index (digit 2 = -1)
    Dense(u32),
}

pub fn m2_poly(m: M2, n: usize) -> Vec<i64> {
    let mut v = vec![0i64; n];
    match m {
        M2::Zero => {}
        M2::One => v[0] = 1,
        M2::MinusOne => v[0] = -1,
        M2::XPow(k) => {
            let one = {
                let mut o = vec![0i64; n];
                o[0] = 1;
                o
            };
            v = ring::mul_xk(&one, k as i64);
        }
        M2::Dense(mut idx) => {
            for x in v.iter_mut() {
                *x = match idx % 3 {
                    0 => 0,
                    1 => 1,
                    _ => -1,
                };
                idx /= 3;
            }
        }
    }
    v
}

/// index of a dense ternary polynomial without zero coefficient, seeded
fn dense_full(n: usize, k: u64) -> M2 {
    let mut rng = Rng::new(0xD3, k);
    let mut idx: u32 = 0;
    for i in 0..n.min(20) {
        idx += (1 + (rng.next() % 2) as u32) * 3u32.pow(i as u32);
    }
    M2::Dense(idx)
}

fn l1(v: &[i64]) -> u128 {
    v.iter().map(|x| x.unsigned_abs() as u128).sum()
}

/// exact m2 * p in Z[X]/(X^n+1)
fn mul_m2(p: &[IBig], m2: &[i64]) -> Vec<IBig> {
    mul_small(p, m2)
}

fn mul_msg(m1: &[i64], m2: &[i64], kp: usize) -> Vec<i64> {
    let a: Vec<i128> = m1.iter().map(|&x| x as i128).collect();
    let b: Vec<i128> = m2.iter().map(|&x| x as i128).collect();
    ring::negacyclic_mul_i128(&a, &b).iter().map(|&x| wrap(x.rem_euclid(1i128 << kp) as i64, kp)).collect()
}

// ---------------------------------------------------------------------------------------------
// shapes of the GGSW gadget
// ---------------------------------------------------------------------------------------------

/// `Shape` is reused: rank_in = rank_out = rank, k_key/b_key/dsize/dnum describe the GGSW.
fn xp_shapes(tier: Tier, ns: &[usize], inplace: bool, reduced: bool) -> Vec<Shape> {
    let mut out = vec![];
    let triples: Vec<(usize, usize, usize)> = if tier.is_thorough() {
        vec![(12, 12, 12), (8, 8, 8), (17, 17, 17), (12, 17, 12), (17, 12, 17), (10, 12, 8), (17, 10, 12), (8, 17, 12), (5, 15, 10), (15, 5, 10)]
    } else {
        vec![(12, 12, 12), (12, 17, 12), (10, 12, 8)]
    };
    let noises: Vec<NoiseCfg> = tier.pick(vec![NoiseCfg::Default], vec![NoiseCfg::Default, NoiseCfg::Tight]);
    for &n in ns {
        for &(b_in, b_key, b_out) in &triples {
            if inplace && b_in != b_out {
                continue;
            }
            for rank in 1..=3usize {
                for dsize in 1..=4usize {
                    for a_size in 1..=6usize {
                        if reduced && !(a_size == 2 || a_size == 5) {
                            continue;
                        }
                        let a_conv = if b_in == b_key { a_size } else { (a_size * b_in).div_ceil(b_key) };
                        let needed = a_conv.div_ceil(dsize);
                        // dnum 1..max: every value from 1 to needed+1
                        for dnum in 1..=needed + 1 {
                            if reduced && dnum != needed && dnum != 1 {
                                continue;
                            }
                            let rel = if dnum < needed {
                                "less"
                            } else if dnum == needed {
                                "equal"
                            } else {
                                "more"
                            };
                            let min_size = (dnum * dsize).max(dsize + 1);
                            let k_min = min_size * b_key;
                            let k_ct = a_conv * b_key;
                            let mut seen: Vec<usize> = vec![];
                            for k in [k_min, (k_ct + dsize * b_key + 1).max(k_min)] {
                                if seen.contains(&k) {
                                    continue;
                                }
                                seen.push(k);
                                let kprec = if k < k_ct {
                                    "below"
                                } else if k == k_ct {
                                    "equal"
                                } else {
                                    "above"
                                };
                                let k_in = a_size * b_in;
                                let eq = k_in.div_ceil(b_out);
                                let rv: Vec<(usize, &str)> = if inplace {
                                    vec![(a_size, "equal")]
                                } else {
                                    let mut r = vec![(eq, "equal"), (k.max(k_in).div_ceil(b_out) + 1, "longer")];
                                    if eq > 1 {
                                        r.insert(0, (eq - 1, "shorter"));
                                    }
                                    r
                                };
                                for (res_size, res_rel) in rv {
                                    if reduced && res_rel == "shorter" {
                                        continue;
                                    }
                                    for &noise in &noises {
                                        out.push(Shape {
                                            n,
                                            rank_in: rank,
                                            rank_out: rank,
                                            dsize,
                                            a_size,
                                            dnum,
                                            dnum_rel: rel.into(),
                                            k_key: k,
                                            kprec: kprec.into(),
                                            b_in,
                                            b_key,
                                            b_out,
                                            res_size,
                                            res_rel: res_rel.into(),
                                            noise,
                                        });
                                    }
                                }
                            }
                        }
                    }
                }
            }
        }
    }
    out.sort_by_key(|s| (s.n, s.rank_in, s.dsize, s.a_size, s.dnum, s.b_in != s.b_key || s.b_key != s.b_out));
    out
}

/// worst-case |phase(a x GGSW(m2)) - m2 * phase(a)|; `digit_factor` = 2 when the decomposed operand is an
/// un-normalised difference of two normalised ciphertexts (CMux family: digits up to 2^b)
fn xp_bound(s: &Shape, e2: u128, m2_l1: u128, digit_factor: u64) -> Bnd {
    let g = Gadget {
        n: s.n,
        cols_in: s.rank_in + 1,
        a_size: s.a_conv_size(),
        b_key: s.b_key,
        dsize: s.dsize,
        dnum: s.dnum,
        key_size: s.key_size(),
        k_noise: s.k_key,
        e2,
        // column 0 carries m2, column j carries m2 * s_j (l1 <= |m2|_1 * n)
        pt_l1: m2_l1 * s.n as u128,
    };
    let mut b = g.bound().times(digit_factor);
    b.plus(&ulp_phase(s.n, s.rank_out, s.res_size, s.b_out, "result_rounding"));
    b
}

fn ggsw_layout(s: &Shape) -> GGSWLayout {
    GGSWLayout {
        n: (s.n as u32).into(),
        base2k: (s.b_key as u32).into(),
        k: (s.k_key as u32).into(),
        rank: (s.rank_in as u32).into(),
        dnum: (s.dnum as u32).into(),
        dsize: (s.dsize as u32).into(),
    }
}

fn glwe_layout(n: usize, b: usize, k: usize, rank: usize) -> GLWELayout {
    GLWELayout {
        n: (n as u32).into(),
        base2k: (b as u32).into(),
        k: (k as u32).into(),
        rank: (rank as u32).into(),
    }
}

/// every cell (row, col) of a GGSW decrypts to m2 * 2^-((row+1) dsize b) * (1 | s_{col-1}) within the hard noise
/// bound.  (The factor of column col >= 1 is +s_{col-1}: with phase = body + sum mask_i s_i, the external product
/// sum_j digits(c_j) * row_j then has phase m2 * (c_0 + sum_j c_j s_j).)
fn check_ggsw_cells(g: &GGSW<Vec<u8>>, m2: &[i64], sk: &[Vec<i64>], s: &Shape, slack: &Bnd) -> Result<(), Value> {
    let b = s.b_key;
    let mut cache: Vec<Vec<i64>> = vec![m2.to_vec()];
    for sj in sk {
        let a: Vec<i128> = m2.iter().map(|&x| x as i128).collect();
        let bb: Vec<i128> = sj.iter().map(|&x| x as i128).collect();
        cache.push(ring::negacyclic_mul_i128(&a, &bb).iter().map(|&x| x as i64).collect());
    }
    for row in 0..s.dnum {
        let gexp = (row + 1) * s.dsize * b;
        for col in 0..=s.rank_in {
            let (ph, bits) = glwe_phase(&g.at(row, col), sk);
            let tot = bits.max(gexp);
            let limit = slack.at(tot);
            for i in 0..s.n {
                let (d, dbits) = terr(&ph[i], bits, &IBig::from(cache[col][i]), gexp);
                let d = ibig_abs(&d) << (tot - dbits);
                if d > limit {
                    return Err(json!({"row": row, "col": col, "index": i, "err_log2": log2_of(&d, tot), "limit_log2": log2_of(&limit, tot)}));
                }
            }
        }
    }
    Ok(())
}

fn noise_only(e2: u128, k: usize) -> Bnd {
    let mut b = Bnd::zero();
    b.add_u(e2, k + 1, "encryption_noise");
    b
}

/// library GGSW encryption of m2 + prepared form
#[allow(clippy::type_complexity)]
fn make_ggsw<B: Bk>(
    m: &Module<B>,
    s: &Shape,
    m2: &[i64],
    sk: &GSk<B>,
    scr: &mut Scr,
    tag: u64,
) -> Result<(GGSW<Vec<u8>>, GGSWPrepared<DeviceBuf<B>, B>), (String, Value)>
where
    Module<B>: HalAll<B> + CoreAll<B>,
    Scratch<B>: ScratchTakeCore<B>,
{
    let lay = ggsw_layout(s);
    let noise = noise_infos(s.noise, s.k_key);
    let mut g = GGSW::alloc_from_infos(&lay);
    let mut pt = ScalarZnx::alloc(s.n, 1);
    pt.at_mut(0, 0).copy_from_slice(m2);
    let mut xe = Source::new(seed32(tag, 11));
    let mut xa = Source::new(seed32(tag, 12));
    scr.fill_prefix(0, SETUP_HOT);
    guarded(|| m.ggsw_encrypt_sk(&mut g, &pt, &sk.prep, &noise, &mut xe, &mut xa, scr.get::<B>()))
        .map_err(|p| ("panic".to_string(), json!({"stage": "ggsw_encrypt", "panic": p})))?;
    check_ggsw_cells(&g, m2, &sk.clear, s, &noise_only(noise_e2(&noise), s.k_key)).map_err(|e| ("ggsw_noise_too_large".to_string(), e))?;
    let mut prep = m.ggsw_prepared_alloc_from_infos(&lay);
    scr.fill_prefix(0, SETUP_HOT);
    guarded(|| m.ggsw_prepare(&mut prep, &g, scr.get::<B>())).map_err(|p| ("panic".to_string(), json!({"stage": "ggsw_prepare", "panic": p})))?;
    Ok((g, prep))
}

fn shape_fields(s: &Shape) -> Value {
    json!({"dsize": s.dsize, "dnum": s.dnum, "dnum_rel": s.dnum_rel, "kprec": s.kprec, "res_rel": s.res_rel, "a_mod_dsize": s.a_mod_dsize(),
        "rank": s.rank_in, "radix_equal": s.b_in == s.b_key && s.b_key == s.b_out, "noise": s.noise})
}

fn mk_desc<C: Serialize>(op: &str, backend: &str, kind: &str, case: &C, s: &Shape, inner: Value, extra: Value) -> Value {
    let mut d = json!({"op": op, "backend": backend, "kind": kind, "case": case, "inner": inner});
    if let (Value::Object(dm), Value::Object(sm)) = (&mut d, shape_fields(s)) {
        dm.extend(sm);
    }
    if let (Value::Object(dm), Value::Object(em)) = (&mut d, extra) {
        dm.extend(em);
    }
    d
}

fn worst_err(got: &[IBig], gbits: usize, want: &[IBig], wbits: usize) -> (IBig, usize, usize) {
    let tot = gbits.max(wbits);
    let mut worst = IBig::from(0);
    let mut wi = 0;
    for i in 0..got.len() {
        let (d, _) = terr(&got[i], gbits, &want[i], wbits);
        let d = ibig_abs(&d);
        if d > worst {
            worst = d;
            wi = i;
        }
    }
    (worst, wi, tot)
}

/// Runs `call(fill)` from zero-filled (2) and garbage-filled (0 or 1) scratch/result buffers, applies `verdict` to the
/// zero run (C04 verdict) and compares the raw result bytes of both runs (`bytes`), reporting through `emit`.
fn two_runs<T>(
    garbage_fill: usize,
    mut call: impl FnMut(usize) -> Result<T, String>,
    verdict: impl Fn(&T) -> Result<(), (String, Value)>,
    bytes: impl Fn(&T) -> Vec<u8>,
    mut emit: impl FnMut(&str, Value),
) -> Option<T> {
    let z = call(2);
    let g = call(garbage_fill);
    let mut out = None;
    match &z {
        Ok(r) => {
            if let Err((kind, mut extra)) = verdict(r) {
                if let Value::Object(m) = &mut extra {
                    m.insert("scratch_fill".into(), json!("zeros"));
                }
                emit(&kind, extra);
            }
        }
        Err(p) => emit("panic", json!({"panic": p, "scratch_fill": "zeros"})),
    }
    match (&z, &g) {
        (Ok(rz), Ok(rg)) => {
            if bytes(rz) != bytes(rg) {
                let garbage_holds = verdict(rg).is_ok();
                emit(
                    "scratch_dependent_result",
                    json!({"scratch_fill": garbage_fill, "symptom": "ciphertext differs from the zero-filled-scratch run", "garbage_run_within_bound": garbage_holds}),
                );
            }
        }
        (Ok(_), Err(p)) => emit(
            "scratch_dependent_result",
            json!({"scratch_fill": garbage_fill, "symptom": "panic only with garbage-filled scratch", "panic": p}),
        ),
        _ => {}
    }
    if let Ok(r) = z {
        out = Some(r);
    }
    out
}

// ---------------------------------------------------------------------------------------------
// family: GLWE x GGSW
// ---------------------------------------------------------------------------------------------

#[derive(Clone, Debug, Serialize, Deserialize)]
pub struct XpCase {
    pub op: String, // glwe_external_product | glwe_external_product_assign
    pub backend: String,
    pub shape: Shape,
    pub m2s: Vec<M2>,
}

#[derive(Clone, Copy, Debug, PartialEq, Serialize, Deserialize)]
pub enum Input {
    Enc(Msg),
    Raw(Raw),
}

fn xp_inputs(tier: Tier) -> Vec<Input> {
    if tier.is_thorough() {
        let mut v: Vec<Input> = vec![Msg::Ramp, Msg::MaxPos, Msg::MinNeg, Msg::Alt, Msg::Random(0)].into_iter().map(Input::Enc).collect();
        v.extend([Raw::MaxPos, Raw::MinNeg, Raw::Alt, Raw::LastLimb, Raw::Random(0)].into_iter().map(Input::Raw));
        v
    } else {
        vec![Input::Enc(Msg::Ramp), Input::Enc(Msg::MinNeg), Input::Raw(Raw::MinNeg), Input::Raw(Raw::Alt)]
    }
}

pub fn exec_xp<B: Bk>(c: &XpCase, only: Option<(M2, Input)>, seed: u64, tier: Tier, rec: &mut Rec)
where
    Module<B>: HalAll<B> + CoreAll<B>,
    Scratch<B>: ScratchTakeCore<B>,
{
    let s = &c.shape;
    let n = s.n;
    let rank = s.rank_in;
    let assign = c.op.ends_with("_assign");
    let m = B::module(n);
    let tag = fnv(format!("{:?}{:?}{}", c.op, c.shape, c.backend).as_bytes()) ^ seed;
    rec.distinct(tag);
    rec.sample(|| serde_json::to_value(c).unwrap());
    let mut scr = Scr::new(2 * MIB, 0);
    let sk = glwe_sk::<B>(&m, n, rank, Dist::TernaryProb, seed32(tag, 1));
    let e2 = noise_e2(&noise_infos(s.noise, s.k_key));
    let a_lay = glwe_layout(n, s.b_in, s.k_in(), rank);
    let r_lay = glwe_layout(n, s.b_out, s.k_out(), rank);
    let hot = m.glwe_external_product_tmp_bytes(&r_lay, &a_lay, &ggsw_layout(s)) + HOT_SLACK;
    let noise_in = noise_infos(s.noise, s.k_in());

    for m2c in &c.m2s {
        if let Some((o, _)) = &only {
            if o != m2c {
                continue;
            }
        }
        let m2 = m2_poly(*m2c, n);
        let m2_l1 = l1(&m2);
        let mtag = tag ^ fnv(format!("{m2c:?}").as_bytes());
        let (_, prep) = match make_ggsw::<B>(&m, s, &m2, &sk, &mut scr, mtag) {
            Ok(x) => x,
            Err((kind, e)) => {
                rec.fail(mk_desc(&c.op, B::NAME, &kind, c, s, json!({"m2": m2c}), e));
                continue;
            }
        };
        let bound = xp_bound(s, e2, m2_l1, 1);
        let mut total = bound.clone();
        total.add_u(noise_e2(&noise_in) * m2_l1.max(1), s.k_in() + 1, "input_noise_times_m2");
        let kp = pick_kp(&total, 8.min(s.b_in));
        rec.add(if kp.is_some() { "cases_with_rounded_plaintext_check" } else { "cases_bound_only" }, 1);

        for inp in xp_inputs(tier) {
            if let Some((_, o)) = &only {
                if *o != inp {
                    continue;
                }
            }
            let inner = json!({"m2": m2c, "input": inp});
            let ih = fnv(format!("{inp:?}").as_bytes());
            let mut ct_in = glwe_zeroed(n, s.b_in, s.k_in(), rank);
            let mut msg: Option<Vec<i64>> = None;
            match inp {
                Input::Enc(mc) => {
                    let kpp = kp.unwrap_or(1);
                    let mv = message(mc, n, kpp, seed ^ ih);
                    let pt = plaintext(n, s.b_in, s.k_in(), &mv, kpp);
                    let mut xe = Source::new(seed32(mtag ^ ih, 5));
                    let mut xa = Source::new(seed32(mtag ^ ih, 6));
                    scr.fill_prefix(0, SETUP_HOT);
                    if let Err(p) = guarded(|| m.glwe_encrypt_sk(&mut ct_in, &pt, &sk.prep, &noise_in, &mut xe, &mut xa, scr.get::<B>())) {
                        rec.fail(mk_desc(&c.op, B::NAME, "panic", c, s, inner, json!({"stage": "input_encrypt", "panic": p})));
                        continue;
                    }
                    if kp.is_some() {
                        msg = Some(mv);
                    }
                }
                Input::Raw(rc) => fill_raw(ct_in.data_mut(), s.b_in, rc, seed ^ ih),
            }
            let (p_in, bits_in) = glwe_phase(&ct_in, &sk.clear);
            let want = mul_m2(&p_in, &m2);
            let call = |fill: usize| -> Result<GLWE<Vec<u8>>, String> {
                let mut res = if assign { glwe_clone(&ct_in) } else { garbage_glwe(n, s.b_out, s.k_out(), rank, fill % 2) };
                scr.fill_prefix(fill, hot);
                guarded(|| {
                    if assign {
                        m.glwe_external_product_assign(&mut res, &prep, scr.get::<B>())
                    } else {
                        m.glwe_external_product(&mut res, &ct_in, &prep, scr.get::<B>())
                    }
                })?;
                Ok(res)
            };
            let verdict = |res: &GLWE<Vec<u8>>| -> Result<(), (String, Value)> {
                let (p_out, bits_out) = glwe_phase(res, &sk.clear);
                let (worst, wi, tot) = worst_err(&p_out, bits_out, &want, bits_in);
                let limit = bound.at(tot);
                if worst > limit {
                    return Err((
                        "noise_too_large".into(),
                        json!({"index": wi, "err_log2": log2_of(&worst, tot), "bound_log2": log2_of(&limit, tot), "bound_terms": bound.describe()}),
                    ));
                }
                if let (Some(mv), Some(kpp)) = (&msg, kp) {
                    let want_m = mul_msg(mv, &m2, kpp);
                    let got_m: Vec<i64> = p_out.iter().map(|x| round_to(x, bits_out, kpp)).collect();
                    if got_m != want_m {
                        return Err(("wrong_plaintext".into(), json!({"kp": kpp, "got": got_m, "want": want_m})));
                    }
                }
                Ok(())
            };
            rec.evals(2);
            let r = two_runs(
                (ih % 2) as usize,
                call,
                verdict,
                |r: &GLWE<Vec<u8>>| r.data().data.clone(),
                |kind, extra| rec.fail(mk_desc(&c.op, B::NAME, kind, c, s, inner.clone(), extra)),
            );
            if let Some(r) = r {
                rec.outcome(hash_vec(r.data()));
                let (p_out, bits_out) = glwe_phase(&r, &sk.clear);
                let (worst, _, tot) = worst_err(&p_out, bits_out, &want, bits_in);
                let slack = (log2_of(&bound.at(tot), tot) - log2_of(&worst, tot)).floor().clamp(0.0, 16.0) as u64;
                rec.add(&format!("slack_bits_{slack:02}"), 1);
            }
        }
    }
}

fn m2_small(n: usize) -> Vec<M2> {
    vec![M2::XPow(1), M2::XPow(n + 3), dense_full(n, 0)]
}

fn m2_full(tier: Tier, n: usize) -> Vec<M2> {
    let mut v = vec![M2::Zero, M2::One, M2::MinusOne];
    v.extend((0..2 * n).map(M2::XPow));
    if n == 8 && tier.is_thorough() {
        // every polynomial with coefficients in {-1,0,1}
        v.extend((0..3u32.pow(8)).map(M2::Dense));
    } else {
        v.extend((0..tier.pick(8, 64)).map(|k| dense_full(n, k)));
        v.extend((0..tier.pick(8, 64)).map(|k| M2::Dense((Rng::new(0xD4, k).next() % 3u64.pow(n.min(20) as u32)) as u32)));
    }
    v
}

fn xp_cases<B: Bk>(tier: Tier) -> Vec<XpCase> {
    let mut out = vec![];
    let ns: Vec<usize> = tier.pick(vec![8], vec![8, 16]);
    for op in ["glwe_external_product", "glwe_external_product_assign"] {
        for shape in xp_shapes(tier, &ns, op.ends_with("_assign"), false) {
            let m2s = m2_small(shape.n);
            out.push(XpCase {
                op: op.into(),
                backend: B::NAME.into(),
                shape,
                m2s,
            });
        }
    }
    out
}

/// the complete m2 alphabet on a few shapes (split into chunks so that the work is spread over the cores)
fn xp_m2_cases<B: Bk>(tier: Tier) -> Vec<XpCase> {
    let mut out = vec![];
    for n in [8usize, 16] {
        let shapes: Vec<Shape> = xp_shapes(tier, &[n], false, true)
            .into_iter()
            .filter(|s| s.kprec == "above" && s.dnum_rel == "equal" && s.res_rel == "equal" && s.a_size == 5 && s.noise == NoiseCfg::Default)
            .filter(|s| (s.b_in, s.b_key, s.b_out) == (12, 12, 12) || (s.b_in, s.b_key, s.b_out) == (10, 12, 8))
            .filter(|s| tier.is_thorough() || s.rank_in + s.dsize <= 4)
            .collect();
        let all = m2_full(tier, n);
        for (si, shape) in shapes.iter().enumerate() {
            // the 3^8 dense enumeration only on two shapes
            let m2s: Vec<M2> = if all.len() > 1000 && si % 12 != 0 { all.iter().copied().take(3 + 2 * n + 64).collect() } else { all.clone() };
            for chunk in m2s.chunks(32) {
                out.push(XpCase {
                    op: "glwe_external_product".into(),
                    backend: B::NAME.into(),
                    shape: shape.clone(),
                    m2s: chunk.to_vec(),
                });
            }
        }
    }
    out
}

// ---------------------------------------------------------------------------------------------
// family: GGLWE x GGSW, GGSW x GGSW (every cell)
// ---------------------------------------------------------------------------------------------

#[derive(Clone, Debug, Serialize, Deserialize)]
pub struct MatXpCase {
    pub op: String, // gglwe_external_product[_assign] | ggsw_external_product[_assign]
    pub backend: String,
    pub shape: Shape,
    pub m2: M2,
    /// gadget of the left operand / result
    pub a_dnum: usize,
    pub a_dsize: usize,
    pub a_rank_in: usize,
    pub res_dnum: usize,
}

/// uniform view over GGLWE / GGSW operands
enum Mat {
    Gglwe(GGLWE<Vec<u8>>),
    Ggsw(GGSW<Vec<u8>>),
}

impl Mat {
    fn at(&self, r: usize, c: usize) -> GLWE<&[u8]> {
        match self {
            Mat::Gglwe(g) => g.at(r, c),
            Mat::Ggsw(g) => g.at(r, c),
        }
    }
    fn bytes(&self) -> Vec<u8> {
        match self {
            Mat::Gglwe(g) => DataView::data(g.data()).clone(),
            Mat::Ggsw(g) => ggsw_bytes(g),
        }
    }
    fn fill_garbage(&mut self, which: usize) {
        match self {
            Mat::Gglwe(g) => garbage(DataViewMut::data_mut(g.data_mut()).as_mut_slice(), which),
            Mat::Ggsw(g) => ggsw_garbage(g, which),
        }
    }
    fn copy_from(&mut self, o: &Mat) {
        match (self, o) {
            (Mat::Gglwe(g), Mat::Gglwe(a)) => DataViewMut::data_mut(g.data_mut()).copy_from_slice(DataView::data(a.data())),
            (Mat::Ggsw(g), Mat::Ggsw(a)) => ggsw_copy(g, a),
            _ => unreachable!(),
        }
    }
}

pub fn exec_matxp<B: Bk>(c: &MatXpCase, seed: u64, rec: &mut Rec)
where
    Module<B>: HalAll<B> + CoreAll<B>,
    Scratch<B>: ScratchTakeCore<B>,
{
    let s = &c.shape;
    let n = s.n;
    let rank = s.rank_in;
    let assign = c.op.ends_with("_assign");
    let is_ggsw = c.op.starts_with("ggsw");
    let m = B::module(n);
    let tag = fnv(format!("{:?}", c).as_bytes()) ^ seed;
    rec.distinct(tag);
    rec.sample(|| serde_json::to_value(c).unwrap());
    let mut scr = Scr::new(2 * MIB, 0);
    let sk = glwe_sk::<B>(&m, n, rank, Dist::TernaryProb, seed32(tag, 1));
    let e2 = noise_e2(&noise_infos(s.noise, s.k_key));
    let m2 = m2_poly(c.m2, n);
    let fail = |rec: &mut Rec, kind: &str, inner: Value, extra: Value| rec.fail(mk_desc(&c.op, B::NAME, kind, c, s, inner, extra));
    let (_, prep) = match make_ggsw::<B>(&m, s, &m2, &sk, &mut scr, tag) {
        Ok(x) => x,
        Err((kind, e)) => {
            fail(rec, &kind, json!({}), e);
            return;
        }
    };
    // left operand: library encryption of small polynomials with its own gadget
    let k_a = s.a_size * s.b_in;
    let k_r = s.res_size * s.b_in;
    let cols = if is_ggsw { rank + 1 } else { c.a_rank_in };
    let mut rng = Rng::new(tag, 9);
    let mut xe = Source::new(seed32(tag, 13));
    let mut xa = Source::new(seed32(tag, 14));
    let ni = noise_infos(s.noise, k_a);
    let a_gglwe = GGLWELayout {
        n: (n as u32).into(),
        base2k: (s.b_in as u32).into(),
        k: (k_a as u32).into(),
        rank_in: (c.a_rank_in as u32).into(),
        rank_out: (rank as u32).into(),
        dnum: (c.a_dnum as u32).into(),
        dsize: (c.a_dsize as u32).into(),
    };
    let r_gglwe = GGLWELayout {
        k: (k_r as u32).into(),
        dnum: (c.res_dnum as u32).into(),
        ..a_gglwe
    };
    let a_ggsw = GGSWLayout {
        n: (n as u32).into(),
        base2k: (s.b_in as u32).into(),
        k: (k_a as u32).into(),
        rank: (rank as u32).into(),
        dnum: (c.a_dnum as u32).into(),
        dsize: (c.a_dsize as u32).into(),
    };
    let r_ggsw = GGSWLayout {
        k: (k_r as u32).into(),
        dnum: (c.res_dnum as u32).into(),
        ..a_ggsw
    };
    let a: Mat = if is_ggsw {
        let mut g = GGSW::alloc_from_infos(&a_ggsw);
        let mut pt = ScalarZnx::alloc(n, 1);
        for x in pt.at_mut(0, 0).iter_mut() {
            *x = rng.range_i64(-1, 1);
        }
        scr.fill_prefix(0, SETUP_HOT);
        if let Err(p) = guarded(|| m.ggsw_encrypt_sk(&mut g, &pt, &sk.prep, &ni, &mut xe, &mut xa, scr.get::<B>())) {
            fail(rec, "panic", json!({"stage": "input_encrypt"}), json!({"panic": p}));
            return;
        }
        Mat::Ggsw(g)
    } else {
        let mut g = GGLWE::alloc_from_infos(&a_gglwe);
        let mut pt = ScalarZnx::alloc(n, c.a_rank_in);
        for col in 0..c.a_rank_in {
            for x in pt.at_mut(col, 0).iter_mut() {
                *x = rng.range_i64(-1, 1);
            }
        }
        scr.fill_prefix(0, SETUP_HOT);
        if let Err(p) = guarded(|| m.gglwe_encrypt_sk(&mut g, &pt, &sk.prep, &ni, &mut xe, &mut xa, scr.get::<B>())) {
            fail(rec, "panic", json!({"stage": "input_encrypt"}), json!({"panic": p}));
            return;
        }
        Mat::Gglwe(g)
    };
    let hot = m.glwe_external_product_tmp_bytes(&glwe_layout(n, s.b_in, k_r, rank), &glwe_layout(n, s.b_in, k_a, rank), &ggsw_layout(s)) + HOT_SLACK;
    let bound = {
        let mut sb = s.clone();
        sb.b_out = s.b_in;
        xp_bound(&sb, e2, l1(&m2), 1)
    };
    let call = |fill: usize| -> Result<Mat, String> {
        let mut res: Mat = match (&a, assign) {
            (Mat::Ggsw(_), false) => Mat::Ggsw(GGSW::alloc_from_infos(&r_ggsw)),
            (Mat::Ggsw(_), true) => Mat::Ggsw(GGSW::alloc_from_infos(&a_ggsw)),
            (Mat::Gglwe(_), false) => Mat::Gglwe(GGLWE::alloc_from_infos(&r_gglwe)),
            (Mat::Gglwe(_), true) => Mat::Gglwe(GGLWE::alloc_from_infos(&a_gglwe)),
        };
        if assign {
            res.copy_from(&a);
        } else {
            res.fill_garbage(fill % 2);
        }
        scr.fill_prefix(fill, hot);
        guarded(|| match (&mut res, &a) {
            (Mat::Ggsw(r), Mat::Ggsw(aa)) => {
                if assign {
                    m.ggsw_external_product_assign(r, &prep, scr.get::<B>())
                } else {
                    m.ggsw_external_product(r, aa, &prep, scr.get::<B>())
                }
            }
            (Mat::Gglwe(r), Mat::Gglwe(aa)) => {
                if assign {
                    m.gglwe_external_product_assign(r, &prep, scr.get::<B>())
                } else {
                    m.gglwe_external_product(r, aa, &prep, scr.get::<B>())
                }
            }
            _ => unreachable!(),
        })?;
        Ok(res)
    };
    let rows_res = if assign { c.a_dnum } else { c.res_dnum };
    let verdict = |res: &Mat| -> Result<(), (String, Value)> {
        for row in 0..rows_res {
            for col in 0..cols {
                let (p_out, bits_out) = glwe_phase(&res.at(row, col), &sk.clear);
                if row >= c.a_dnum {
                    // rows the left operand does not have: documented to be zeroed
                    let cell = res.at(row, col);
                    if hash_vec(cell.data()) != hash_vec(glwe_zeroed(n, s.b_in, k_r, rank).data()) {
                        return Err(("stale_output".into(), json!({"row": row, "col": col, "why": "row beyond a.dnum() is not zero"})));
                    }
                    continue;
                }
                let (p_in, bits_in) = glwe_phase(&a.at(row, col), &sk.clear);
                let want = mul_m2(&p_in, &m2);
                let (worst, wi, tot) = worst_err(&p_out, bits_out, &want, bits_in);
                let limit = bound.at(tot);
                if worst > limit {
                    return Err((
                        "noise_too_large".into(),
                        json!({"row": row, "col": col, "index": wi, "err_log2": log2_of(&worst, tot), "bound_log2": log2_of(&limit, tot), "bound_terms": bound.describe()}),
                    ));
                }
            }
        }
        Ok(())
    };
    rec.evals(2 * (rows_res * cols) as u64);
    let extra_fields = json!({"res_dnum_rel": if c.res_dnum < c.a_dnum { "less" } else if c.res_dnum == c.a_dnum { "equal" } else { "more" }});
    two_runs((tag % 2) as usize, call, verdict, |r: &Mat| r.bytes(), |kind, mut extra| {
        if let (Value::Object(e), Value::Object(x)) = (&mut extra, extra_fields.clone()) {
            e.extend(x);
        }
        rec.fail(mk_desc(&c.op, B::NAME, kind, c, s, json!({}), extra))
    });
}

fn matxp_cases<B: Bk>(tier: Tier) -> Vec<MatXpCase> {
    let mut out = vec![];
    for n in tier.pick(vec![8], vec![8, 16]) {
        for op in ["gglwe_external_product", "gglwe_external_product_assign", "ggsw_external_product", "ggsw_external_product_assign"] {
            let assign = op.ends_with("_assign");
            // the matrix forms require res.base2k == a.base2k
            for shape in xp_shapes(tier, &[n], assign, true).into_iter().filter(|s| s.b_in == s.b_out) {
                for (a_rank_in, a_dsize) in tier.pick(vec![(1usize, 1usize), (2, 2)], vec![(1, 1), (2, 1), (2, 2), (3, 3)]) {
                    if op.starts_with("ggsw") && a_rank_in != 1 {
                        continue;
                    }
                    if shape.a_size <= a_dsize {
                        continue;
                    }
                    let a_dnum = shape.a_size / a_dsize;
                    let res_dnums: Vec<usize> = if assign { vec![a_dnum] } else { vec![a_dnum, a_dnum.saturating_sub(1), a_dnum + 1].into_iter().filter(|d| *d > 0).collect() };
                    for res_dnum in res_dnums {
                        let mut shape = shape.clone();
                        if !assign {
                            shape.res_size = shape.res_size.max(a_dsize + 1).max(res_dnum * a_dsize);
                        }
                        for m2 in [M2::XPow(n + 1), dense_full(n, 1)] {
                            out.push(MatXpCase {
                                op: op.into(),
                                backend: B::NAME.into(),
                                shape: shape.clone(),
                                m2,
                                a_dnum,
                                a_dsize,
                                a_rank_in,
                                res_dnum,
                            });
                        }
                    }
                }
            }
        }
    }
    out
}

// ---------------------------------------------------------------------------------------------
// family: CMux / CSwap
// ---------------------------------------------------------------------------------------------

#[derive(Clone, Debug, Serialize, Deserialize)]
pub struct CmuxCase {
    pub op: String, // cmux | cmux_assign | cmux_assign_neg | cswap
    pub backend: String,
    pub shape: Shape,
}

pub fn exec_cmux<B: Bk>(c: &CmuxCase, seed: u64, tier: Tier, rec: &mut Rec)
where
    Module<B>: HalAll<B> + CoreAll<B> + Cmux<B> + Cswap<B>,
    Scratch<B>: ScratchTakeCore<B>,
{
    let s = &c.shape;
    let n = s.n;
    let rank = s.rank_in;
    let m = B::module(n);
    let tag = fnv(format!("{:?}", c).as_bytes()) ^ seed;
    rec.distinct(tag);
    rec.sample(|| serde_json::to_value(c).unwrap());
    let mut scr = Scr::new(2 * MIB, 0);
    let sk = glwe_sk::<B>(&m, n, rank, Dist::TernaryProb, seed32(tag, 1));
    let e2 = noise_e2(&noise_infos(s.noise, s.k_key));
    let lay = glwe_layout(n, s.b_in, s.k_in(), rank);
    let r_lay = glwe_layout(n, s.b_out, s.k_out(), rank);
    let hot = m
        .cmux_tmp_bytes(&r_lay, &lay, &ggsw_layout(s))
        .max(m.cswap_tmp_bytes(&lay, &lay, &ggsw_layout(s)))
        + HOT_SLACK;
    let noise_in = noise_infos(s.noise, s.k_in());
    // the decomposed operand is the un-normalised difference of two ciphertexts: digits up to 2^b
    let mut bound = xp_bound(s, e2, 1, 2);
    // the other input is added in the GGSW radix before the final normalisation
    if s.a_conv_size() > s.key_size() {
        bound.plus(&ulp_phase(n, rank, s.key_size(), s.b_key, "operand_cut_to_ggsw_size"));
    }
    let mut total = bound.clone();
    total.add_u(noise_e2(&noise_in) * 3, s.k_in() + 1, "input_noise");
    let kp = pick_kp(&total, 8.min(s.b_in));
    rec.add(if kp.is_some() { "cases_with_rounded_plaintext_check" } else { "cases_bound_only" }, 1);
    let pairs: Vec<(Input, Input)> = if tier.is_thorough() {
        vec![
            (Input::Enc(Msg::Ramp), Input::Enc(Msg::Alt)),
            (Input::Enc(Msg::MaxPos), Input::Enc(Msg::MinNeg)),
            (Input::Enc(Msg::MinNeg), Input::Enc(Msg::MaxPos)),
            (Input::Raw(Raw::MaxPos), Input::Raw(Raw::MinNeg)),
            (Input::Raw(Raw::Alt), Input::Raw(Raw::Random(0))),
        ]
    } else {
        vec![(Input::Enc(Msg::MaxPos), Input::Enc(Msg::MinNeg)), (Input::Raw(Raw::MaxPos), Input::Raw(Raw::MinNeg))]
    };
    for bit in [0i64, 1] {
        let m2 = m2_poly(if bit == 1 { M2::One } else { M2::Zero }, n);
        let (_, prep) = match make_ggsw::<B>(&m, s, &m2, &sk, &mut scr, tag ^ bit as u64) {
            Ok(x) => x,
            Err((kind, e)) => {
                rec.fail(mk_desc(&c.op, B::NAME, &kind, c, s, json!({"bit": bit}), e));
                continue;
            }
        };
        for (it, if_) in &pairs {
            let inner = json!({"bit": bit, "t": it, "f": if_});
            let ih = fnv(inner.to_string().as_bytes());
            let mut mk = |inp: &Input, salt: u64| -> Result<(GLWE<Vec<u8>>, Option<Vec<i64>>), String> {
                let mut ct = glwe_zeroed(n, s.b_in, s.k_in(), rank);
                match inp {
                    Input::Enc(mc) => {
                        let kpp = kp.unwrap_or(1);
                        let mv = message(*mc, n, kpp, seed ^ salt);
                        let pt = plaintext(n, s.b_in, s.k_in(), &mv, kpp);
                        let mut xe = Source::new(seed32(tag ^ ih ^ salt, 5));
                        let mut xa = Source::new(seed32(tag ^ ih ^ salt, 6));
                        scr.fill_prefix(0, SETUP_HOT);
                        guarded(|| m.glwe_encrypt_sk(&mut ct, &pt, &sk.prep, &noise_in, &mut xe, &mut xa, scr.get::<B>()))?;
                        Ok((ct, kp.map(|_| mv)))
                    }
                    Input::Raw(rc) => {
                        fill_raw(ct.data_mut(), s.b_in, *rc, seed ^ salt);
                        Ok((ct, None))
                    }
                }
            };
            let (ct_t, msg_t) = match mk(it, 1) {
                Ok(x) => x,
                Err(p) => {
                    rec.fail(mk_desc(&c.op, B::NAME, "panic", c, s, inner, json!({"stage": "input_encrypt", "panic": p})));
                    continue;
                }
            };
            let (ct_f, msg_f) = match mk(if_, 2) {
                Ok(x) => x,
                Err(p) => {
                    rec.fail(mk_desc(&c.op, B::NAME, "panic", c, s, inner, json!({"stage": "input_encrypt", "panic": p})));
                    continue;
                }
            };
            let (p_t, bits_in) = glwe_phase(&ct_t, &sk.clear);
            let (p_f, _) = glwe_phase(&ct_f, &sk.clear);
            // results: cmux -> [res]; cswap -> [res_a, res_b]
            // expected selections, by the documented formulas:
            //   cmux(res,t,f,s)          = (t - f) s + f      : bit ? t : f
            //   cmux_assign(res,a,s)     = (res - a) s + a    : bit ? res : a      (res := t, a := f)
            //   cmux_assign_neg(res,a,s) = (a - res) s + res  : bit ? a : res      (res := t, a := f)
            //   cswap(a,b,s)             : bit ? (b,a) : (a,b)                      (a := t, b := f)
            let sel_t = (&p_t, &msg_t, "t");
            let sel_f = (&p_f, &msg_f, "f");
            let expect: Vec<(&Vec<IBig>, &Option<Vec<i64>>, &str)> = match c.op.as_str() {
                "cmux" | "cmux_assign" => vec![if bit == 1 { sel_t } else { sel_f }],
                "cmux_assign_neg" => vec![if bit == 1 { sel_f } else { sel_t }],
                "cswap" => {
                    if bit == 1 {
                        vec![sel_f, sel_t]
                    } else {
                        vec![sel_t, sel_f]
                    }
                }
                o => panic!("unknown op {o}"),
            };
            let call = |fill: usize| -> Result<Vec<GLWE<Vec<u8>>>, String> {
                scr.fill_prefix(fill, hot);
                match c.op.as_str() {
                    "cmux" => {
                        let mut res = garbage_glwe(n, s.b_out, s.k_out(), rank, fill % 2);
                        guarded(|| m.cmux(&mut res, &ct_t, &ct_f, &prep, scr.get::<B>()))?;
                        Ok(vec![res])
                    }
                    "cmux_assign" => {
                        let mut res = glwe_clone(&ct_t);
                        guarded(|| m.cmux_assign(&mut res, &ct_f, &prep, scr.get::<B>()))?;
                        Ok(vec![res])
                    }
                    "cmux_assign_neg" => {
                        let mut res = glwe_clone(&ct_t);
                        guarded(|| m.cmux_assign_neg(&mut res, &ct_f, &prep, scr.get::<B>()))?;
                        Ok(vec![res])
                    }
                    _ => {
                        let mut ra = glwe_clone(&ct_t);
                        let mut rb = glwe_clone(&ct_f);
                        guarded(|| m.cswap(&mut ra, &mut rb, &prep, scr.get::<B>()))?;
                        Ok(vec![ra, rb])
                    }
                }
            };
            let verdict = |res: &Vec<GLWE<Vec<u8>>>| -> Result<(), (String, Value)> {
                for (ri, r) in res.iter().enumerate() {
                    let (p_out, bits_out) = glwe_phase(r, &sk.clear);
                    let (want, wmsg, which) = expect[ri];
                    let (worst, wi, tot) = worst_err(&p_out, bits_out, want, bits_in);
                    let limit = bound.at(tot);
                    if worst > limit {
                        // does it match the OTHER input instead?
                        let other = if which == "t" { &p_f } else { &p_t };
                        let swapped = worst_err(&p_out, bits_out, other, bits_in).0 <= limit;
                        return Err((
                            if swapped { "wrong_selection".into() } else { "noise_too_large".into() },
                            json!({"result": ri, "expected": which, "index": wi, "err_log2": log2_of(&worst, tot), "bound_log2": log2_of(&limit, tot), "bound_terms": bound.describe()}),
                        ));
                    }
                    if let (Some(mv), Some(kpp)) = (wmsg, kp) {
                        let got_m: Vec<i64> = p_out.iter().map(|x| round_to(x, bits_out, kpp)).collect();
                        if &got_m != mv {
                            return Err(("wrong_plaintext".into(), json!({"result": ri, "expected": which, "kp": kpp, "got": got_m, "want": mv})));
                        }
                    }
                }
                Ok(())
            };
            rec.evals(2);
            two_runs(
                (ih % 2) as usize,
                call,
                verdict,
                |r: &Vec<GLWE<Vec<u8>>>| r.iter().flat_map(|x| x.data().data.clone()).collect(),
                |kind, extra| rec.fail(mk_desc(&c.op, B::NAME, kind, c, s, inner.clone(), extra)),
            );
        }
    }
}

fn cmux_cases<B: Bk>(tier: Tier) -> Vec<CmuxCase> {
    let mut out = vec![];
    for n in tier.pick(vec![8], vec![8, 16]) {
        for op in ["cmux", "cmux_assign", "cmux_assign_neg", "cswap"] {
            let inplace = op != "cmux";
            for shape in xp_shapes(tier, &[n], inplace, !tier.is_thorough()) {
                // CMux adds an input to the product in the GGSW radix and the product routine asserts equal radices:
                // the admissible domain is b_in == b_ggsw (== b_out for the in-place forms); cswap documents a
                // separate branch for res radix != GGSW radix, which is exercised
                let eq = shape.b_in == shape.b_key;
                if !eq && op != "cswap" {
                    continue;
                }
                if op == "cmux" && shape.b_out != shape.b_in {
                    continue;
                }
                out.push(CmuxCase {
                    op: op.into(),
                    backend: B::NAME.into(),
                    shape,
                });
            }
        }
    }
    out
}

// ---------------------------------------------------------------------------------------------
// family: GGSW from GGLWE / expand rows / GGSW key switch / GGSW automorphism: every cell
// ---------------------------------------------------------------------------------------------

#[derive(Clone, Debug, Serialize, Deserialize)]
pub struct GgswConvCase {
    pub op: String, // ggsw_from_gglwe | ggsw_expand_row | ggsw_keyswitch[_assign] | ggsw_automorphism[_assign]
    pub backend: String,
    /// gadget of the switching / automorphism key AND of the tensor key (rank_in = rank_out = rank); b_in = radix of the GGSW
    pub shape: Shape,
    /// gadget of the GGSW itself
    pub g_dnum: usize,
    pub g_dsize: usize,
    pub res_dnum: usize,
    pub m2: M2,
    pub g: i64,
}

pub fn exec_ggsw_conv<B: Bk>(c: &GgswConvCase, seed: u64, rec: &mut Rec)
where
    Module<B>: HalAll<B> + CoreAll<B>,
    Scratch<B>: ScratchTakeCore<B>,
{
    let s = &c.shape;
    let n = s.n;
    let rank = s.rank_in;
    let m = B::module(n);
    let tag = fnv(format!("{:?}", c).as_bytes()) ^ seed;
    rec.distinct(tag);
    rec.sample(|| serde_json::to_value(c).unwrap());
    let mut scr = Scr::new(2 * MIB, 0);
    let fail = |rec: &mut Rec, kind: &str, inner: Value, extra: Value| rec.fail(mk_desc(&c.op, B::NAME, kind, c, s, inner, extra));
    let is_ks = c.op.starts_with("ggsw_keyswitch");
    let is_auto = c.op.starts_with("ggsw_automorphism");
    let assign = c.op.ends_with("_assign");
    let sk_in = glwe_sk::<B>(&m, n, rank, Dist::TernaryProb, seed32(tag, 1));
    let sk_out = if is_ks { glwe_sk::<B>(&m, n, rank, Dist::TernaryProb, seed32(tag, 2)) } else { glwe_sk::<B>(&m, n, rank, Dist::TernaryProb, seed32(tag, 1)) };
    let noise_key = noise_infos(s.noise, s.k_key);
    let e2 = noise_e2(&noise_key);
    let mut xe = Source::new(seed32(tag, 3));
    let mut xa = Source::new(seed32(tag, 4));
    let m2 = m2_poly(c.m2, n);
    let k_a = s.a_size * s.b_in;
    let k_r = s.res_size * s.b_in;

    // tensor key of the TARGET secret (rows: s_i * s_j)
    let tsk_lay = GGLWEToGGSWKeyLayout {
        n: (n as u32).into(),
        base2k: (s.b_key as u32).into(),
        k: (s.k_key as u32).into(),
        rank: (rank as u32).into(),
        dnum: (s.dnum as u32).into(),
        dsize: (s.dsize as u32).into(),
    };
    let mut tsk = GGLWEToGGSWKey::alloc_from_infos(&tsk_lay);
    scr.fill_prefix(0, SETUP_HOT);
    if let Err(p) = guarded(|| GGLWEToGGSWKeyEncryptSk::gglwe_to_ggsw_key_encrypt_sk(&m, &mut tsk, &sk_out.sk, &noise_key, &mut xe, &mut xa, scr.get::<B>())) {
        fail(rec, "panic", json!({"stage": "tsk_encrypt"}), json!({"panic": p}));
        return;
    }
    for i in 0..rank {
        // tsk.at(i) encrypts s_i * s_j (column j) under s
        let pts: Vec<Vec<i64>> = (0..rank)
            .map(|j| {
                let a: Vec<i128> = sk_out.clear[i].iter().map(|&x| x as i128).collect();
                let b: Vec<i128> = sk_out.clear[j].iter().map(|&x| x as i128).collect();
                ring::negacyclic_mul_i128(&a, &b).iter().map(|&x| x as i64).collect()
            })
            .collect();
        if let Err(e) = check_key_rows(tsk.at(i), &pts, &sk_out.clear, e2, s.k_key) {
            fail(rec, "key_noise_too_large", json!({"stage": "tsk_rows", "tsk_index": i}), e);
            return;
        }
    }
    let mut tsk_prep = m.gglwe_to_ggsw_key_prepared_alloc_from_infos(&tsk_lay);
    scr.fill_prefix(0, SETUP_HOT);
    if let Err(p) = guarded(|| m.gglwe_to_ggsw_key_prepare(&mut tsk_prep, &tsk, scr.get::<B>())) {
        fail(rec, "panic", json!({"stage": "tsk_prepare"}), json!({"panic": p}));
        return;
    }

    // switching / automorphism key
    enum Key<B: Bk> {
        None,
        Ks(poulpy_core::layouts::GLWESwitchingKeyPrepared<DeviceBuf<B>, B>),
        Atk(poulpy_core::layouts::GLWEAutomorphismKeyPrepared<DeviceBuf<B>, B>),
    }
    let key: Key<B> = if is_ks {
        let lay = GLWESwitchingKeyLayout {
            n: (n as u32).into(),
            base2k: (s.b_key as u32).into(),
            k: (s.k_key as u32).into(),
            rank_in: (rank as u32).into(),
            rank_out: (rank as u32).into(),
            dnum: (s.dnum as u32).into(),
            dsize: (s.dsize as u32).into(),
        };
        let mut ksk = GLWESwitchingKey::alloc_from_infos(&lay);
        scr.fill_prefix(0, SETUP_HOT);
        if let Err(p) = guarded(|| m.glwe_switching_key_encrypt_sk(&mut ksk, &sk_in.sk, &sk_out.sk, &noise_key, &mut xe, &mut xa, scr.get::<B>())) {
            fail(rec, "panic", json!({"stage": "key_encrypt"}), json!({"panic": p}));
            return;
        }
        let mut prep = m.glwe_switching_key_prepared_alloc_from_infos(&lay);
        scr.fill_prefix(0, SETUP_HOT);
        if let Err(p) = guarded(|| m.glwe_switching_key_prepare(&mut prep, &ksk, scr.get::<B>())) {
            fail(rec, "panic", json!({"stage": "key_prepare"}), json!({"panic": p}));
            return;
        }
        Key::Ks(prep)
    } else if is_auto {
        let lay = GLWEAutomorphismKeyLayout {
            n: (n as u32).into(),
            base2k: (s.b_key as u32).into(),
            k: (s.k_key as u32).into(),
            rank: (rank as u32).into(),
            dnum: (s.dnum as u32).into(),
            dsize: (s.dsize as u32).into(),
        };
        let mut atk = GLWEAutomorphismKey::alloc_from_infos(&lay);
        scr.fill_prefix(0, SETUP_HOT);
        if let Err(p) = guarded(|| m.glwe_automorphism_key_encrypt_sk(&mut atk, c.g, &sk_in.sk, &noise_key, &mut xe, &mut xa, scr.get::<B>())) {
            fail(rec, "panic", json!({"stage": "key_encrypt"}), json!({"panic": p}));
            return;
        }
        let mut prep = m.glwe_automorphism_key_prepared_alloc_from_infos(&lay);
        scr.fill_prefix(0, SETUP_HOT);
        if let Err(p) = guarded(|| m.glwe_automorphism_key_prepare(&mut prep, &atk, scr.get::<B>())) {
            fail(rec, "panic", json!({"stage": "key_prepare"}), json!({"panic": p}));
            return;
        }
        Key::Atk(prep)
    } else {
        Key::None
    };

    // the input: a GGSW (key switch / automorphism / expand_row) or a GGLWE with one plaintext column (from_gglwe)
    let a_ggsw = GGSWLayout {
        n: (n as u32).into(),
        base2k: (s.b_in as u32).into(),
        k: (k_a as u32).into(),
        rank: (rank as u32).into(),
        dnum: (c.g_dnum as u32).into(),
        dsize: (c.g_dsize as u32).into(),
    };
    let r_ggsw = GGSWLayout {
        k: (k_r as u32).into(),
        dnum: (c.res_dnum as u32).into(),
        ..a_ggsw
    };
    let ni = noise_infos(s.noise, k_a);
    let e2_in = noise_e2(&ni);
    let mut pt = ScalarZnx::alloc(n, 1);
    pt.at_mut(0, 0).copy_from_slice(&m2);
    let mut a_g: Option<GGSW<Vec<u8>>> = None;
    let mut a_l: Option<GGLWE<Vec<u8>>> = None;
    if c.op == "ggsw_from_gglwe" {
        let lay = GGLWELayout {
            n: (n as u32).into(),
            base2k: (s.b_in as u32).into(),
            k: (k_a as u32).into(),
            rank_in: 1u32.into(),
            rank_out: (rank as u32).into(),
            dnum: (c.g_dnum as u32).into(),
            dsize: (c.g_dsize as u32).into(),
        };
        let mut g = GGLWE::alloc_from_infos(&lay);
        scr.fill_prefix(0, SETUP_HOT);
        if let Err(p) = guarded(|| m.gglwe_encrypt_sk(&mut g, &pt, &sk_in.prep, &ni, &mut xe, &mut xa, scr.get::<B>())) {
            fail(rec, "panic", json!({"stage": "input_encrypt"}), json!({"panic": p}));
            return;
        }
        a_l = Some(g);
    } else {
        let mut g = GGSW::alloc_from_infos(&a_ggsw);
        scr.fill_prefix(0, SETUP_HOT);
        if let Err(p) = guarded(|| m.ggsw_encrypt_sk(&mut g, &pt, &sk_in.prep, &ni, &mut xe, &mut xa, scr.get::<B>())) {
            fail(rec, "panic", json!({"stage": "input_encrypt"}), json!({"panic": p}));
            return;
        }
        if c.op == "ggsw_expand_row" {
            // only column 0 is an input of the expansion: the other columns start as garbage
            for row in 0..c.g_dnum {
                for col in 1..=rank {
                    garbage(g.at_mut(row, col).data_mut().data, 0);
                }
            }
        }
        a_g = Some(g);
    }
    let tsk_gl = GGLWELayout {
        n: (n as u32).into(),
        base2k: (s.b_key as u32).into(),
        k: (s.k_key as u32).into(),
        rank_in: (rank as u32).into(),
        rank_out: (rank as u32).into(),
        dnum: (s.dnum as u32).into(),
        dsize: (s.dsize as u32).into(),
    };
    let hot = m
        .ggsw_keyswitch_tmp_bytes(&r_ggsw, &a_ggsw, &tsk_gl, &tsk_gl)
        .max(m.ggsw_automorphism_tmp_bytes(&r_ggsw, &a_ggsw, &tsk_gl, &tsk_gl))
        .max(m.ggsw_expand_rows_tmp_bytes(&r_ggsw, &tsk_gl))
        .max(m.ggsw_from_gglwe_tmp_bytes(&r_ggsw, &tsk_gl))
        + HOT_SLACK;

    // bounds.  column 0: one key switch of the input cell (none for from_gglwe / expand_row);
    //          column j: gadget product of the masks of the (new) column-0 cell with the tensor-key rows s_{j-1} s_i
    let res_size_eff = if assign || c.op == "ggsw_expand_row" { s.a_size } else { s.res_size };
    let col0_bound = {
        let mut sb = s.clone();
        sb.b_out = s.b_in;
        sb.res_size = res_size_eff;
        sb.bound(e2, 0)
    };
    let expand_bound = {
        let conv = (res_size_eff * s.b_in).div_ceil(s.b_key);
        let g = Gadget {
            n,
            cols_in: rank,
            a_size: conv,
            b_key: s.b_key,
            dsize: s.dsize,
            dnum: s.dnum,
            key_size: s.key_size(),
            k_noise: s.k_key,
            e2,
            pt_l1: (n * n) as u128,
        };
        let mut b = g.bound();
        b.plus(&ulp_phase(n, rank, res_size_eff, s.b_in, "result_rounding"));
        if conv > s.key_size() {
            b.plus(&ulp_phase(n, rank, s.key_size(), s.b_key, "operand_cut_to_key_size"));
        }
        b
    };
    let in_cell = |row: usize| -> GLWE<&[u8]> {
        match (&a_g, &a_l) {
            (Some(g), _) => g.at(row, 0),
            (_, Some(g)) => g.at(row, 0),
            _ => unreachable!(),
        }
    };
    let rows_res = if assign || c.op == "ggsw_expand_row" { c.g_dnum } else { c.res_dnum };
    let call = |fill: usize| -> Result<GGSW<Vec<u8>>, String> {
        let inplace = assign || c.op == "ggsw_expand_row";
        let mut res = GGSW::alloc_from_infos(if inplace { &a_ggsw } else { &r_ggsw });
        if inplace {
            ggsw_copy(&mut res, a_g.as_ref().unwrap());
        } else {
            ggsw_garbage(&mut res, fill % 2);
        }
        scr.fill_prefix(fill, hot);
        guarded(|| match (c.op.as_str(), &key) {
            ("ggsw_from_gglwe", _) => m.ggsw_from_gglwe(&mut res, a_l.as_ref().unwrap(), &tsk_prep, scr.get::<B>()),
            ("ggsw_expand_row", _) => m.ggsw_expand_row(&mut res, &tsk_prep, scr.get::<B>()),
            ("ggsw_keyswitch", Key::Ks(k)) => m.ggsw_keyswitch(&mut res, a_g.as_ref().unwrap(), k, &tsk_prep, scr.get::<B>()),
            ("ggsw_keyswitch_assign", Key::Ks(k)) => m.ggsw_keyswitch_assign(&mut res, k, &tsk_prep, scr.get::<B>()),
            ("ggsw_automorphism", Key::Atk(k)) => m.ggsw_automorphism(&mut res, a_g.as_ref().unwrap(), k, &tsk_prep, scr.get::<B>()),
            ("ggsw_automorphism_assign", Key::Atk(k)) => m.ggsw_automorphism_assign(&mut res, k, &tsk_prep, scr.get::<B>()),
            (o, _) => panic!("unknown op {o}"),
        })?;
        Ok(res)
    };
    let m2_img: Vec<i64> = if is_auto { ring::automorphism(&m2, c.g) } else { m2.clone() };
    let verdict = |res: &GGSW<Vec<u8>>| -> Result<(), (String, Value)> {
        for row in 0..rows_res {
            // column 0 against the image of the input cell's exact phase
            let (p_in, bits_in) = glwe_phase(&in_cell(row), &sk_in.clear);
            let want0 = if is_auto { auto_big(&p_in, c.g) } else { p_in.clone() };
            let (p0, bits0) = glwe_phase(&res.at(row, 0), &sk_out.clear);
            let (worst, wi, tot) = worst_err(&p0, bits0, &want0, bits_in);
            let limit = col0_bound.at(tot);
            if worst > limit {
                return Err((
                    "noise_too_large".into(),
                    json!({"row": row, "col": 0, "index": wi, "err_log2": log2_of(&worst, tot), "bound_log2": log2_of(&limit, tot), "bound_terms": col0_bound.describe()}),
                ));
            }
            // column 0 against m2 * gadget(row): input encryption noise + the switch
            let gexp = (row + 1) * c.g_dsize * s.b_in;
            let mut abs0 = col0_bound.clone();
            abs0.add_u(e2_in, k_a + 1, "input_noise");
            let want_abs: Vec<IBig> = m2_img.iter().map(|&x| IBig::from(x)).collect();
            let (worst, wi, tot) = worst_err(&p0, bits0, &want_abs, gexp);
            if worst > abs0.at(tot) {
                return Err(("wrong_plaintext".into(), json!({"row": row, "col": 0, "index": wi, "err_log2": log2_of(&worst, tot), "why": "cell does not hold m2 * gadget(row)"})));
            }
            // column j >= 1 against s_{j-1} * phase(column 0)
            for col in 1..=rank {
                let (pj, bitsj) = glwe_phase(&res.at(row, col), &sk_out.clear);
                let wantj = mul_small(&p0, &sk_out.clear[col - 1]);
                let (worst, wi, tot) = worst_err(&pj, bitsj, &wantj, bits0);
                let limit = expand_bound.at(tot);
                if worst > limit {
                    return Err((
                        "noise_too_large".into(),
                        json!({"row": row, "col": col, "index": wi, "err_log2": log2_of(&worst, tot), "bound_log2": log2_of(&limit, tot), "bound_terms": expand_bound.describe()}),
                    ));
                }
            }
        }
        Ok(())
    };
    rec.evals(2 * (rows_res * (rank + 1)) as u64);
    let extra_fields = json!({"res_dnum_rel": if c.res_dnum < c.g_dnum { "less" } else { "equal" }, "g_dsize": c.g_dsize, "g_dnum": c.g_dnum});
    two_runs(
        (tag % 2) as usize,
        call,
        verdict,
        |r: &GGSW<Vec<u8>>| ggsw_bytes(r),
        |kind, mut extra| {
            if let (Value::Object(e), Value::Object(x)) = (&mut extra, extra_fields.clone()) {
                e.extend(x);
            }
            rec.fail(mk_desc(&c.op, B::NAME, kind, c, s, json!({}), extra))
        },
    );
}

fn ggsw_conv_cases<B: Bk>(tier: Tier, ops: &[&str]) -> Vec<GgswConvCase> {
    let mut out = vec![];
    for n in tier.pick(vec![8], vec![8, 16]) {
        for &op in ops {
            let assign = op.ends_with("_assign") || op == "ggsw_expand_row";
            for shape in crate::c03::shapes_for_composite(tier, n, assign) {
                if shape.kprec == "below" {
                    continue;
                }
                // N = 16 (thorough tier only): default noise, the longer input, GGSW digit sizes 1..2
                if n == 16 && (shape.noise != NoiseCfg::Default || shape.a_size != 5) {
                    continue;
                }
                for g_dsize in if tier.is_thorough() && n == 8 { vec![1usize, 2, 3] } else { vec![1usize, 2] } {
                    if shape.a_size <= g_dsize {
                        continue;
                    }
                    let g_dnum = shape.a_size / g_dsize;
                    let res_dnums: Vec<usize> = if assign || op == "ggsw_from_gglwe" { vec![g_dnum] } else { vec![g_dnum, g_dnum.saturating_sub(1)].into_iter().filter(|d| *d > 0).collect() };
                    for res_dnum in res_dnums {
                        let mut shape = shape.clone();
                        if !assign {
                            shape.res_size = shape.res_size.max(g_dsize + 1).max(res_dnum * g_dsize);
                        }
                        let gs: Vec<i64> = if op.starts_with("ggsw_automorphism") { tier.pick(vec![5], vec![5, -1, 2 * n as i64 - 1]) } else { vec![1] };
                        for g in gs {
                            for m2 in tier.pick(vec![dense_full(n, 2)], vec![M2::XPow(n - 1), dense_full(n, 2)]) {
                                out.push(GgswConvCase {
                                    op: op.into(),
                                    backend: B::NAME.into(),
                                    shape: shape.clone(),
                                    g_dnum,
                                    g_dsize,
                                    res_dnum,
                                    m2,
                                    g,
                                });
                            }
                        }
                    }
                }
            }
        }
    }
    out
}

// ---------------------------------------------------------------------------------------------
// families
// ---------------------------------------------------------------------------------------------

fn fam_xp<B: Bk>(run: &mut Run)
where
    Module<B>: HalAll<B> + CoreAll<B>,
    Scratch<B>: ScratchTakeCore<B>,
{
    let (seed, tier) = (run.seed, run.tier);
    run.family(
        &format!("glwe_external_product/{}", B::NAME),
        "outer = (out-of-place | assign, N, rank 1..3, dsize 1..4, a_size 1..6, dnum 1..needed+1, GGSW precision min/above, (b_in,b_ggsw,b_out), result shorter/equal/longer, noise cfg); inner = m2 in {X, -X^3, dense ternary} x inputs (library encryptions of extreme messages + raw extreme ciphertexts) x {zero-filled, garbage-filled scratch}",
        xp_cases::<B>(tier),
        |c, rec| exec_xp::<B>(c, None, seed, tier, rec),
    );
    run.family(
        &format!("glwe_external_product_m2/{}", B::NAME),
        "outer = (shape from a reduced set, chunk of the m2 alphabet); m2 alphabet = {0, 1, -1, X^k for EVERY k in [0,2N), dense ternary polynomials (all 3^8 at N=8 in the thorough tier)}",
        xp_m2_cases::<B>(tier),
        |c, rec| exec_xp::<B>(c, None, seed, tier, rec),
    );
}

fn fam_matxp<B: Bk>(run: &mut Run)
where
    Module<B>: HalAll<B> + CoreAll<B>,
    Scratch<B>: ScratchTakeCore<B>,
{
    let seed = run.seed;
    let tier = run.tier;
    run.family(
        &format!("matrix_external_product/{}", B::NAME),
        "outer = (gglwe | ggsw external product, out-of-place | assign, GGSW gadget shape, gadget of the left operand, res.dnum less/equal/more than a.dnum, m2); every cell (row, col) of the result against m2 * exact phase of the input cell; extra rows must be zero",
        matxp_cases::<B>(tier),
        |c, rec| exec_matxp::<B>(c, seed, rec),
    );
}

fn fam_cmux<B: Bk>(run: &mut Run)
where
    Module<B>: HalAll<B> + CoreAll<B> + Cmux<B> + Cswap<B>,
    Scratch<B>: ScratchTakeCore<B>,
{
    let (seed, tier) = (run.seed, run.tier);
    run.family(
        &format!("cmux/{}", B::NAME),
        "outer = (cmux | cmux_assign | cmux_assign_neg | cswap, GGSW gadget shape); inner = selector bit in {0,1} x input pairs with extreme messages / raw extreme ciphertexts; oracle = the result's exact phase equals the phase of exactly the selected input within the bound (and not the other one), rounded plaintext exact",
        cmux_cases::<B>(tier),
        |c, rec| exec_cmux::<B>(c, seed, tier, rec),
    );
}

fn fam_ggsw_conv<B: Bk>(run: &mut Run)
where
    Module<B>: HalAll<B> + CoreAll<B>,
    Scratch<B>: ScratchTakeCore<B>,
{
    let seed = run.seed;
    let tier = run.tier;
    run.family(
        &format!("ggsw_conversion/{}", B::NAME),
        "outer = (ggsw_from_gglwe | ggsw_expand_row | ggsw_keyswitch[_assign] | ggsw_automorphism[_assign], key/tensor-key gadget shape, GGSW gadget, res.dnum <= a.dnum, m2, g); every cell: column 0 = image of the input cell and = m2*gadget(row), column j = s_{j-1} * column 0, within the R9 bounds",
        ggsw_conv_cases::<B>(tier, &["ggsw_from_gglwe", "ggsw_expand_row", "ggsw_keyswitch", "ggsw_keyswitch_assign", "ggsw_automorphism", "ggsw_automorphism_assign"]),
        |c, rec| exec_ggsw_conv::<B>(c, seed, rec),
    );
}

/// GGSW key switch for C03 (same executor, key-switch operations only)
pub fn fam_ggsw_keyswitch<B: Bk>(run: &mut Run)
where
    Module<B>: HalAll<B> + CoreAll<B>,
    Scratch<B>: ScratchTakeCore<B>,
{
    let seed = run.seed;
    let tier = run.tier;
    run.family(
        &format!("ggsw_keyswitch/{}", B::NAME),
        "outer = (ggsw_keyswitch | ggsw_keyswitch_assign, key and tensor-key gadget shape, GGSW gadget, res.dnum <= a.dnum, m2); every cell: column 0 = input cell's exact phase under the target secret, column j = s_{j-1} * column 0, within the R9 bounds; zero- and garbage-filled scratch",
        ggsw_conv_cases::<B>(tier, &["ggsw_keyswitch", "ggsw_keyswitch_assign"]).into_iter().filter(|c| c.shape.n == 8).collect(),
        |c, rec| exec_ggsw_conv::<B>(c, seed, rec),
    );
}

pub fn run(run: &mut Run) {
    run.assume("ring degree N in {8,16}; radices in {8,10,12,17}; ternary secrets; GGSW respects ceil(k/b) > dsize and dnum*dsize <= ceil(k/b)");
    run.assume("a GGSW cell (row, col) holds m2 * 2^-((row+1) dsize b) * (1 for col 0, +s_{col-1} otherwise): the sign that makes sum_j digits(c_j) x row_j decrypt to m2 * (c_0 + sum c_j s_j); verified on every library-encrypted GGSW before it is used");
    run.assume("noise samples are hard-bounded (|e| <= bound + 1/2 units of 2^-k); normalised digits have magnitude <= 2^(b-1); the CMux family decomposes an un-normalised difference (digits <= 2^b)");
    run.assume("CMux admissible domain: all operands in the GGSW radix (the product routine asserts it); cswap is also driven through its documented res-radix != GGSW-radix branch");
    run.assume("every call is run from zero-filled and from garbage-filled scratch (companion query + 64 KiB re-filled, 2 MiB arena); the C04 verdict is taken on the zero-filled run, a difference between the two ciphertexts is reported as scratch_dependent_result (C12 class)");
    for_backends!(fam_xp(run));
    for_backends!(fam_matxp(run));
    for_backends!(fam_cmux(run));
    for_backends!(fam_ggsw_conv(run));
}

pub fn replay(run: &mut Run, d: &Value) {
    let backend = d["backend"].as_str().unwrap_or("").to_string();
    let fam = d["family"].as_str().unwrap_or("").to_string();
    let seed = d["seed"].as_u64().unwrap_or(0);
    let tier = Tier::Thorough;
    macro_rules! go {
        ($B:ty) => {{
            if fam.starts_with("glwe_external_product") {
                let c: XpCase = serde_json::from_value(d["case"].clone()).unwrap();
                let only: Option<(M2, Input)> = d.get("inner").and_then(|i| {
                    let m2 = serde_json::from_value(i.get("m2")?.clone()).ok()?;
                    let inp = serde_json::from_value(i.get("input")?.clone()).ok()?;
                    Some((m2, inp))
                });
                run.single(&fam, "replay", |rec| exec_xp::<$B>(&c, only, seed, tier, rec));
            } else if fam.starts_with("matrix_external_product") {
                let c: MatXpCase = serde_json::from_value(d["case"].clone()).unwrap();
                run.single(&fam, "replay", |rec| exec_matxp::<$B>(&c, seed, rec));
            } else if fam.starts_with("cmux") {
                let c: CmuxCase = serde_json::from_value(d["case"].clone()).unwrap();
                run.single(&fam, "replay", |rec| exec_cmux::<$B>(&c, seed, tier, rec));
            } else if fam.starts_with("ggsw_conversion") {
                let c: GgswConvCase = serde_json::from_value(d["case"].clone()).unwrap();
                run.single(&fam, "replay", |rec| exec_ggsw_conv::<$B>(&c, seed, rec));
            } else {
                panic!("unknown family {fam}");
            }
        }};
    }
    match backend.as_str() {
        "fft64-ref" => go!(FFT64Ref),
        "ntt120-ref" => go!(NTT120Ref),
        "fft64-avx" => go!(FFT64Avx),
        "ntt120-avx" => go!(NTT120Avx),
        o => panic!("unknown backend {o}"),
    }
}

//! C03, second part: trace, ring packing (glwe_pack and the packer), LWE key switch, LWE <-> GLWE conversion, sample
//! extraction, GGLWE key switch and the oracle-free "gadget shape does not matter" family.

use crate::c03::{Shape, check_key_rows, pick_kp};
use crate::kit::*;
use poulpy_core::layouts::{
    GGLWE, GGLWELayout, GLWE, GLWEAutomorphismKey, GLWEAutomorphismKeyLayout, GLWEAutomorphismKeyPrepared,
    GLWEAutomorphismKeyPreparedFactory, GLWELayout, GLWESwitchingKey, GLWESwitchingKeyLayout, GLWESwitchingKeyPreparedFactory,
    GLWEToLWEKey, GLWEToLWEKeyLayout, GLWEToLWEKeyPreparedFactory, LWE, GGLWEInfos, LWELayout, LWEPlaintext, LWESwitchingKey,
    LWESwitchingKeyLayout, LWESwitchingKeyPreparedFactory, LWEToGLWEKey, LWEToGLWEKeyLayout, LWEToGLWEKeyPreparedFactory,
};
use poulpy_core::{
    GGLWEEncryptSk, GGLWEKeyswitch, GLWEAutomorphismKeyEncryptSk, GLWEEncryptSk, GLWEFromLWE, GLWEKeyswitch, GLWEPacker, GLWEPacking,
    GLWESwitchingKeyEncryptSk, GLWEToLWESwitchingKeyEncryptSk, GLWETrace, LWEEncryptSk, LWEFromGLWE, LWEKeySwitch, LWESampleExtract,
    LWESwitchingKeyEncrypt, LWEToGLWESwitchingKeyEncryptSk, ScratchTakeCore, glwe_packer_add, glwe_packer_flush, glwe_packer_galois_elements,
    glwe_packer_tmp_bytes,
};
use poulpy_hal::layouts::{DataView, DataViewMut, DeviceBuf, Module, ScalarZnx, Scratch, ZnxView, ZnxViewMut};
use poulpy_hal::source::Source;
use pvc_common::phase::Dist;
use pvc_common::{Bk, CoreAll, HalAll};
use pvc_engine::rng::Rng;
use pvc_engine::{Rec, Run, Tier, fnv, guarded};
use pvc_model::IBig;
use serde::{Deserialize, Serialize};
use serde_json::{Value, json};
use std::collections::HashMap;

pub const SETUP_HOT: usize = 256 * 1024;

fn glwe_layout(n: usize, b: usize, k: usize, rank: usize) -> GLWELayout {
    GLWELayout {
        n: (n as u32).into(),
        base2k: (b as u32).into(),
        k: (k as u32).into(),
        rank: (rank as u32).into(),
    }
}

pub type AtkMap<B> = HashMap<i64, GLWEAutomorphismKeyPrepared<DeviceBuf<B>, B>>;

/// library-generated automorphism keys for the Galois elements `gs`, rows verified against the clear secret
pub fn make_auto_keys<B: Bk>(
    m: &Module<B>,
    sk: &GSk<B>,
    gs: &[i64],
    s: &Shape,
    scr: &mut Scr,
    tag: u64,
) -> Result<AtkMap<B>, (String, Value)>
where
    Module<B>: HalAll<B> + CoreAll<B>,
    Scratch<B>: ScratchTakeCore<B>,
{
    let n = s.n;
    let layout = GLWEAutomorphismKeyLayout {
        n: (n as u32).into(),
        base2k: (s.b_key as u32).into(),
        k: (s.k_key as u32).into(),
        rank: (s.rank_in as u32).into(),
        dnum: (s.dnum as u32).into(),
        dsize: (s.dsize as u32).into(),
    };
    let noise = noise_infos(s.noise, s.k_key);
    let e2 = noise_e2(&noise);
    let mut out: AtkMap<B> = HashMap::new();
    for (i, &g) in gs.iter().enumerate() {
        let mut xe = Source::new(seed32(tag, 100 + i as u64));
        let mut xa = Source::new(seed32(tag, 200 + i as u64));
        let mut atk = GLWEAutomorphismKey::alloc_from_infos(&layout);
        scr.fill_prefix(0, SETUP_HOT);
        guarded(|| m.glwe_automorphism_key_encrypt_sk(&mut atk, g, &sk.sk, &noise, &mut xe, &mut xa, scr.get::<B>()))
            .map_err(|p| ("panic".to_string(), json!({"stage": "key_encrypt", "g": g, "panic": p})))?;
        let ginv = pvc_model::ring::inv_mod_2n(g, n);
        let sk_g: Vec<Vec<i64>> = sk.clear.iter().map(|p| pvc_model::ring::automorphism(p, ginv)).collect();
        check_key_rows(&atk, &sk.clear, &sk_g, e2, s.k_key).map_err(|e| ("key_noise_too_large".to_string(), e))?;
        let mut prep = m.glwe_automorphism_key_prepared_alloc_from_infos(&layout);
        scr.fill_prefix(0, SETUP_HOT);
        guarded(|| m.glwe_automorphism_key_prepare(&mut prep, &atk, scr.get::<B>()))
            .map_err(|p| ("panic".to_string(), json!({"stage": "key_prepare", "g": g, "panic": p})))?;
        out.insert(g, prep);
    }
    Ok(out)
}

/// bound of one "halve, then add/sub the automorphism image" level on ciphertexts of `size` limbs in radix `b`
/// (switch through the key of shape `s`, result in the same radix/size), as seen on a coefficient that survives:
/// `halvings` roundings of one unit of the last limb per column + one gadget product.
fn level_bound(s: &Shape, b: usize, size: usize, halvings: u64, e2: u128) -> Bnd {
    let lvl = Shape {
        b_in: b,
        b_out: b,
        a_size: size,
        res_size: size,
        ..s.clone()
    };
    let mut out = lvl.bound(e2, s.rank_in);
    out.plus(&ulp_phase(s.n, s.rank_in, size, b, "halving").times(halvings));
    out
}

#[allow(clippy::too_many_arguments)]
fn encrypt_msg<B: Bk>(
    m: &Module<B>,
    n: usize,
    b: usize,
    k: usize,
    rank: usize,
    sk: &GSk<B>,
    mv: &[i64],
    kp: usize,
    noise: NoiseCfg,
    scr: &mut Scr,
    tag: u64,
) -> Result<GLWE<Vec<u8>>, String>
where
    Module<B>: HalAll<B> + CoreAll<B>,
    Scratch<B>: ScratchTakeCore<B>,
{
    let mut ct = glwe_zeroed(n, b, k, rank);
    let pt = plaintext(n, b, k, mv, kp);
    let mut xe = Source::new(seed32(tag, 7));
    let mut xa = Source::new(seed32(tag, 8));
    let ni = noise_infos(noise, k);
    scr.fill_prefix(0, SETUP_HOT);
    guarded(|| m.glwe_encrypt_sk(&mut ct, &pt, &sk.prep, &ni, &mut xe, &mut xa, scr.get::<B>()))?;
    Ok(ct)
}

fn worst_err(got: &[IBig], gbits: usize, want: &[IBig], wbits: usize) -> (IBig, usize, usize) {
    let tot = gbits.max(wbits);
    let mut worst = IBig::from(0);
    let mut wi = 0;
    for i in 0..got.len() {
        let (d, _) = terr(&got[i], gbits, &want[i], wbits);
        let d = ibig_abs(&d);
        if d > worst {
            worst = d;
            wi = i;
        }
    }
    (worst, wi, tot)
}

fn shape_fields(s: &Shape) -> Value {
    json!({"dsize": s.dsize, "dnum": s.dnum, "dnum_rel": s.dnum_rel, "kprec": s.kprec, "res_rel": s.res_rel, "a_mod_dsize": s.a_mod_dsize(),
        "rank_in": s.rank_in, "rank_out": s.rank_out, "radix_equal": s.b_in == s.b_key && s.b_key == s.b_out, "noise": s.noise})
}

fn mk_desc<C: Serialize>(op: &str, backend: &str, kind: &str, case: &C, s: &Shape, inner: Value, extra: Value) -> Value {
    let mut d = json!({"op": op, "backend": backend, "kind": kind, "case": case, "inner": inner});
    if let (Value::Object(dm), Value::Object(sm)) = (&mut d, shape_fields(s)) {
        dm.extend(sm);
    }
    if let (Value::Object(dm), Value::Object(em)) = (&mut d, extra) {
        dm.extend(em);
    }
    d
}

/// reduced gadget-shape set shared by the composite operations (trace, packing, conversions)
pub fn composite_shapes(tier: Tier, n: usize, ranks: &[usize]) -> Vec<Shape> {
    let mut out = vec![];
    let triples: Vec<(usize, usize, usize)> = tier.pick(vec![(12, 12, 12), (10, 12, 8)], vec![(12, 12, 12), (17, 17, 17), (12, 17, 12), (10, 12, 8), (17, 10, 12), (5, 15, 10), (15, 5, 10)]);
    let noises: Vec<NoiseCfg> = tier.pick(vec![NoiseCfg::Default], vec![NoiseCfg::Default, NoiseCfg::Tight]);
    for (b_in, b_key, b_out) in triples {
        for &rank in ranks {
            for dsize in 1..=tier.pick(3, 4) {
                for a_size in tier.pick(vec![3, 4], vec![2, 3, 4, 5]) {
                    let a_conv = if b_in == b_key { a_size } else { (a_size * b_in).div_ceil(b_key) };
                    let needed = a_conv.div_ceil(dsize);
                    // key above the ciphertext precision (the configuration the operation is meant for), dnum equal or one more
                    for (dnum, rel) in [(needed, "equal"), (needed + 1, "more")] {
                        if rel == "more" && !tier.is_thorough() {
                            continue;
                        }
                        let min_size = (dnum * dsize).max(dsize + 1);
                        let k_key = (a_conv * b_key + dsize * b_key + 1).max(min_size * b_key);
                        let res_size = (a_size * b_in).div_ceil(b_out);
                        for &noise in &noises {
                            out.push(Shape {
                                n,
                                rank_in: rank,
                                rank_out: rank,
                                dsize,
                                a_size,
                                dnum,
                                dnum_rel: rel.into(),
                                k_key,
                                kprec: "above".into(),
                                b_in,
                                b_key,
                                b_out,
                                res_size,
                                res_rel: "equal".into(),
                                noise,
                            });
                        }
                    }
                }
            }
        }
    }
    out.sort_by_key(|s| (s.rank_in, s.dsize, s.a_size, s.b_in != s.b_key || s.b_key != s.b_out));
    out
}

/// every combination of (input, key, result) radices over {16,17}: in particular input != key == result and
/// input == result != key, which decide independently how the input and the result are converted
pub fn radix_cube_shapes(tier: Tier, n: usize, ranks: &[usize]) -> Vec<Shape> {
    let mut out = vec![];
    for b_in in [16usize, 17] {
        for b_key in [16usize, 17] {
            for b_out in [16usize, 17] {
                for &rank in ranks {
                    for dsize in 1..=tier.pick(2, 3) {
                        let a_size = 3usize;
                        let a_conv = if b_in == b_key { a_size } else { (a_size * b_in).div_ceil(b_key) };
                        let dnum = a_conv.div_ceil(dsize);
                        let min_size = (dnum * dsize).max(dsize + 1);
                        out.push(Shape {
                            n,
                            rank_in: rank,
                            rank_out: rank,
                            dsize,
                            a_size,
                            dnum,
                            dnum_rel: "equal".into(),
                            k_key: (a_conv * b_key + dsize * b_key + 1).max(min_size * b_key),
                            kprec: "above".into(),
                            b_in,
                            b_key,
                            b_out,
                            res_size: (a_size * b_in).div_ceil(b_out),
                            res_rel: "equal".into(),
                            noise: NoiseCfg::Default,
                        });
                    }
                }
            }
        }
    }
    out
}

fn log2n(n: usize) -> usize {
    n.trailing_zeros() as usize
}

// ---------------------------------------------------------------------------------------------
// trace
// ---------------------------------------------------------------------------------------------

#[derive(Clone, Debug, Serialize, Deserialize)]
pub struct TraceCase {
    pub op: String, // glwe_trace | glwe_trace_assign
    pub backend: String,
    pub shape: Shape,
}

/// projection onto the coefficients fixed by the sub-group used from level `skip` on: multiples of N / 2^skip
pub fn trace_image(p: &[IBig], skip: usize) -> Vec<IBig> {
    let n = p.len();
    let step = n >> skip; // skip = 0 -> only index 0
    p.iter().enumerate().map(|(i, x)| if i % step.max(1) == 0 && (skip > 0 || i == 0) { x.clone() } else { IBig::from(0) }).collect()
}

pub fn exec_trace<B: Bk>(c: &TraceCase, only_skip: Option<usize>, seed: u64, tier: Tier, rec: &mut Rec)
where
    Module<B>: HalAll<B> + CoreAll<B>,
    Scratch<B>: ScratchTakeCore<B>,
{
    let s = &c.shape;
    let n = s.n;
    let rank = s.rank_in;
    let log_n = log2n(n);
    let assign = c.op == "glwe_trace_assign";
    let m = B::module(n);
    let tag = fnv(format!("{:?}", c).as_bytes()) ^ seed;
    rec.distinct(tag);
    rec.sample(|| serde_json::to_value(c).unwrap());
    let mut scr = Scr::new(2 * MIB, 0);
    let sk = glwe_sk::<B>(&m, n, rank, Dist::TernaryProb, seed32(tag, 1));
    let gs = m.glwe_trace_galois_elements();
    let keys = match make_auto_keys::<B>(&m, &sk, &gs, s, &mut scr, tag) {
        Ok(k) => k,
        Err((kind, e)) => {
            rec.fail(mk_desc(&c.op, B::NAME, &kind, c, s, json!({}), e));
            return;
        }
    };
    let e2 = noise_e2(&noise_infos(s.noise, s.k_key));
    let a_lay = glwe_layout(n, s.b_in, s.k_in(), rank);
    let r_lay = glwe_layout(n, s.b_out, s.k_out(), rank);
    let key_lay = keys.values().next().unwrap().gglwe_layout();
    let tmp = m.glwe_trace_tmp_bytes(&r_lay, &a_lay, &key_lay);
    let hot = tmp + HOT_SLACK;
    // working size of the levels (key radix)
    let k_work = if assign { s.a_size * s.b_in } else { (s.a_size * s.b_in).max(s.res_size * s.b_out) };
    let s_work = k_work.div_ceil(s.b_key);
    let lvl = level_bound(s, s.b_key, s_work, 1, e2);
    let msgs: Vec<Msg> = tier.pick(vec![Msg::Ramp, Msg::MinNeg], vec![Msg::Ramp, Msg::MaxPos, Msg::MinNeg, Msg::Alt, Msg::Random(0)]);

    for skip in 0..=log_n {
        if let Some(o) = only_skip {
            if o != skip {
                continue;
            }
        }
        let levels = (log_n - skip) as u64;
        let mut bound = lvl.times(levels);
        bound.plus(&ulp_phase(n, rank, s.res_size, s.b_out, "result_rounding"));
        if s_work * s.b_key < s.a_size * s.b_in {
            bound.plus(&ulp_phase(n, rank, s_work, s.b_key, "input_conversion"));
        }
        let mut total = bound.clone();
        total.add_u(noise_e2(&noise_infos(s.noise, s.k_in())), s.k_in() + 1, "input_noise");
        let kp = pick_kp(&total, 8.min(s.b_in));
        rec.add(if kp.is_some() { "cases_with_rounded_plaintext_check" } else { "cases_bound_only" }, 1);
        let mut ins: Vec<(String, GLWE<Vec<u8>>, Option<Vec<i64>>)> = vec![];
        for mc in &msgs {
            let kpp = kp.unwrap_or(1);
            let mv = message(*mc, n, kpp, seed);
            match encrypt_msg::<B>(&m, n, s.b_in, s.k_in(), rank, &sk, &mv, kpp, s.noise, &mut scr, tag ^ fnv(format!("{mc:?}").as_bytes())) {
                Ok(ct) => ins.push((format!("Enc({mc:?})"), ct, kp.map(|_| mv))),
                Err(p) => rec.fail(mk_desc(&c.op, B::NAME, "panic", c, s, json!({"skip": skip}), json!({"stage": "input_encrypt", "panic": p}))),
            }
        }
        for rc in tier.pick(vec![Raw::Alt], vec![Raw::Alt, Raw::MinNeg, Raw::Random(0)]) {
            let mut ct = glwe_zeroed(n, s.b_in, s.k_in(), rank);
            fill_raw(ct.data_mut(), s.b_in, rc, seed);
            ins.push((format!("Raw({rc:?})"), ct, None));
        }
        for (name, ct_in, msg) in &ins {
            let inner = json!({"skip": skip, "input": name});
            let (p_in, bits_in) = glwe_phase(ct_in, &sk.clear);
            let want = trace_image(&p_in, skip);
            let call = |scr: &mut Scr, fill: usize| -> Result<GLWE<Vec<u8>>, String> {
                let mut res = if assign { glwe_clone(ct_in) } else { garbage_glwe(n, s.b_out, s.k_out(), rank, fill) };
                scr.fill_prefix(fill, hot);
                guarded(|| {
                    if assign {
                        m.glwe_trace_assign(&mut res, skip, &keys, scr.get::<B>())
                    } else {
                        m.glwe_trace(&mut res, skip, ct_in, &keys, scr.get::<B>())
                    }
                })?;
                Ok(res)
            };
            let fill = (fnv(name.as_bytes()) % 2) as usize;
            let r = call(&mut scr, fill);
            rec.evals(1);
            let verdict = |res: &GLWE<Vec<u8>>| -> Result<(), (String, Value)> {
                let (p_out, bits_out) = glwe_phase(res, &sk.clear);
                let (worst, wi, tot) = worst_err(&p_out, bits_out, &want, bits_in);
                let limit = bound.at(tot);
                if worst > limit {
                    return Err((
                        "noise_too_large".into(),
                        json!({"index": wi, "err_log2": log2_of(&worst, tot), "bound_log2": log2_of(&limit, tot), "bound_terms": bound.describe()}),
                    ));
                }
                if let (Some(mv), Some(kpp)) = (msg, kp) {
                    let big: Vec<IBig> = mv.iter().map(|&x| IBig::from(x)).collect();
                    let want_m: Vec<i64> = trace_image(&big, skip).iter().map(|x| i64::try_from(x.clone()).unwrap()).collect();
                    let got_m: Vec<i64> = p_out.iter().map(|x| round_to(x, bits_out, kpp)).collect();
                    if got_m != want_m {
                        return Err(("wrong_plaintext".into(), json!({"kp": kpp, "got": got_m, "want": want_m})));
                    }
                }
                Ok(())
            };
            let first: Result<(), (String, Value)> = match &r {
                Ok(res) => {
                    rec.outcome(hash_vec(res.data()));
                    verdict(res)
                }
                Err(p) => Err(("panic".into(), json!({"panic": p}))),
            };
            if let Err((kind, mut extra)) = first {
                let clean = call(&mut scr, 2).ok().map(|r2| verdict(&r2).is_ok()).unwrap_or(false);
                if let Value::Object(em) = &mut extra {
                    em.insert("scratch_fill".into(), json!(fill));
                    em.insert("symptom".into(), json!(kind));
                    em.insert("holds_with_zero_filled_scratch".into(), json!(clean));
                    em.insert("skip".into(), json!(skip));
                }
                rec.fail(mk_desc(&c.op, B::NAME, if clean { "scratch_dependent_result" } else { &kind }, c, s, inner, extra));
            }
        }
    }
}

pub fn trace_cases<B: Bk>(tier: Tier) -> Vec<TraceCase> {
    let mut out = vec![];
    for n in tier.pick(vec![8, 16], vec![8, 16, 32]) {
        for op in ["glwe_trace", "glwe_trace_assign"] {
            let ranks = tier.pick(vec![1, 2], vec![1, 2, 3]);
            let mut all = composite_shapes(tier, n, &ranks);
            if n <= 16 {
                all.extend(radix_cube_shapes(tier, n, &ranks));
            }
            for mut shape in all {
                if op == "glwe_trace_assign" {
                    if shape.b_in != shape.b_out {
                        continue;
                    }
                    shape.res_size = shape.a_size;
                } else if tier.is_thorough() {
                    // result shorter / longer than the input too
                    for (rs, rel) in [(shape.res_size.saturating_sub(1).max(1), "shorter"), (shape.res_size + 2, "longer")] {
                        let mut s2 = shape.clone();
                        s2.res_size = rs;
                        s2.res_rel = rel.into();
                        out.push(TraceCase {
                            op: op.into(),
                            backend: B::NAME.into(),
                            shape: s2,
                        });
                    }
                }
                out.push(TraceCase {
                    op: op.into(),
                    backend: B::NAME.into(),
                    shape,
                });
            }
        }
    }
    out
}

// ---------------------------------------------------------------------------------------------
// packing: glwe_pack
// ---------------------------------------------------------------------------------------------

#[derive(Clone, Debug, Serialize, Deserialize)]
pub struct PackCase {
    pub op: String, // glwe_pack | glwe_packer
    pub backend: String,
    pub shape: Shape,
    /// glwe_pack: log_gap_out ; packer: log_batch
    pub log_gap: usize,
    /// explicit subsets (bit t = slot t); empty = every subset of the slots
    pub subsets: Vec<u64>,
    /// packer only: radix of the accumulators (None: the inputs' radix)
    #[serde(default)]
    pub b_acc: Option<usize>,
}

fn structured_subsets(slots: usize) -> Vec<u64> {
    let full: u64 = if slots == 64 { u64::MAX } else { (1u64 << slots) - 1 };
    let mut v: Vec<u64> = vec![full, 1, 1 << (slots - 1), full & 0x5555_5555_5555_5555, full & 0xAAAA_AAAA_AAAA_AAAA, full & !1, full >> (slots / 2)];
    for t in 0..slots {
        v.push(1 << t);
        v.push(full & !(1 << t));
    }
    v.sort();
    v.dedup();
    v.retain(|x| *x != 0);
    v
}

fn bitrev(x: usize, bits: usize) -> usize {
    if bits == 0 { 0 } else { x.reverse_bits() >> (usize::BITS as usize - bits) }
}

pub fn exec_pack<B: Bk>(c: &PackCase, only_subset: Option<u64>, seed: u64, rec: &mut Rec)
where
    Module<B>: HalAll<B> + CoreAll<B>,
    Scratch<B>: ScratchTakeCore<B>,
{
    let s = &c.shape;
    let n = s.n;
    let rank = s.rank_in;
    let log_n = log2n(n);
    let packer = c.op == "glwe_packer";
    let m = B::module(n);
    let tag = fnv(format!("{:?}{:?}{}{}", c.op, c.shape, c.log_gap, c.backend).as_bytes()) ^ seed;
    rec.distinct(tag);
    rec.sample(|| serde_json::to_value(c).unwrap());
    let mut scr = Scr::new(2 * MIB, 0);
    let sk = glwe_sk::<B>(&m, n, rank, Dist::TernaryProb, seed32(tag, 1));
    let gs = if packer { glwe_packer_galois_elements(&m) } else { m.glwe_pack_galois_elements() };
    let keys = match make_auto_keys::<B>(&m, &sk, &gs, s, &mut scr, tag) {
        Ok(k) => k,
        Err((kind, e)) => {
            rec.fail(mk_desc(&c.op, B::NAME, &kind, c, s, json!({}), e));
            return;
        }
    };
    let e2 = noise_e2(&noise_infos(s.noise, s.k_key));
    let ct_lay = glwe_layout(n, s.b_in, s.k_in(), rank);
    let r_lay = glwe_layout(n, s.b_out, s.k_out(), rank);
    let key_lay = keys.values().next().unwrap().gglwe_layout();
    // packer accumulators: own radix, at least the precision of the inputs
    let b_acc = c.b_acc.unwrap_or(s.b_in);
    let acc_size = (s.a_size * s.b_in).div_ceil(b_acc);
    let acc_lay = glwe_layout(n, b_acc, if b_acc == s.b_in { s.k_in() } else { acc_size * b_acc }, rank);
    let tmp = if packer { glwe_packer_tmp_bytes(&m, &acc_lay, &key_lay) } else { m.glwe_pack_tmp_bytes(&r_lay, &key_lay).max(m.glwe_pack_tmp_bytes(&ct_lay, &key_lay)) };
    let hot = tmp + HOT_SLACK;

    // number of slots and their coefficient positions
    let (slots, levels_pack): (usize, usize) = if packer { (n >> c.log_gap, log_n - c.log_gap) } else { (n >> c.log_gap, log_n - c.log_gap) };
    // per-level bounds: in the ciphertext radix (pack levels) and in the key radix (trace levels of glwe_pack)
    let lvl_ct = if packer { level_bound(s, b_acc, acc_size, 2, e2) } else { level_bound(s, s.b_in, s.a_size, 2, e2) };
    let k_work = (s.a_size * s.b_in).max(s.res_size * s.b_out);
    let lvl_tr = level_bound(s, s.b_key, k_work.div_ceil(s.b_key), 1, e2);
    let mut bound = lvl_ct.times(levels_pack as u64);
    if !packer {
        bound.plus(&lvl_tr.times(c.log_gap as u64));
    }
    bound.plus(&ulp_phase(n, rank, s.res_size, s.b_out, "result_rounding"));
    let mut total = bound.clone();
    total.add_u(noise_e2(&noise_infos(s.noise, s.k_in())), s.k_in() + 1, "input_noise");
    let kp = pick_kp(&total, 8.min(s.b_in));
    rec.add(if kp.is_some() { "cases_with_rounded_plaintext_check" } else { "cases_bound_only" }, 1);
    let kpp = kp.unwrap_or(1);

    // one ciphertext per slot: random message whose relevant coefficients are extreme for even slots
    let mut cts: Vec<GLWE<Vec<u8>>> = vec![];
    let mut msgs: Vec<Vec<i64>> = vec![];
    let mut phases: Vec<(Vec<IBig>, usize)> = vec![];
    for t in 0..slots {
        let mut mv = message(Msg::Random(t as u8), n, kpp, seed ^ (t as u64) << 8);
        let ext = message(if t % 4 == 0 { Msg::MinNeg } else { Msg::MaxPos }, n, kpp, 0);
        if t % 2 == 0 {
            for (i, x) in mv.iter_mut().enumerate() {
                if i % (n >> if packer { c.log_gap } else { 0 }).max(1) == 0 {
                    *x = ext[i];
                }
            }
        }
        match encrypt_msg::<B>(&m, n, s.b_in, s.k_in(), rank, &sk, &mv, kpp, s.noise, &mut scr, tag ^ (t as u64 + 1) * 7919) {
            Ok(ct) => {
                phases.push(glwe_phase(&ct, &sk.clear));
                cts.push(ct);
                msgs.push(mv);
            }
            Err(p) => {
                rec.fail(mk_desc(&c.op, B::NAME, "panic", c, s, json!({"slot": t}), json!({"stage": "input_encrypt", "panic": p})));
                return;
            }
        }
    }
    let mut subsets: Vec<u64> = if c.subsets.is_empty() { (if packer { 0 } else { 1 }..(1u64 << slots)).collect() } else { c.subsets.clone() };
    if packer && only_subset.is_none() {
        // the empty packing once more AFTER non-empty ones: the re-used packer must not hand back an earlier result
        subsets.push(0);
    }
    let mut pk = if packer { Some(GLWEPacker::alloc(&acc_lay, c.log_gap)) } else { None };
    // expected image: (slot t, coefficient u of that slot's ciphertext) -> result position
    let place = |t: usize, u: usize| -> usize {
        if packer {
            // add number t lands bit-reversed; each ciphertext carries its coefficients at multiples of 2^L
            let l = log_n - c.log_gap;
            (u << l) + bitrev(t, l)
        } else {
            let _ = u;
            t << c.log_gap
        }
    };
    let per_slot = if packer { 1usize << c.log_gap } else { 1 };
    for &sub in &subsets {
        if let Some(o) = only_subset {
            if o != sub {
                continue;
            }
        }
        let inner = json!({"subset": sub});
        let mut want: Vec<IBig> = vec![IBig::from(0); n];
        let wbits = phases[0].1;
        let mut want_m: Vec<i64> = vec![0; n];
        for t in 0..slots {
            if sub >> t & 1 == 1 {
                for u in 0..per_slot {
                    let src = if packer { u << (log_n - c.log_gap) } else { 0 };
                    want[place(t, u)] = phases[t].0[src].clone();
                    want_m[place(t, u)] = msgs[t][src];
                }
            }
        }
        let call = |scr: &mut Scr, fill: usize, pk: &mut Option<GLWEPacker>| -> Result<GLWE<Vec<u8>>, String> {
            let mut res = garbage_glwe(n, s.b_out, s.k_out(), rank, fill);
            if let Some(p) = pk.as_mut() {
                for t in 0..slots {
                    scr.fill_prefix(fill, hot);
                    guarded(|| {
                        if sub >> t & 1 == 1 {
                            glwe_packer_add(&m, p, Some(&cts[t]), &keys, scr.get::<B>())
                        } else {
                            glwe_packer_add(&m, p, None::<&GLWE<Vec<u8>>>, &keys, scr.get::<B>())
                        }
                    })
                    .map_err(|e| format!("packer_add #{t}: {e}"))?;
                }
                scr.fill_prefix(fill, hot);
                guarded(|| glwe_packer_flush(&m, p, &mut res, scr.get::<B>())).map_err(|e| format!("packer_flush: {e}"))?;
            } else {
                // glwe_pack consumes (mutates) its inputs: work on copies
                let mut work: Vec<(usize, GLWE<Vec<u8>>)> = (0..slots).filter(|t| sub >> t & 1 == 1).map(|t| (t << c.log_gap, glwe_clone(&cts[t]))).collect();
                let map: HashMap<usize, &mut GLWE<Vec<u8>>> = work.iter_mut().map(|(i, ct)| (*i, ct)).collect();
                scr.fill_prefix(fill, hot);
                guarded(|| m.glwe_pack(&mut res, map, c.log_gap, &keys, scr.get::<B>()))?;
            }
            Ok(res)
        };
        let fill = (sub % 2) as usize;
        let r = call(&mut scr, fill, &mut pk);
        rec.evals(1);
        let verdict = |res: &GLWE<Vec<u8>>| -> Result<(), (String, Value)> {
            let (p_out, bits_out) = glwe_phase(res, &sk.clear);
            let (worst, wi, tot) = worst_err(&p_out, bits_out, &want, wbits);
            let limit = bound.at(tot);
            if worst > limit {
                return Err((
                    "noise_too_large".into(),
                    json!({"index": wi, "err_log2": log2_of(&worst, tot), "bound_log2": log2_of(&limit, tot), "bound_terms": bound.describe()}),
                ));
            }
            if kp.is_some() {
                let got_m: Vec<i64> = p_out.iter().map(|x| round_to(x, bits_out, kpp)).collect();
                if got_m != want_m {
                    return Err(("wrong_plaintext".into(), json!({"kp": kpp, "got": got_m, "want": want_m})));
                }
            }
            Ok(())
        };
        let first = match &r {
            Ok(res) => {
                rec.outcome(hash_vec(res.data()));
                verdict(res)
            }
            Err(p) => Err(("panic".into(), json!({"panic": p}))),
        };
        if let Err((kind, mut extra)) = first {
            // a panicking packer is left in an undefined state: start from a fresh one
            if r.is_err() && packer {
                pk = Some(GLWEPacker::alloc(&acc_lay, c.log_gap));
            }
            // classification: fresh packer + same garbage -> the failure came from the packer's history;
            //                 fresh packer + zero-filled scratch -> it came from the scratch contents
            let mut fresh_a = if packer { Some(GLWEPacker::alloc(&acc_lay, c.log_gap)) } else { None };
            let state_dep = packer && call(&mut scr, fill, &mut fresh_a).ok().map(|r2| verdict(&r2).is_ok()).unwrap_or(false);
            let mut fresh = if packer { Some(GLWEPacker::alloc(&acc_lay, c.log_gap)) } else { None };
            let clean = call(&mut scr, 2, &mut fresh).ok().map(|r2| verdict(&r2).is_ok()).unwrap_or(false);
            let kind_out: String = if state_dep {
                "stale_state_result".into()
            } else if clean {
                "scratch_dependent_result".into()
            } else {
                kind.clone()
            };
            if let Value::Object(em) = &mut extra {
                em.insert("scratch_fill".into(), json!(fill));
                em.insert("symptom".into(), json!(kind));
                em.insert("holds_with_fresh_packer".into(), json!(state_dep));
                em.insert("holds_with_zero_filled_scratch_and_fresh_state".into(), json!(clean));
                em.insert("subset_empty".into(), json!(sub == 0));
                em.insert("acc_radix_differs".into(), json!(packer && b_acc != s.b_in));
                em.insert("subset_size".into(), json!(sub.count_ones()));
                em.insert("log_gap".into(), json!(c.log_gap));
            }
            rec.fail(mk_desc(&c.op, B::NAME, &kind_out, c, s, inner, extra));
        }
    }
}

pub fn pack_cases<B: Bk>(tier: Tier, op: &str) -> Vec<PackCase> {
    let mut out = vec![];
    for n in [8usize, 16] {
        let log_n = log2n(n);
        let ranks = tier.pick(vec![1, 2], vec![1, 2, 3]);
        let shapes = composite_shapes(tier, n, &ranks);
        // independent (input, key, result) radices; for the packer also the accumulator radix (= input or = key)
        if n == 8 || tier.is_thorough() {
            for shape in radix_cube_shapes(tier, n, &ranks) {
                let gaps: Vec<usize> = if op == "glwe_packer" { vec![0, 1] } else { vec![0, 1, log_n] };
                for gap in gaps {
                    let slots = n >> gap;
                    let mut subsets = structured_subsets(slots);
                    subsets.truncate(tier.pick(4, 12));
                    let accs: Vec<Option<usize>> = if op == "glwe_packer" { vec![None, Some(shape.b_key)] } else { vec![None] };
                    for b_acc in accs {
                        if b_acc == Some(shape.b_in) {
                            continue;
                        }
                        out.push(PackCase {
                            op: op.into(),
                            backend: B::NAME.into(),
                            shape: shape.clone(),
                            log_gap: gap,
                            subsets: subsets.clone(),
                            b_acc,
                        });
                    }
                }
            }
        }
        for (si, shape) in shapes.iter().enumerate() {
            // log_gap_out 0..=log_n for glwe_pack; log_batch 0..log_n-1 for the packer (it needs one accumulator)
            let gaps: Vec<usize> = if op == "glwe_packer" { (0..log_n).collect() } else { (0..=log_n).collect() };
            for gap in gaps {
                let slots = n >> gap;
                // N = 8: every subset (the quick tier rotates the shapes carrying the complete 2^8 enumeration)
                let all = n == 8 && (tier.is_thorough() || gap > 0 || si % 6 == 0);
                let subsets = if all {
                    vec![]
                } else {
                    let mut v = structured_subsets(slots);
                    if op == "glwe_packer" {
                        v.insert(0, 0);
                    }
                    if !tier.is_thorough() {
                        v.truncate(8);
                    }
                    v
                };
                out.push(PackCase {
                    op: op.into(),
                    backend: B::NAME.into(),
                    shape: shape.clone(),
                    log_gap: gap,
                    subsets,
                    b_acc: None,
                });
            }
        }
    }
    out
}

// ---------------------------------------------------------------------------------------------
// LWE key switch, LWE <-> GLWE, sample extraction
// ---------------------------------------------------------------------------------------------

#[derive(Clone, Debug, Serialize, Deserialize)]
pub struct LweCase {
    pub op: String, // lwe_keyswitch | glwe_from_lwe | lwe_from_glwe | lwe_sample_extract
    pub backend: String,
    pub n: usize,
    pub n_lwe_in: usize,
    pub n_lwe_out: usize,
    /// GLWE rank (glwe_from_lwe: output rank, lwe_from_glwe: input rank)
    pub rank: usize,
    pub a_size: usize,
    pub res_size: usize,
    pub dnum: usize,
    pub dnum_rel: String,
    pub k_key: usize,
    pub b_in: usize,
    pub b_key: usize,
    pub b_out: usize,
    pub noise: NoiseCfg,
}

fn lwe_raw(n: usize, b: usize, k: usize, r: Raw, seed: u64) -> LWE<Vec<u8>> {
    let mut ct = LWE::alloc((n as u32).into(), (b as u32).into(), (k as u32).into());
    fill_raw(ct.data_mut(), b, r, seed);
    ct
}

pub fn exec_lwe<B: Bk>(c: &LweCase, seed: u64, tier: Tier, rec: &mut Rec)
where
    Module<B>: HalAll<B> + CoreAll<B>,
    Scratch<B>: ScratchTakeCore<B>,
{
    let n = c.n;
    let m = B::module(n);
    let tag = fnv(format!("{:?}", c).as_bytes()) ^ seed;
    rec.distinct(tag);
    rec.sample(|| serde_json::to_value(c).unwrap());
    let mut scr = Scr::new(2 * MIB, 0);
    let (rank_in, rank_out) = match c.op.as_str() {
        "glwe_from_lwe" => (1, c.rank),
        "lwe_from_glwe" => (c.rank, 1),
        _ => (1, 1),
    };
    let shape = Shape {
        n,
        rank_in,
        rank_out,
        dsize: 1,
        a_size: c.a_size,
        dnum: c.dnum,
        dnum_rel: c.dnum_rel.clone(),
        k_key: c.k_key,
        kprec: "above".into(),
        b_in: c.b_in,
        b_key: c.b_key,
        b_out: c.b_out,
        res_size: c.res_size,
        res_rel: "equal".into(),
        noise: c.noise,
    };
    let s = &shape;
    let k_in = c.a_size * c.b_in;
    let k_out = c.res_size * c.b_out;
    let noise_key = noise_infos(c.noise, c.k_key);
    let e2 = noise_e2(&noise_key);
    let mut xe = Source::new(seed32(tag, 3));
    let mut xa = Source::new(seed32(tag, 4));
    let fail = |rec: &mut Rec, kind: &str, inner: Value, extra: Value| rec.fail(mk_desc(&c.op, B::NAME, kind, c, s, inner, extra));
    let raws: Vec<Raw> = tier.pick(vec![Raw::Alt, Raw::MinNeg, Raw::Random(0)], RAWS_FULL.to_vec());
    let bound = s.bound(e2, 0);

    match c.op.as_str() {
        "lwe_sample_extract" => {
            // noise-free: the LWE secret s_l corresponds to the GLWE secret s_g(X) = sum_i s_l[i] X^-i
            let sl = lwe_sk(c.n_lwe_out, Dist::TernaryProb, seed32(tag, 1));
            let mut sg = vec![0i64; n];
            for (i, &x) in sl.clear.iter().enumerate() {
                if i == 0 {
                    sg[0] = x;
                } else {
                    sg[n - i] = -x;
                }
            }
            for rc in &raws {
                let mut a = glwe_zeroed(n, c.b_in, k_in, 1);
                fill_raw(a.data_mut(), c.b_in, *rc, seed);
                let mut res = LWE::alloc((c.n_lwe_out as u32).into(), (c.b_in as u32).into(), (k_out as u32).into());
                pvc_engine::rng::garbage(res.data_mut().data.as_mut_slice(), 0);
                let r = guarded(|| m.lwe_sample_extract(&mut res, &a));
                rec.evals(1);
                let inner = json!({"input": format!("{rc:?}")});
                if let Err(p) = r {
                    fail(rec, "panic", inner, json!({"panic": p}));
                    continue;
                }
                // oracle on the GLWE truncated to the limbs the LWE keeps (exact), mask restricted to n_lwe coefficients
                let (pl, bl) = lwe_phase(&res, &sl.clear);
                let keep = c.res_size.min(c.a_size);
                let mut at = glwe_zeroed(n, c.b_in, keep * c.b_in, 1);
                for j in 0..keep {
                    at.data_mut().at_mut(0, j).copy_from_slice(a.data().at(0, j));
                    at.data_mut().at_mut(1, j)[..c.n_lwe_out].copy_from_slice(&a.data().at(1, j)[..c.n_lwe_out]);
                }
                let (pg, bg) = glwe_phase(&at, &[sg.clone()]);
                let (d, _) = terr(&pl, bl, &pg[0], bg);
                if d != IBig::from(0) {
                    fail(rec, "wrong_value", inner, json!({"err_log2": log2_of(&d, bl.max(bg))}));
                }
            }
        }
        "lwe_keyswitch" => {
            let s_in = lwe_sk(c.n_lwe_in, Dist::TernaryProb, seed32(tag, 1));
            let s_out = lwe_sk(c.n_lwe_out, Dist::TernaryProb, seed32(tag, 2));
            let lay = LWESwitchingKeyLayout {
                n: (n as u32).into(),
                base2k: (c.b_key as u32).into(),
                k: (c.k_key as u32).into(),
                dnum: (c.dnum as u32).into(),
            };
            let mut ksk = LWESwitchingKey::alloc_from_infos(&lay);
            scr.fill_prefix(0, SETUP_HOT);
            if let Err(p) = guarded(|| m.lwe_switching_key_encrypt_sk(&mut ksk, &s_in.sk, &s_out.sk, &noise_key, &mut xe, &mut xa, scr.get::<B>())) {
                fail(rec, "panic", json!({"stage": "key_encrypt"}), json!({"panic": p}));
                return;
            }
            let mut prep = m.lwe_switching_key_prepared_alloc_from_infos(&ksk);
            scr.fill_prefix(0, SETUP_HOT);
            if let Err(p) = guarded(|| m.lwe_switching_key_prepare(&mut prep, &ksk, scr.get::<B>())) {
                fail(rec, "panic", json!({"stage": "key_prepare"}), json!({"panic": p}));
                return;
            }
            let a_lay = LWELayout {
                n: (c.n_lwe_in as u32).into(),
                base2k: (c.b_in as u32).into(),
                k: (k_in as u32).into(),
            };
            let r_lay = LWELayout {
                n: (c.n_lwe_out as u32).into(),
                base2k: (c.b_out as u32).into(),
                k: (k_out as u32).into(),
            };
            let hot = m.lwe_keyswitch_tmp_bytes(&r_lay, &a_lay, &lay) + HOT_SLACK;
            // inputs: raw classes + one library encryption
            let mut ins: Vec<(String, LWE<Vec<u8>>)> = raws.iter().map(|r| (format!("Raw({r:?})"), lwe_raw(c.n_lwe_in, c.b_in, k_in, *r, seed))).collect();
            {
                let mut ct = LWE::alloc_from_infos(&a_lay);
                let mut pt = LWEPlaintext::alloc((c.b_in as u32).into(), (k_in as u32).into());
                pt.data_mut().at_mut(0, 0)[0] = -(1i64 << (c.b_in - 1));
                let ni = noise_infos(c.noise, k_in);
                scr.fill_prefix(0, SETUP_HOT);
                match guarded(|| m.lwe_encrypt_sk(&mut ct, &pt, &s_in.sk, &ni, &mut xe, &mut xa, scr.get::<B>())) {
                    Ok(()) => ins.push(("Enc(MinNeg)".into(), ct)),
                    Err(p) => fail(rec, "panic", json!({"stage": "input_encrypt"}), json!({"panic": p})),
                }
            }
            for (name, a) in &ins {
                let inner = json!({"input": name});
                let (p_in, bits_in) = lwe_phase(a, &s_in.clear);
                let call = |scr: &mut Scr, fill: usize| -> Result<LWE<Vec<u8>>, String> {
                    let mut res = LWE::alloc_from_infos(&r_lay);
                    pvc_engine::rng::garbage(res.data_mut().data.as_mut_slice(), fill);
                    scr.fill_prefix(fill, hot);
                    guarded(|| m.lwe_keyswitch(&mut res, a, &prep, scr.get::<B>()))?;
                    Ok(res)
                };
                let verdict = |res: &LWE<Vec<u8>>| -> Result<(), (String, Value)> {
                    let (p_out, bits_out) = lwe_phase(res, &s_out.clear);
                    let (d, tot) = terr(&p_out, bits_out, &p_in, bits_in);
                    let d = ibig_abs(&d);
                    let limit = bound.at(tot);
                    if d > limit {
                        return Err((
                            "noise_too_large".into(),
                            json!({"err_log2": log2_of(&d, tot), "bound_log2": log2_of(&limit, tot), "bound_terms": bound.describe()}),
                        ));
                    }
                    Ok(())
                };
                let fill = (fnv(name.as_bytes()) % 2) as usize;
                let r = call(&mut scr, fill);
                rec.evals(1);
                let first = match &r {
                    Ok(res) => verdict(res),
                    Err(p) => Err(("panic".into(), json!({"panic": p}))),
                };
                if let Err((kind, mut extra)) = first {
                    let clean = call(&mut scr, 2).ok().map(|r2| verdict(&r2).is_ok()).unwrap_or(false);
                    if let Value::Object(em) = &mut extra {
                        em.insert("scratch_fill".into(), json!(fill));
                        em.insert("symptom".into(), json!(kind));
                        em.insert("holds_with_zero_filled_scratch".into(), json!(clean));
                    }
                    fail(rec, if clean { "scratch_dependent_result" } else { &kind }, inner, extra);
                }
            }
        }
        "glwe_from_lwe" => {
            let s_l = lwe_sk(c.n_lwe_in, Dist::TernaryProb, seed32(tag, 1));
            let s_g = glwe_sk::<B>(&m, n, c.rank, Dist::TernaryProb, seed32(tag, 2));
            let lay = LWEToGLWEKeyLayout {
                n: (n as u32).into(),
                base2k: (c.b_key as u32).into(),
                k: (c.k_key as u32).into(),
                rank_out: (c.rank as u32).into(),
                dnum: (c.dnum as u32).into(),
            };
            let mut ksk = LWEToGLWEKey::alloc_from_infos(&lay);
            scr.fill_prefix(0, SETUP_HOT);
            if let Err(p) = guarded(|| m.lwe_to_glwe_key_encrypt_sk(&mut ksk, &s_l.sk, &s_g.prep, &noise_key, &mut xe, &mut xa, scr.get::<B>())) {
                fail(rec, "panic", json!({"stage": "key_encrypt"}), json!({"panic": p}));
                return;
            }
            let mut prep = m.lwe_to_glwe_key_prepared_alloc_from_infos(&ksk);
            scr.fill_prefix(0, SETUP_HOT);
            if let Err(p) = guarded(|| m.lwe_to_glwe_key_prepare(&mut prep, &ksk, scr.get::<B>())) {
                fail(rec, "panic", json!({"stage": "key_prepare"}), json!({"panic": p}));
                return;
            }
            let a_lay = LWELayout {
                n: (c.n_lwe_in as u32).into(),
                base2k: (c.b_in as u32).into(),
                k: (k_in as u32).into(),
            };
            let r_lay = glwe_layout(n, c.b_out, k_out, c.rank);
            let hot = m.glwe_from_lwe_tmp_bytes(&r_lay, &a_lay, &lay) + HOT_SLACK;
            for rc in &raws {
                let a = lwe_raw(c.n_lwe_in, c.b_in, k_in, *rc, seed);
                let inner = json!({"input": format!("Raw({rc:?})")});
                let (p_in, bits_in) = lwe_phase(&a, &s_l.clear);
                let call = |scr: &mut Scr, fill: usize| -> Result<GLWE<Vec<u8>>, String> {
                    let mut res = garbage_glwe(n, c.b_out, k_out, c.rank, fill);
                    scr.fill_prefix(fill, hot);
                    guarded(|| m.glwe_from_lwe(&mut res, &a, &prep, scr.get::<B>()))?;
                    Ok(res)
                };
                let verdict = |res: &GLWE<Vec<u8>>| -> Result<(), (String, Value)> {
                    let (p_out, bits_out) = glwe_phase(res, &s_g.clear);
                    let (d, tot) = terr(&p_out[0], bits_out, &p_in, bits_in);
                    let d = ibig_abs(&d);
                    let limit = bound.at(tot);
                    if d > limit {
                        return Err((
                            "noise_too_large".into(),
                            json!({"err_log2": log2_of(&d, tot), "bound_log2": log2_of(&limit, tot), "bound_terms": bound.describe()}),
                        ));
                    }
                    Ok(())
                };
                let fill = (fnv(format!("{rc:?}").as_bytes()) % 2) as usize;
                let r = call(&mut scr, fill);
                rec.evals(1);
                let first = match &r {
                    Ok(res) => verdict(res),
                    Err(p) => Err(("panic".into(), json!({"panic": p}))),
                };
                if let Err((kind, mut extra)) = first {
                    let clean = call(&mut scr, 2).ok().map(|r2| verdict(&r2).is_ok()).unwrap_or(false);
                    if let Value::Object(em) = &mut extra {
                        em.insert("scratch_fill".into(), json!(fill));
                        em.insert("symptom".into(), json!(kind));
                        em.insert("holds_with_zero_filled_scratch".into(), json!(clean));
                    }
                    fail(rec, if clean { "scratch_dependent_result" } else { &kind }, inner, extra);
                }
            }
        }
        "lwe_from_glwe" => {
            let s_l = lwe_sk(c.n_lwe_out, Dist::TernaryProb, seed32(tag, 1));
            let s_g = glwe_sk::<B>(&m, n, c.rank, Dist::TernaryProb, seed32(tag, 2));
            let lay = GLWEToLWEKeyLayout {
                n: (n as u32).into(),
                base2k: (c.b_key as u32).into(),
                k: (c.k_key as u32).into(),
                rank_in: (c.rank as u32).into(),
                dnum: (c.dnum as u32).into(),
            };
            let mut ksk = GLWEToLWEKey::alloc_from_infos(&lay);
            scr.fill_prefix(0, SETUP_HOT);
            if let Err(p) = guarded(|| m.glwe_to_lwe_key_encrypt_sk(&mut ksk, &s_l.sk, &s_g.sk, &noise_key, &mut xe, &mut xa, scr.get::<B>())) {
                fail(rec, "panic", json!({"stage": "key_encrypt"}), json!({"panic": p}));
                return;
            }
            let mut prep = m.glwe_to_lwe_key_prepared_alloc_from_infos(&ksk);
            scr.fill_prefix(0, SETUP_HOT);
            if let Err(p) = guarded(|| m.glwe_to_lwe_key_prepare(&mut prep, &ksk, scr.get::<B>())) {
                fail(rec, "panic", json!({"stage": "key_prepare"}), json!({"panic": p}));
                return;
            }
            let a_lay = glwe_layout(n, c.b_in, k_in, c.rank);
            let r_lay = LWELayout {
                n: (c.n_lwe_out as u32).into(),
                base2k: (c.b_out as u32).into(),
                k: (k_out as u32).into(),
            };
            let hot = m.lwe_from_glwe_tmp_bytes(&r_lay, &a_lay, &lay) + HOT_SLACK;
            for rc in &raws {
                let mut a = glwe_zeroed(n, c.b_in, k_in, c.rank);
                fill_raw(a.data_mut(), c.b_in, *rc, seed);
                let (p_in, bits_in) = glwe_phase(&a, &s_g.clear);
                // EVERY extraction index
                for idx in 0..n {
                    let inner = json!({"input": format!("Raw({rc:?})"), "a_idx": idx});
                    let call = |scr: &mut Scr, fill: usize| -> Result<LWE<Vec<u8>>, String> {
                        let mut res = LWE::alloc_from_infos(&r_lay);
                        pvc_engine::rng::garbage(res.data_mut().data.as_mut_slice(), fill);
                        scr.fill_prefix(fill, hot);
                        guarded(|| m.lwe_from_glwe(&mut res, &a, idx, &prep, scr.get::<B>()))?;
                        Ok(res)
                    };
                    let verdict = |res: &LWE<Vec<u8>>| -> Result<(), (String, Value)> {
                        let (p_out, bits_out) = lwe_phase(res, &s_l.clear);
                        let (d, tot) = terr(&p_out, bits_out, &p_in[idx], bits_in);
                        let d = ibig_abs(&d);
                        let limit = bound.at(tot);
                        if d > limit {
                            return Err((
                                "noise_too_large".into(),
                                json!({"err_log2": log2_of(&d, tot), "bound_log2": log2_of(&limit, tot), "bound_terms": bound.describe()}),
                            ));
                        }
                        Ok(())
                    };
                    let fill = idx % 2;
                    let r = call(&mut scr, fill);
                    rec.evals(1);
                    let first = match &r {
                        Ok(res) => verdict(res),
                        Err(p) => Err(("panic".into(), json!({"panic": p}))),
                    };
                    if let Err((kind, mut extra)) = first {
                        let clean = call(&mut scr, 2).ok().map(|r2| verdict(&r2).is_ok()).unwrap_or(false);
                        if let Value::Object(em) = &mut extra {
                            em.insert("scratch_fill".into(), json!(fill));
                            em.insert("symptom".into(), json!(kind));
                            em.insert("holds_with_zero_filled_scratch".into(), json!(clean));
                        }
                        fail(rec, if clean { "scratch_dependent_result" } else { &kind }, inner, extra);
                    }
                }
            }
        }
        o => panic!("unknown op {o}"),
    }
}

pub fn lwe_cases<B: Bk>(tier: Tier) -> Vec<LweCase> {
    let mut out = vec![];
    let triples: Vec<(usize, usize, usize)> = tier.pick(vec![(12, 12, 12), (10, 12, 8)], vec![(12, 12, 12), (17, 17, 17), (12, 17, 12), (10, 12, 8), (17, 10, 12), (5, 15, 10), (15, 5, 10)]);
    let noises: Vec<NoiseCfg> = tier.pick(vec![NoiseCfg::Default], vec![NoiseCfg::Default, NoiseCfg::Tight]);
    for n in tier.pick(vec![8], vec![8, 16]) {
        for op in ["lwe_keyswitch", "glwe_from_lwe", "lwe_from_glwe", "lwe_sample_extract"] {
            for &(b_in, b_key, b_out) in &triples {
                if op == "lwe_sample_extract" && !(b_in == b_key && b_key == b_out) {
                    continue;
                }
                let ranks: Vec<usize> = if op == "lwe_keyswitch" || op == "lwe_sample_extract" { vec![1] } else { vec![1, 2, 3] };
                for &rank in &ranks {
                    for a_size in tier.pick(vec![2, 4], vec![1, 2, 3, 4, 5]) {
                        let a_conv = if b_in == b_key { a_size } else { (a_size * b_in).div_ceil(b_key) };
                        for (dnum, rel) in [(a_conv.saturating_sub(1), "less"), (a_conv, "equal"), (a_conv + 1, "more")] {
                            if dnum == 0 || (op == "lwe_sample_extract" && rel != "equal") {
                                continue;
                            }
                            let k_key = ((dnum.max(a_conv) + 1) * b_key + 1).max((dnum.max(2)) * b_key);
                            let eq = (a_size * b_in).div_ceil(b_out);
                            for res_size in [eq.saturating_sub(1).max(1), eq, eq + 1] {
                                for (n_in, n_out) in [(n, n), (n / 2, n - 1), (1, n / 2), (n - 1, n / 2)] {
                                    if !tier.is_thorough() && (n_in, n_out) == (1, n / 2) && rank > 1 {
                                        continue;
                                    }
                                    for &noise in &noises {
                                        out.push(LweCase {
                                            op: op.into(),
                                            backend: B::NAME.into(),
                                            n,
                                            n_lwe_in: n_in,
                                            n_lwe_out: n_out,
                                            rank,
                                            a_size,
                                            res_size,
                                            dnum,
                                            dnum_rel: rel.into(),
                                            k_key,
                                            b_in,
                                            b_key,
                                            b_out,
                                            noise,
                                        });
                                    }
                                }
                            }
                        }
                    }
                }
            }
        }
    }
    out
}

// ---------------------------------------------------------------------------------------------
// GGLWE key switch (every cell is switched)
// ---------------------------------------------------------------------------------------------

#[derive(Clone, Debug, Serialize, Deserialize)]
pub struct GglweKsCase {
    pub op: String, // gglwe_keyswitch | gglwe_keyswitch_assign
    pub backend: String,
    pub shape: Shape,
    /// rank_in of the switched GGLWE (number of plaintext columns) and its gadget
    pub a_rank_in: usize,
    pub a_dnum: usize,
    pub a_dsize: usize,
    pub res_dnum: usize,
}

pub fn exec_gglwe_ks<B: Bk>(c: &GglweKsCase, seed: u64, rec: &mut Rec)
where
    Module<B>: HalAll<B> + CoreAll<B>,
    Scratch<B>: ScratchTakeCore<B>,
{
    let s = &c.shape;
    let n = s.n;
    let m = B::module(n);
    let assign = c.op == "gglwe_keyswitch_assign";
    let tag = fnv(format!("{:?}", c).as_bytes()) ^ seed;
    rec.distinct(tag);
    rec.sample(|| serde_json::to_value(c).unwrap());
    let mut scr = Scr::new(2 * MIB, 0);
    let sk_mid = glwe_sk::<B>(&m, n, s.rank_in, Dist::TernaryProb, seed32(tag, 1));
    let sk_out = glwe_sk::<B>(&m, n, s.rank_out, Dist::TernaryProb, seed32(tag, 2));
    let noise_key = noise_infos(s.noise, s.k_key);
    let e2 = noise_e2(&noise_key);
    let mut xe = Source::new(seed32(tag, 3));
    let mut xa = Source::new(seed32(tag, 4));
    let fail = |rec: &mut Rec, kind: &str, inner: Value, extra: Value| rec.fail(mk_desc(&c.op, B::NAME, kind, c, s, inner, extra));

    let key_layout = GLWESwitchingKeyLayout {
        n: (n as u32).into(),
        base2k: (s.b_key as u32).into(),
        k: (s.k_key as u32).into(),
        rank_in: (s.rank_in as u32).into(),
        rank_out: (s.rank_out as u32).into(),
        dnum: (s.dnum as u32).into(),
        dsize: (s.dsize as u32).into(),
    };
    let mut ksk = GLWESwitchingKey::alloc_from_infos(&key_layout);
    scr.fill_prefix(0, SETUP_HOT);
    if let Err(p) = guarded(|| m.glwe_switching_key_encrypt_sk(&mut ksk, &sk_mid.sk, &sk_out.sk, &noise_key, &mut xe, &mut xa, scr.get::<B>())) {
        fail(rec, "panic", json!({"stage": "key_encrypt"}), json!({"panic": p}));
        return;
    }
    if let Err(e) = check_key_rows(&ksk, &sk_mid.clear, &sk_out.clear, e2, s.k_key) {
        fail(rec, "key_noise_too_large", json!({"stage": "key_rows"}), e);
        return;
    }
    let mut prep = m.glwe_switching_key_prepared_alloc_from_infos(&key_layout);
    scr.fill_prefix(0, SETUP_HOT);
    if let Err(p) = guarded(|| m.glwe_switching_key_prepare(&mut prep, &ksk, scr.get::<B>())) {
        fail(rec, "panic", json!({"stage": "key_prepare"}), json!({"panic": p}));
        return;
    }

    // the GGLWE to switch: library encryption of small polynomials under sk_mid
    let k_a = s.a_size * s.b_in;
    let a_layout = GGLWELayout {
        n: (n as u32).into(),
        base2k: (s.b_in as u32).into(),
        k: (k_a as u32).into(),
        rank_in: (c.a_rank_in as u32).into(),
        rank_out: (s.rank_in as u32).into(),
        dnum: (c.a_dnum as u32).into(),
        dsize: (c.a_dsize as u32).into(),
    };
    let res_layout = GGLWELayout {
        n: (n as u32).into(),
        base2k: (s.b_in as u32).into(),
        k: ((s.res_size * s.b_in) as u32).into(),
        rank_in: (c.a_rank_in as u32).into(),
        rank_out: (s.rank_out as u32).into(),
        dnum: (c.res_dnum as u32).into(),
        dsize: (c.a_dsize as u32).into(),
    };
    let mut a = GGLWE::alloc_from_infos(&a_layout);
    let mut pt = ScalarZnx::alloc(n, c.a_rank_in);
    let mut rng = Rng::new(tag, 77);
    for col in 0..c.a_rank_in {
        for x in pt.at_mut(col, 0).iter_mut() {
            *x = rng.range_i64(-1, 1);
        }
    }
    let ni = noise_infos(s.noise, k_a);
    scr.fill_prefix(0, SETUP_HOT);
    if let Err(p) = guarded(|| m.gglwe_encrypt_sk(&mut a, &pt, &sk_mid.prep, &ni, &mut xe, &mut xa, scr.get::<B>())) {
        fail(rec, "panic", json!({"stage": "input_encrypt"}), json!({"panic": p}));
        return;
    }
    let hot = m.gglwe_keyswitch_tmp_bytes(&res_layout, &a_layout, &key_layout) + HOT_SLACK;
    let bound = s.bound(e2, 0);
    let call = |scr: &mut Scr, fill: usize| -> Result<GGLWE<Vec<u8>>, String> {
        let mut res = GGLWE::alloc_from_infos(if assign { &a_layout } else { &res_layout });
        if assign {
            DataViewMut::data_mut(res.data_mut()).copy_from_slice(DataView::data(a.data()));
        } else {
            pvc_engine::rng::garbage(DataViewMut::data_mut(res.data_mut()).as_mut_slice(), fill);
        }
        scr.fill_prefix(fill, hot);
        guarded(|| {
            if assign {
                m.gglwe_keyswitch_assign(&mut res, &prep, scr.get::<B>())
            } else {
                m.gglwe_keyswitch(&mut res, &a, &prep, scr.get::<B>())
            }
        })?;
        Ok(res)
    };
    let verdict = |res: &GGLWE<Vec<u8>>| -> Result<(), (String, Value)> {
        let rows = if assign { c.a_dnum } else { c.res_dnum };
        for row in 0..rows {
            for col in 0..c.a_rank_in {
                let (p_in, bits_in) = glwe_phase(&a.at(row, col), &sk_mid.clear);
                let (p_out, bits_out) = glwe_phase(&res.at(row, col), &sk_out.clear);
                let (worst, wi, tot) = worst_err(&p_out, bits_out, &p_in, bits_in);
                let limit = bound.at(tot);
                if worst > limit {
                    return Err((
                        "noise_too_large".into(),
                        json!({"row": row, "col": col, "index": wi, "err_log2": log2_of(&worst, tot), "bound_log2": log2_of(&limit, tot), "bound_terms": bound.describe()}),
                    ));
                }
            }
        }
        Ok(())
    };
    let fill = (tag % 2) as usize;
    let r = call(&mut scr, fill);
    rec.evals((if assign { c.a_dnum } else { c.res_dnum } * c.a_rank_in) as u64);
    let first = match &r {
        Ok(res) => verdict(res),
        Err(p) => Err(("panic".into(), json!({"panic": p}))),
    };
    if let Err((kind, mut extra)) = first {
        let clean = call(&mut scr, 2).ok().map(|r2| verdict(&r2).is_ok()).unwrap_or(false);
        if let Value::Object(em) = &mut extra {
            em.insert("scratch_fill".into(), json!(fill));
            em.insert("symptom".into(), json!(kind));
            em.insert("holds_with_zero_filled_scratch".into(), json!(clean));
            em.insert("res_dnum_lt_a_dnum".into(), json!(c.res_dnum < c.a_dnum));
        }
        fail(rec, if clean { "scratch_dependent_result" } else { &kind }, json!({}), extra);
    }
}

pub fn gglwe_ks_cases<B: Bk>(tier: Tier) -> Vec<GglweKsCase> {
    let mut out = vec![];
    for n in tier.pick(vec![8], vec![8, 16]) {
        for op in ["gglwe_keyswitch", "gglwe_keyswitch_assign"] {
            let assign = op == "gglwe_keyswitch_assign";
            for shape in crate::c03::shapes_for_composite(tier, n, assign) {
                // the switched GGLWE needs size > dsize and dnum*dsize <= size (its own gadget, independent of the key's)
                for (a_rank_in, a_dsize) in tier.pick(vec![(1usize, 1usize), (2, 2)], vec![(1, 1), (2, 1), (2, 2), (3, 3)]) {
                    if shape.a_size <= a_dsize {
                        continue;
                    }
                    let a_dnum = shape.a_size / a_dsize;
                    if a_dnum == 0 {
                        continue;
                    }
                    let res_dnums: Vec<usize> = if assign { vec![a_dnum] } else { vec![a_dnum, a_dnum.saturating_sub(1)].into_iter().filter(|d| *d > 0).collect() };
                    for res_dnum in res_dnums {
                        let mut shape = shape.clone();
                        if !assign {
                            // result GGLWE: size > dsize and res_dnum * dsize <= size
                            shape.res_size = shape.res_size.max(a_dsize + 1).max(res_dnum * a_dsize);
                        }
                        out.push(GglweKsCase {
                            op: op.into(),
                            backend: B::NAME.into(),
                            shape,
                            a_rank_in,
                            a_dnum,
                            a_dsize,
                            res_dnum,
                        });
                    }
                }
            }
        }
    }
    out
}

// ---------------------------------------------------------------------------------------------
// automorphism of an automorphism key: key(p) o key(k) -> key(p*k)
// ---------------------------------------------------------------------------------------------

#[derive(Clone, Debug, Serialize, Deserialize)]
pub struct AtkAutoCase {
    pub op: String, // glwe_automorphism_key_automorphism | ..._assign
    pub backend: String,
    /// gadget of the switching key `key` (rank_in = rank_out); b_in = radix of the transformed key `a`, a_size its limbs
    pub shape: Shape,
    pub a_dnum: usize,
    pub a_dsize: usize,
    pub res_dnum: usize,
    /// Galois elements of `a` and of `key`
    pub p: i64,
    pub k: i64,
}

pub fn exec_atk_auto<B: Bk>(c: &AtkAutoCase, seed: u64, rec: &mut Rec)
where
    Module<B>: HalAll<B> + CoreAll<B>,
    Scratch<B>: ScratchTakeCore<B>,
{
    use poulpy_core::GLWEAutomorphismKeyAutomorphism;
    use poulpy_core::layouts::GGLWEToRef;
    let s = &c.shape;
    let n = s.n;
    let rank = s.rank_in;
    let assign = c.op.ends_with("_assign");
    let m = B::module(n);
    let tag = fnv(format!("{:?}", c).as_bytes()) ^ seed;
    rec.distinct(tag);
    rec.sample(|| serde_json::to_value(c).unwrap());
    let mut scr = Scr::new(2 * MIB, 0);
    let fail = |rec: &mut Rec, kind: &str, inner: Value, extra: Value| rec.fail(mk_desc(&c.op, B::NAME, kind, c, s, inner, extra));
    let sk = glwe_sk::<B>(&m, n, rank, Dist::TernaryProb, seed32(tag, 1));
    let keys = match make_auto_keys::<B>(&m, &sk, &[c.k], s, &mut scr, tag) {
        Ok(k) => k,
        Err((kind, e)) => {
            fail(rec, &kind, json!({}), e);
            return;
        }
    };
    let key = keys.get(&c.k).unwrap();
    let e2 = noise_e2(&noise_infos(s.noise, s.k_key));
    // the key to transform
    let k_a = s.a_size * s.b_in;
    let k_r = s.res_size * s.b_in;
    let a_lay = GLWEAutomorphismKeyLayout {
        n: (n as u32).into(),
        base2k: (s.b_in as u32).into(),
        k: (k_a as u32).into(),
        rank: (rank as u32).into(),
        dnum: (c.a_dnum as u32).into(),
        dsize: (c.a_dsize as u32).into(),
    };
    let r_lay = GLWEAutomorphismKeyLayout {
        k: (k_r as u32).into(),
        dnum: (c.res_dnum as u32).into(),
        ..a_lay
    };
    let ni = noise_infos(s.noise, k_a);
    let mut xe = Source::new(seed32(tag, 3));
    let mut xa = Source::new(seed32(tag, 4));
    let mut a = GLWEAutomorphismKey::alloc_from_infos(&a_lay);
    scr.fill_prefix(0, SETUP_HOT);
    if let Err(p) = guarded(|| m.glwe_automorphism_key_encrypt_sk(&mut a, c.p, &sk.sk, &ni, &mut xe, &mut xa, scr.get::<B>())) {
        fail(rec, "panic", json!({"stage": "input_key_encrypt"}), json!({"panic": p}));
        return;
    }
    let two_n = 2 * n as i64;
    let p_inv = pvc_model::ring::inv_mod_2n(c.p, n);
    let pk = (((c.p % two_n) * (c.k % two_n)) % two_n + two_n) % two_n;
    let pk_inv = pvc_model::ring::inv_mod_2n(pk, n);
    let sk_p: Vec<Vec<i64>> = sk.clear.iter().map(|x| pvc_model::ring::automorphism(x, p_inv)).collect();
    let sk_pk: Vec<Vec<i64>> = sk.clear.iter().map(|x| pvc_model::ring::automorphism(x, pk_inv)).collect();
    let key_gl = key.gglwe_layout();
    let hot = m.glwe_automorphism_key_automorphism_tmp_bytes(&r_lay, &a_lay, &key_gl) + HOT_SLACK;
    let res_size_eff = if assign { s.a_size } else { s.res_size };
    let bound = {
        let mut sb = s.clone();
        sb.b_out = s.b_in;
        sb.res_size = res_size_eff;
        sb.bound(e2, 0)
    };
    let call = |scr: &mut Scr, fill: usize| -> Result<GLWEAutomorphismKey<Vec<u8>>, String> {
        let mut res = GLWEAutomorphismKey::alloc_from_infos(if assign { &a_lay } else { &r_lay });
        if assign {
            for r in 0..c.a_dnum {
                for col in 0..rank {
                    res.at_mut(r, col).data_mut().data.copy_from_slice(a.at(r, col).data().data);
                }
            }
            use poulpy_core::layouts::SetGaloisElement;
            res.set_p(a.p());
        } else {
            for r in 0..c.res_dnum {
                for col in 0..rank {
                    pvc_engine::rng::garbage(res.at_mut(r, col).data_mut().data, fill % 2);
                }
            }
        }
        scr.fill_prefix(fill, hot);
        guarded(|| {
            if assign {
                m.glwe_automorphism_key_automorphism_assign(&mut res, key, scr.get::<B>())
            } else {
                m.glwe_automorphism_key_automorphism(&mut res, &a, key, scr.get::<B>())
            }
        })?;
        Ok(res)
    };
    let rows = if assign { c.a_dnum } else { c.res_dnum };
    let verdict = |res: &GLWEAutomorphismKey<Vec<u8>>| -> Result<(), (String, Value)> {
        // the Galois element carried by the result must be p*k (mod 2N)
        let got_p = ((res.p() % two_n) + two_n) % two_n;
        if got_p != pk {
            return Err(("wrong_value".into(), json!({"what": "galois element of the result", "got": res.p(), "want_mod_2n": pk})));
        }
        let rr = GGLWEToRef::to_ref(res);
        let ar = GGLWEToRef::to_ref(&a);
        for row in 0..rows {
            for col in 0..rank {
                // cell under phi_{(pk)^-1}(s) keeps the exact phase the input cell has under phi_{p^-1}(s)
                let (p_in, bits_in) = glwe_phase(&ar.at(row, col), &sk_p);
                let (p_out, bits_out) = glwe_phase(&rr.at(row, col), &sk_pk);
                let (worst, wi, tot) = worst_err(&p_out, bits_out, &p_in, bits_in);
                let limit = bound.at(tot);
                if worst > limit {
                    return Err((
                        "noise_too_large".into(),
                        json!({"row": row, "col": col, "index": wi, "err_log2": log2_of(&worst, tot), "bound_log2": log2_of(&limit, tot), "bound_terms": bound.describe()}),
                    ));
                }
            }
        }
        Ok(())
    };
    let fill = (tag % 2) as usize;
    let r = call(&mut scr, fill);
    rec.evals((rows * rank) as u64);
    let first = match &r {
        Ok(res) => verdict(res),
        Err(p) => Err(("panic".into(), json!({"panic": p}))),
    };
    if let Err((kind, mut extra)) = first {
        let clean = call(&mut scr, 2).ok().map(|r2| verdict(&r2).is_ok()).unwrap_or(false);
        if let Value::Object(em) = &mut extra {
            em.insert("scratch_fill".into(), json!(fill));
            em.insert("symptom".into(), json!(kind));
            em.insert("holds_with_zero_filled_scratch".into(), json!(clean));
            em.insert("same_layout".into(), json!(c.res_dnum == c.a_dnum && s.res_size == s.a_size));
        }
        fail(rec, if clean { "scratch_dependent_result" } else { &kind }, json!({}), extra);
    }
}

pub fn atk_auto_cases<B: Bk>(tier: Tier) -> Vec<AtkAutoCase> {
    let mut out = vec![];
    for n in tier.pick(vec![8], vec![8, 16]) {
        let two_n = 2 * n as i64;
        let mut gs: Vec<i64> = (1..two_n).step_by(2).collect();
        gs.push(-1);
        for op in ["glwe_automorphism_key_automorphism", "glwe_automorphism_key_automorphism_assign"] {
            let assign = op.ends_with("_assign");
            let shapes: Vec<Shape> = crate::c03::shapes_for_composite(tier, n, assign).into_iter().filter(|s| s.kprec != "below" && s.noise == NoiseCfg::Default).collect();
            let mut idx = 0usize;
            for shape in shapes {
                for a_dsize in [1usize, 2] {
                    if shape.a_size <= a_dsize {
                        continue;
                    }
                    let a_dnum = shape.a_size / a_dsize;
                    let res_dnums: Vec<usize> = if assign { vec![a_dnum] } else { vec![a_dnum, a_dnum.saturating_sub(1)].into_iter().filter(|d| *d > 0).collect() };
                    for res_dnum in res_dnums {
                        let mut shape = shape.clone();
                        if !assign {
                            shape.res_size = shape.res_size.max(a_dsize + 1).max(res_dnum * a_dsize);
                        }
                        // every (p, k) pair of Galois elements is met; the pairs rotate over the shape variants
                        let stride = tier.pick(gs.len() * gs.len() / 2, gs.len() * gs.len() / 8).max(1);
                        idx += 1;
                        for (pi, &p) in gs.iter().enumerate() {
                            for (ki, &k) in gs.iter().enumerate() {
                                if (idx + pi * gs.len() + ki) % stride != 0 {
                                    continue;
                                }
                                out.push(AtkAutoCase {
                                    op: op.into(),
                                    backend: B::NAME.into(),
                                    shape: shape.clone(),
                                    a_dnum,
                                    a_dsize,
                                    res_dnum,
                                    p,
                                    k,
                                });
                            }
                        }
                    }
                }
            }
        }
    }
    out
}

pub fn fam_atk_auto<B: Bk>(run: &mut Run)
where
    Module<B>: HalAll<B> + CoreAll<B>,
    Scratch<B>: ScratchTakeCore<B>,
{
    let seed = run.seed;
    let tier = run.tier;
    run.family(
        &format!("atk_automorphism/{}", B::NAME),
        "outer = (glwe_automorphism_key_automorphism | assign, gadget shape of the switching key, gadget of the transformed key, res.dnum <= a.dnum, Galois elements (p, k) over all odd residues); every row of the result, read under phi_{(pk)^-1}(s), keeps the exact phase of the input row under phi_{p^-1}(s); the result carries p*k mod 2N",
        atk_auto_cases::<B>(tier),
        |c, rec| exec_atk_auto::<B>(c, seed, rec),
    );
}

// ---------------------------------------------------------------------------------------------
// oracle-free: the same input switched through every admitted (dsize, dnum) gives the same rounded plaintext
// ---------------------------------------------------------------------------------------------

#[derive(Clone, Debug, Serialize, Deserialize)]
pub struct IndepCase {
    pub backend: String,
    pub n: usize,
    pub rank_in: usize,
    pub rank_out: usize,
    pub a_size: usize,
    pub b_in: usize,
    pub b_key: usize,
    pub b_out: usize,
    pub noise: NoiseCfg,
}

pub fn exec_indep<B: Bk>(c: &IndepCase, seed: u64, tier: Tier, rec: &mut Rec)
where
    Module<B>: HalAll<B> + CoreAll<B>,
    Scratch<B>: ScratchTakeCore<B>,
{
    let n = c.n;
    let m = B::module(n);
    let tag = fnv(format!("{:?}", c).as_bytes()) ^ seed;
    rec.distinct(tag);
    rec.sample(|| serde_json::to_value(c).unwrap());
    let mut scr = Scr::new(2 * MIB, 0);
    let sk_in = glwe_sk::<B>(&m, n, c.rank_in, Dist::TernaryProb, seed32(tag, 1));
    let sk_out = glwe_sk::<B>(&m, n, c.rank_out, Dist::TernaryProb, seed32(tag, 2));
    let a_conv = if c.b_in == c.b_key { c.a_size } else { (c.a_size * c.b_in).div_ceil(c.b_key) };
    let k_in = c.a_size * c.b_in;
    // all admitted gadgets covering the input, key one digit above the ciphertext precision
    let mut shapes: Vec<Shape> = vec![];
    for dsize in 1..=4usize {
        let needed = a_conv.div_ceil(dsize);
        for dnum in needed..=needed + 1 {
            let min_size = (dnum * dsize).max(dsize + 1);
            let k_key = (a_conv * c.b_key + dsize * c.b_key + 1).max(min_size * c.b_key);
            shapes.push(Shape {
                n,
                rank_in: c.rank_in,
                rank_out: c.rank_out,
                dsize,
                a_size: c.a_size,
                dnum,
                dnum_rel: if dnum == needed { "equal".into() } else { "more".into() },
                k_key,
                kprec: "above".into(),
                b_in: c.b_in,
                b_key: c.b_key,
                b_out: c.b_out,
                res_size: k_in.div_ceil(c.b_out) + 1,
                res_rel: "longer".into(),
                noise: c.noise,
            });
        }
    }
    // common message precision: the coarsest guaranteed by every shape's own bound
    let mut kp_common: Option<usize> = Some(8.min(c.b_in));
    for s in &shapes {
        let mut total = s.bound(noise_e2(&noise_infos(c.noise, s.k_key)), 0);
        total.add_u(noise_e2(&noise_infos(c.noise, k_in)), k_in + 1, "input_noise");
        kp_common = match (kp_common, pick_kp(&total, 8.min(c.b_in))) {
            (Some(a), Some(b)) => Some(a.min(b)),
            _ => None,
        };
    }
    let Some(kp) = kp_common else {
        rec.add("cases_without_common_precision", 1);
        return;
    };
    let msgs: Vec<Msg> = tier.pick(vec![Msg::Ramp, Msg::Alt], MSGS_FULL.to_vec());
    let mut cts: Vec<(Msg, GLWE<Vec<u8>>)> = vec![];
    for mc in &msgs {
        let mv = message(*mc, n, kp, seed);
        match encrypt_msg::<B>(&m, n, c.b_in, k_in, c.rank_in, &sk_in, &mv, kp, c.noise, &mut scr, tag ^ fnv(format!("{mc:?}").as_bytes())) {
            Ok(ct) => cts.push((*mc, ct)),
            Err(p) => rec.fail(json!({"op": "glwe_keyswitch", "backend": B::NAME, "kind": "panic", "case": c, "inner": {"stage": "input_encrypt"}, "panic": p})),
        }
    }
    let mut reference: Vec<Option<(Vec<i64>, usize, usize)>> = vec![None; cts.len()];
    for (si, s) in shapes.iter().enumerate() {
        let noise_key = noise_infos(c.noise, s.k_key);
        let key_layout = GLWESwitchingKeyLayout {
            n: (n as u32).into(),
            base2k: (s.b_key as u32).into(),
            k: (s.k_key as u32).into(),
            rank_in: (s.rank_in as u32).into(),
            rank_out: (s.rank_out as u32).into(),
            dnum: (s.dnum as u32).into(),
            dsize: (s.dsize as u32).into(),
        };
        let mut xe = Source::new(seed32(tag, 30 + si as u64));
        let mut xa = Source::new(seed32(tag, 60 + si as u64));
        let mut ksk = GLWESwitchingKey::alloc_from_infos(&key_layout);
        scr.fill_prefix(0, SETUP_HOT);
        let inner = json!({"dsize": s.dsize, "dnum": s.dnum});
        if let Err(p) = guarded(|| m.glwe_switching_key_encrypt_sk(&mut ksk, &sk_in.sk, &sk_out.sk, &noise_key, &mut xe, &mut xa, scr.get::<B>())) {
            rec.fail(mk_desc("glwe_keyswitch", B::NAME, "panic", c, s, inner, json!({"stage": "key_encrypt", "panic": p})));
            continue;
        }
        let mut prep = m.glwe_switching_key_prepared_alloc_from_infos(&key_layout);
        scr.fill_prefix(0, SETUP_HOT);
        if let Err(p) = guarded(|| m.glwe_switching_key_prepare(&mut prep, &ksk, scr.get::<B>())) {
            rec.fail(mk_desc("glwe_keyswitch", B::NAME, "panic", c, s, inner, json!({"stage": "key_prepare", "panic": p})));
            continue;
        }
        let r_lay = glwe_layout(n, s.b_out, s.k_out(), s.rank_out);
        let a_lay = glwe_layout(n, s.b_in, k_in, s.rank_in);
        let hot = m.glwe_keyswitch_tmp_bytes(&r_lay, &a_lay, &key_layout) + HOT_SLACK;
        for (ci, (mc, ct)) in cts.iter().enumerate() {
            let mut res = garbage_glwe(n, s.b_out, s.k_out(), s.rank_out, si % 2);
            scr.fill_prefix(si % 2, hot);
            let r = guarded(|| m.glwe_keyswitch(&mut res, ct, &prep, scr.get::<B>()));
            rec.evals(1);
            if let Err(p) = r {
                rec.fail(mk_desc("glwe_keyswitch", B::NAME, "panic", c, s, json!({"dsize": s.dsize, "dnum": s.dnum, "msg": mc}), json!({"panic": p})));
                continue;
            }
            let (p_out, bits_out) = glwe_phase(&res, &sk_out.clear);
            let got: Vec<i64> = p_out.iter().map(|x| round_to(x, bits_out, kp)).collect();
            match &reference[ci] {
                None => reference[ci] = Some((got, s.dsize, s.dnum)),
                Some((want, d0, n0)) => {
                    if &got != want {
                        rec.fail(mk_desc(
                            "glwe_keyswitch",
                            B::NAME,
                            "shape_dependent_plaintext",
                            c,
                            s,
                            json!({"dsize": s.dsize, "dnum": s.dnum, "msg": mc}),
                            json!({"kp": kp, "got": got, "reference": want, "reference_dsize": d0, "reference_dnum": n0}),
                        ));
                    }
                }
            }
        }
    }
}

pub fn indep_cases<B: Bk>(tier: Tier) -> Vec<IndepCase> {
    let mut out = vec![];
    let triples: Vec<(usize, usize, usize)> = tier.pick(vec![(12, 12, 12), (12, 17, 12), (10, 12, 8)], vec![(8, 8, 8), (12, 12, 12), (17, 17, 17), (12, 17, 12), (17, 12, 17), (10, 12, 8), (17, 10, 12), (8, 17, 12), (5, 15, 10), (15, 5, 10)]);
    for n in tier.pick(vec![8], vec![8, 16]) {
        for &(b_in, b_key, b_out) in &triples {
            for rank_in in 1..=3 {
                for rank_out in 1..=3 {
                    if !tier.is_thorough() && rank_in + rank_out > 4 && rank_in != rank_out {
                        continue;
                    }
                    for a_size in 2..=6 {
                        for noise in tier.pick(vec![NoiseCfg::Default], vec![NoiseCfg::Default, NoiseCfg::Tight]) {
                            out.push(IndepCase {
                                backend: B::NAME.into(),
                                n,
                                rank_in,
                                rank_out,
                                a_size,
                                b_in,
                                b_key,
                                b_out,
                                noise,
                            });
                        }
                    }
                }
            }
        }
    }
    out
}

// ---------------------------------------------------------------------------------------------
// family registration
// ---------------------------------------------------------------------------------------------

pub fn fam_trace<B: Bk>(run: &mut Run)
where
    Module<B>: HalAll<B> + CoreAll<B>,
    Scratch<B>: ScratchTakeCore<B>,
{
    let (seed, tier) = (run.seed, run.tier);
    run.family(
        &format!("glwe_trace/{}", B::NAME),
        "outer = (trace | trace_assign, N, rank, gadget shape, radices, result size); inner = EVERY start level skip in 0..=log2 N x inputs; oracle = projection of the exact input phase onto the coefficients at multiples of N/2^skip, bound = (log2 N - skip) levels",
        trace_cases::<B>(tier),
        |c, rec| exec_trace::<B>(c, None, seed, tier, rec),
    );
}

pub fn fam_pack<B: Bk>(run: &mut Run)
where
    Module<B>: HalAll<B> + CoreAll<B>,
    Scratch<B>: ScratchTakeCore<B>,
{
    let (seed, tier) = (run.seed, run.tier);
    run.family(
        &format!("glwe_pack/{}", B::NAME),
        "outer = (N in {8,16}, rank, gadget shape, radices, log_gap_out in 0..=log2 N); inner = EVERY non-empty subset of the slots at N=8 (structured subsets at N=16); oracle = coefficient idx of the result is coefficient 0 of input idx, every other coefficient 0",
        pack_cases::<B>(tier, "glwe_pack"),
        |c, rec| exec_pack::<B>(c, None, seed, rec),
    );
    run.family(
        &format!("glwe_packer/{}", B::NAME),
        "outer = (N in {8,16}, rank, gadget shape, radices, log_batch in 0..log2 N); inner = EVERY subset (incl. empty) of the N>>log_batch additions at N=8 on one re-used packer; oracle = addition t lands bit-reversed: result[u*2^L + bitrev_L(t)] = input_t[u*2^L], absent additions give 0",
        pack_cases::<B>(tier, "glwe_packer"),
        |c, rec| exec_pack::<B>(c, None, seed, rec),
    );
}

pub fn fam_lwe<B: Bk>(run: &mut Run)
where
    Module<B>: HalAll<B> + CoreAll<B>,
    Scratch<B>: ScratchTakeCore<B>,
{
    let (seed, tier) = (run.seed, run.tier);
    run.family(
        &format!("lwe/{}", B::NAME),
        "outer = (lwe_keyswitch | glwe_from_lwe | lwe_from_glwe | lwe_sample_extract, N, LWE dimensions, GLWE rank 1..3, sizes, dnum less/equal/more, radices, result shorter/equal/longer); inner = raw extreme ciphertexts (+ one encryption) x EVERY extraction index; oracle = exact LWE phase vs exact GLWE phase coefficient",
        lwe_cases::<B>(tier),
        |c, rec| exec_lwe::<B>(c, seed, tier, rec),
    );
}

pub fn fam_gglwe_ks<B: Bk>(run: &mut Run)
where
    Module<B>: HalAll<B> + CoreAll<B>,
    Scratch<B>: ScratchTakeCore<B>,
{
    let (seed, tier) = (run.seed, run.tier);
    run.family(
        &format!("gglwe_keyswitch/{}", B::NAME),
        "outer = (gglwe_keyswitch | assign, gadget shape of the key, gadget of the switched GGLWE, res.dnum <= a.dnum); every cell (row, col) of the result checked against the exact phase of the input cell",
        gglwe_ks_cases::<B>(tier),
        |c, rec| exec_gglwe_ks::<B>(c, seed, rec),
    );
}

pub fn fam_indep<B: Bk>(run: &mut Run)
where
    Module<B>: HalAll<B> + CoreAll<B>,
    Scratch<B>: ScratchTakeCore<B>,
{
    let (seed, tier) = (run.seed, run.tier);
    run.family(
        &format!("shape_independence/{}", B::NAME),
        "outer = (N, rank_in, rank_out, a_size 2..6, radices); inner = the same encrypted inputs switched through EVERY (dsize 1..4, dnum needed/needed+1); oracle-free: all rounded plaintexts are equal",
        indep_cases::<B>(tier),
        |c, rec| exec_indep::<B>(c, seed, tier, rec),
    );
}

//! pvc-ks: checks C03, C04 and the key-switching / external-product parts of the cross-cutting properties C10, C11, C12.  usage: pvc-ks <Cxx> --tier quick|thorough [--replay f] [--only family]

pub mod c03;
pub mod c03b;
pub mod kit;
pub mod c04;
pub mod c10ks;
pub mod c11ks;
pub mod c12ks;
pub mod xks;

use pvc_engine::{Run, load_replay, parse_args};

fn main() {
    let args = parse_args();
    macro_rules! check {
        ($level:expr, $run:path, $replay:path) => {{
            let mut run = Run::new(&args, $level);
            match &args.replay {
                Some(p) => $replay(&mut run, &load_replay(p)),
                None => $run(&mut run),
            }
            run.finish()
        }};
    }
    // parts of multi-group properties: a replay descriptor of another group's family is not ours (exit code 2)
    macro_rules! part {
        ($level:expr, $run:path, $replay:path) => {{
            let mut run = Run::new(&args, $level);
            match &args.replay {
                Some(p) => {
                    if !$replay(&mut run, &load_replay(p)) {
                        std::process::exit(2);
                    }
                }
                None => $run(&mut run),
            }
            run.finish()
        }};
    }
    let code = match args.property.as_str() {
        "C03" => check!("exploration", c03::run, c03::replay),
        "C04" => check!("exploration", c04::run, c04::replay),
        "C10" => part!("exploration", c10ks::run, c10ks::replay),
        "C11" => part!("model_checking", c11ks::run, c11ks::replay),
        "C12" => part!("exploration", c12ks::run, c12ks::replay),
        o => {
            eprintln!("pvc-ks: unknown property {o}");
            2
        }
    };
    std::process::exit(code);
}

//! pvc-ks: checks C03, C04.  usage: pvc-ks <Cxx> --tier quick|thorough [--replay f] [--only family]

pub mod c03;
pub mod c03b;
pub mod kit;
pub mod c04;

use pvc_engine::{Run, load_replay, parse_args};

fn main() {
    let args = parse_args();
    macro_rules! check {
        ($level:expr, $run:path, $replay:path) => {{
            let mut run = Run::new(&args, $level);
            match &args.replay {
                Some(p) => $replay(&mut run, &load_replay(p)),
                None => $run(&mut run),
            }
            run.finish()
        }};
    }
    let code = match args.property.as_str() {
        "C03" => check!("exploration", c03::run, c03::replay),
        "C04" => check!("exploration", c04::run, c04::replay),
        o => {
            eprintln!("pvc-ks: unknown property {o}");
            2
        }
    };
    std::process::exit(code);
}

//! Shared plumbing of C03/C04: garbage-filled scratch, secrets with clear copies, exact phases of borrowed
//! ciphertext views, the R9 worst-case noise calculus (exact dyadic rationals), message alphabets.

use poulpy_core::layouts::{
    GLWE, GLWEPlaintext, GLWESecret, GLWESecretPrepared, GLWESecretPreparedFactory, LWE, LWESecret,
};
use poulpy_hal::alloc_aligned;
use poulpy_hal::layouts::{DataRef, DeviceBuf, Module, NoiseInfos, Scratch, VecZnx, ZnxInfos, ZnxView, ZnxViewMut};
use poulpy_hal::source::Source;
use pvc_common::phase::{Dist, clear_secret};
use pvc_common::{Bk, CoreAll, HalAll};
use pvc_engine::rng::{Rng, garbage};
use pvc_model::IBig;
use pvc_model::torus;
use dashu_int::ops::BitTest;
use serde::{Deserialize, Serialize};

// ---------------------------------------------------------------------------------------------
// scratch
// ---------------------------------------------------------------------------------------------

/// 64-byte aligned scratch arena whose contents are chosen by the harness (garbage pattern 0 = NaN/huge,
/// 1 = second pattern, 2 = zeros).  Re-filled before every subject call that claims scratch independence.
pub struct Scr {
    buf: Vec<u8>,
}

thread_local! {
    static POOL: std::cell::RefCell<Vec<u8>> = const { std::cell::RefCell::new(Vec::new()) };
}

impl Scr {
    /// Arena of at least `bytes` bytes.  The buffer is recycled per worker thread: it is completely garbage-filled
    /// when it is created, and the prefix a call may legitimately touch is re-filled by `fill_prefix` before every
    /// subject call, so no call ever sees fresh zeros (unless zeros are asked for).
    pub fn new(bytes: usize, fill: usize) -> Self {
        let need = bytes.next_multiple_of(64) + 64;
        let mut buf = POOL.with(|p| std::mem::take(&mut *p.borrow_mut()));
        if buf.len() < need {
            buf = alloc_aligned::<u8>(need.max(2 * MIB));
            garbage(&mut buf, fill);
        }
        Scr { buf }
    }
    pub fn fill(&mut self, which: usize) {
        garbage(&mut self.buf, which);
    }
    /// re-fills the first `bytes` bytes (the arena is consumed from the front: with a correct companion query
    /// nothing past the query size is ever dirtied)
    pub fn fill_prefix(&mut self, which: usize, bytes: usize) {
        let l = bytes.min(self.buf.len()) & !7;
        match which {
            0 | 2 => {
                let w = if which == 0 { pvc_engine::rng::GARBAGE_NAN } else { 0 }.to_le_bytes();
                for c in self.buf[..l].chunks_exact_mut(8) {
                    c.copy_from_slice(&w);
                }
            }
            _ => garbage(&mut self.buf[..l], which),
        }
    }
    pub fn get<B: Bk>(&mut self) -> &mut Scratch<B> {
        B::scratch_from_bytes(&mut self.buf)
    }
    pub fn len(&self) -> usize {
        self.buf.len()
    }
}

impl Drop for Scr {
    fn drop(&mut self) {
        let b = std::mem::take(&mut self.buf);
        POOL.with(|p| *p.borrow_mut() = b);
    }
}

/// slack re-filled past the companion query before every call
pub const HOT_SLACK: usize = 64 * 1024;

pub const MIB: usize = 1 << 20;

// ---------------------------------------------------------------------------------------------
// secrets
// ---------------------------------------------------------------------------------------------

pub struct GSk<B: Bk> {
    pub sk: GLWESecret<Vec<u8>>,
    pub prep: GLWESecretPrepared<DeviceBuf<B>, B>,
    /// clear coefficients `[col][i]`
    pub clear: Vec<Vec<i64>>,
}

pub fn seed32(tag: u64, k: u64) -> [u8; 32] {
    Rng::new(tag, k).seed32()
}

fn fill_glwe_secret(sk: &mut GLWESecret<Vec<u8>>, n: usize, dist: Dist, seed: [u8; 32]) {
    let mut src = Source::new(seed);
    match dist {
        Dist::TernaryProb => sk.fill_ternary_prob(0.5, &mut src),
        Dist::TernaryHw => sk.fill_ternary_hw((n / 2).max(1), &mut src),
        Dist::BinaryProb => sk.fill_binary_prob(0.5, &mut src),
        Dist::BinaryHw => sk.fill_binary_hw((n / 2).max(1), &mut src),
        Dist::BinaryBlock => sk.fill_binary_block(if n % 4 == 0 { 4 } else { 1 }, &mut src),
        Dist::Zero => sk.fill_zero(),
    }
}

/// library secret filled from `Source::new(seed)` + harness copy of its coefficients
pub fn glwe_sk<B: Bk>(m: &Module<B>, n: usize, rank: usize, dist: Dist, seed: [u8; 32]) -> GSk<B>
where
    Module<B>: HalAll<B> + CoreAll<B>,
{
    let mut sk = GLWESecret::alloc((n as u32).into(), (rank as u32).into());
    fill_glwe_secret(&mut sk, n, dist, seed);
    let mut prep = m.glwe_secret_prepared_alloc((rank as u32).into());
    m.glwe_secret_prepare(&mut prep, &sk);
    GSk {
        sk,
        prep,
        clear: clear_secret(n, rank, dist, seed),
    }
}

pub struct LSk {
    pub sk: LWESecret<Vec<u8>>,
    pub clear: Vec<i64>,
}

pub fn lwe_sk(n: usize, dist: Dist, seed: [u8; 32]) -> LSk {
    let mut sk = LWESecret::alloc((n as u32).into());
    let mut src = Source::new(seed);
    match dist {
        Dist::TernaryProb => sk.fill_ternary_prob(0.5, &mut src),
        Dist::TernaryHw => sk.fill_ternary_hw((n / 2).max(1), &mut src),
        Dist::BinaryProb => sk.fill_binary_prob(0.5, &mut src),
        Dist::BinaryHw => sk.fill_binary_hw((n / 2).max(1), &mut src),
        Dist::BinaryBlock => sk.fill_binary_block(if n % 4 == 0 { 4 } else { 1 }, &mut src),
        Dist::Zero => sk.fill_zero(),
    }
    // the library exposes the LWE secret's coefficients (`raw`); the seeded reconstruction is cross-checked
    let clear = clear_secret(n, 1, dist, seed).remove(0);
    assert_eq!(sk.raw(), &clear[..], "clear_secret does not reproduce LWESecret::fill_*");
    LSk { sk, clear }
}

// ---------------------------------------------------------------------------------------------
// exact phases (R3) on borrowed views
// ---------------------------------------------------------------------------------------------

pub fn col_values<D: DataRef>(v: &VecZnx<D>, col: usize, b: usize) -> Vec<IBig> {
    let n = v.n();
    let size = v.size();
    let mut digits = vec![0i64; size];
    (0..n)
        .map(|i| {
            for (j, d) in digits.iter_mut().enumerate() {
                *d = v.at(col, j)[i];
            }
            torus::value_scaled(&digits, b)
        })
        .collect()
}

/// a * s in Z[X]/(X^n+1), s small
pub fn mul_small(a: &[IBig], s: &[i64]) -> Vec<IBig> {
    let n = a.len();
    let mut out: Vec<IBig> = vec![IBig::from(0); n];
    for (j, &sj) in s.iter().enumerate() {
        if sj == 0 {
            continue;
        }
        for (i, ai) in a.iter().enumerate() {
            let k = i + j;
            let t: IBig = if sj == 1 {
                ai.clone()
            } else if sj == -1 {
                -ai.clone()
            } else {
                ai * IBig::from(sj)
            };
            if k < n {
                out[k] += t;
            } else {
                out[k - n] -= t;
            }
        }
    }
    out
}

/// exact phase body + sum_i mask_i * s_i of a GLWE-shaped VecZnx (cols = rank+1), scaled by 2^(size*b),
/// not reduced modulo 1.  Returns (values, bits).
pub fn phase<D: DataRef>(v: &VecZnx<D>, b: usize, sk: &[Vec<i64>]) -> (Vec<IBig>, usize) {
    assert_eq!(v.cols(), sk.len() + 1, "phase: rank mismatch");
    let mut acc = col_values(v, 0, b);
    for (i, s) in sk.iter().enumerate() {
        let m = col_values(v, i + 1, b);
        let p = mul_small(&m, s);
        for (x, y) in acc.iter_mut().zip(p.iter()) {
            *x += y;
        }
    }
    (acc, v.size() * b)
}

pub fn glwe_phase<D: DataRef>(ct: &GLWE<D>, sk: &[Vec<i64>]) -> (Vec<IBig>, usize) {
    use poulpy_core::layouts::LWEInfos;
    phase(ct.data(), ct.base2k().as_usize(), sk)
}

/// LWE phase body + <a, s> (data = one column of length n+1), scaled by 2^(size*b)
pub fn lwe_phase<D: DataRef>(ct: &LWE<D>, sk: &[i64]) -> (IBig, usize) {
    use poulpy_core::layouts::LWEInfos;
    let b = ct.base2k().as_usize();
    let v = ct.data();
    let size = v.size();
    let val = |i: usize| -> IBig {
        let digits: Vec<i64> = (0..size).map(|j| v.at(0, j)[i]).collect();
        torus::value_scaled(&digits, b)
    };
    let mut acc = val(0);
    for (i, &s) in sk.iter().enumerate() {
        if s != 0 {
            acc += val(i + 1) * IBig::from(s);
        }
    }
    (acc, size * b)
}

/// centered (got - want) mod 1, scaled by 2^max(bits)
pub fn terr(got: &IBig, gbits: usize, want: &IBig, wbits: usize) -> (IBig, usize) {
    torus::torus_diff(got, gbits, want, wbits)
}

/// round(x / 2^bits * 2^k) mod 2^k, centered in [-2^(k-1), 2^(k-1))
pub fn round_to(x: &IBig, bits: usize, k: usize) -> i64 {
    let v: IBig = if bits > k {
        let sh = bits - k;
        floor_shr(&(x + (IBig::from(1) << (sh - 1))), sh)
    } else {
        x << (k - bits)
    };
    let r = torus::centered_mod_pow2(&v, k);
    i64::try_from(r).unwrap()
}

/// floor(x / 2^sh) for any sign
pub fn floor_shr(x: &IBig, sh: usize) -> IBig {
    let m: IBig = IBig::from(1) << sh;
    let mut r = x % &m;
    if r < IBig::from(0) {
        r += &m;
    }
    (x - r) >> sh
}

pub fn ibig_abs(x: &IBig) -> IBig {
    torus::abs(x)
}

/// approximate log2 of |x| / 2^bits (for reports only, never for verdicts)
pub fn log2_of(x: &IBig, bits: usize) -> f64 {
    let a = torus::abs(x);
    if a == IBig::from(0) {
        return f64::NEG_INFINITY;
    }
    let bl = a.bit_len();
    let top: IBig = if bl > 60 { &a >> (bl - 60) } else { a.clone() };
    let t = i64::try_from(top).unwrap() as f64;
    t.log2() + (bl.saturating_sub(60)) as f64 - bits as f64
}

// ---------------------------------------------------------------------------------------------
// R9: worst-case bounds as exact dyadic rationals  sum_t mant_t * 2^-exp_t
// ---------------------------------------------------------------------------------------------

#[derive(Clone, Debug, Default)]
pub struct Bnd {
    pub terms: Vec<(IBig, usize, &'static str)>,
}

impl Bnd {
    pub fn zero() -> Self {
        Bnd { terms: vec![] }
    }
    /// adds mant * 2^-exp
    pub fn add(&mut self, mant: IBig, exp: usize, what: &'static str) {
        if mant != IBig::from(0) {
            self.terms.push((mant, exp, what));
        }
    }
    pub fn add_u(&mut self, mant: u128, exp: usize, what: &'static str) {
        self.add(IBig::from(mant), exp, what)
    }
    pub fn plus(&mut self, o: &Bnd) {
        self.terms.extend(o.terms.iter().cloned());
    }
    pub fn times(&self, k: u64) -> Bnd {
        Bnd {
            terms: self.terms.iter().map(|(m, e, w)| (m * IBig::from(k), *e, *w)).collect(),
        }
    }
    /// value scaled by 2^bits, rounded up
    pub fn at(&self, bits: usize) -> IBig {
        let mut acc = IBig::from(0);
        for (m, e, _) in &self.terms {
            if *e <= bits {
                acc += m << (bits - e);
            } else {
                let sh = e - bits;
                acc += ((m + (IBig::from(1) << sh)) - IBig::from(1)) >> sh;
            }
        }
        acc
    }
    /// floor(-log2(value)) - the largest p with value < 2^-p is at least this minus one; exact test via `below_pow2`
    pub fn below_pow2(&self, p: usize) -> bool {
        // value < 2^-p  <=>  value*2^Q < 2^(Q-p) with Q large enough to hold every term exactly
        let q = self.terms.iter().map(|t| t.1).max().unwrap_or(0).max(p) + 1;
        self.at(q) < (IBig::from(1) << (q - p))
    }
    pub fn log2(&self) -> f64 {
        let q = self.terms.iter().map(|t| t.1).max().unwrap_or(0) + 1;
        log2_of(&self.at(q), q)
    }
    pub fn describe(&self) -> Vec<String> {
        self.terms.iter().map(|(m, e, w)| format!("{w}: 2^{:.2}", log2_of(m, *e))).collect()
    }
}

/// hard bound on |e| * 2^k for one encryption-noise sample: the sampler rejects |x| > bound*scale before rounding
/// and adds round(x) at 2^-(k) / scale, so |e| <= bound + 1/2 (in units of 2^-k); returned doubled (half units).
pub fn noise_e2(noise: &NoiseInfos) -> u128 {
    (2.0 * noise.bound).ceil() as u128 + 1
}

/// Parameters of one gadget product  sum_{c < cols_in} digits(a_c) * row_c  (key switch: cols_in = rank_in, the
/// body is added; external product: cols_in = rank+1).
#[derive(Clone, Debug)]
pub struct Gadget {
    pub n: usize,
    /// number of decomposed input columns
    pub cols_in: usize,
    /// limb count of the decomposed operand, already in the key radix
    pub a_size: usize,
    pub b_key: usize,
    pub dsize: usize,
    pub dnum: usize,
    /// limb count of the key (ceil(k_key / b_key))
    pub key_size: usize,
    /// precision the key noise was sampled at
    pub k_noise: usize,
    /// doubled hard bound of one noise sample (see noise_e2)
    pub e2: u128,
    /// l1 norm bound of the plaintext factor carried by one key row (secret column: <= n; s_i*s_j: <= n^2; ...)
    pub pt_l1: u128,
}

impl Gadget {
    pub fn rows_used(&self) -> usize {
        self.a_size.div_ceil(self.dsize).min(self.dnum)
    }
    /// Worst-case |gadget product - exact product| per coefficient, as seen in the result's phase.
    ///
    /// * noise: every used row r of every input column c contributes digit_{c,r} * e_{c,r}; a digit groups dsize
    ///   limbs of magnitude <= 2^(b-1): |digit| <= 2^(b-1) (2^(dsize b) - 1)/(2^b - 1); a negacyclic product of two
    ///   length-n polynomials with coefficient bounds D and E has coefficients <= n D E.
    /// * dropped: limbs of the operand past dnum*dsize are not multiplied: |tail| <= 2^-(dnum dsize b) per
    ///   coefficient (geometric sum of half-digits, rounded up to a full unit), times the l1 norm of the plaintext
    ///   factor, per column.
    /// * skipped: for dsize >= 3 the implementation documents that it drops the last dsize-2 limbs of the partial
    ///   products ("ignore the last dsize-2 limbs safely"); a dropped DFT-domain limb holds at most
    ///   cols_in*rows*n*2^(2b-2) at weight 2^-(j+1)b, j >= key_size-(dsize-2).  Twice the first term covers the tail.
    pub fn bound(&self) -> Bnd {
        let b = self.b_key;
        let mut out = Bnd::zero();
        let rows = self.rows_used() as u128;
        let digit: IBig = (IBig::from(1) << (b - 1)) * ((IBig::from(1) << (self.dsize * b)) - IBig::from(1)) / ((IBig::from(1) << b) - IBig::from(1));
        // e2 is doubled -> exponent k_noise + 1
        out.add(
            IBig::from(self.cols_in as u128 * rows * self.n as u128 * self.e2) * &digit,
            self.k_noise + 1,
            "key_noise",
        );
        if self.a_size > self.dnum * self.dsize {
            out.add_u(self.cols_in as u128 * self.pt_l1, self.dnum * self.dsize * b, "dropped_digits");
        }
        if self.dsize >= 3 {
            let first = self.key_size - (self.dsize - 2);
            out.add(
                IBig::from(2 * self.cols_in as u128 * rows * self.n as u128) << (2 * b - 2),
                (first + 1) * b,
                "skipped_limbs",
            );
        }
        out
    }
}

/// one unit of the last limb of every column, as seen in the phase: (1 + rank*n) * 2^-(size*b)
pub fn ulp_phase(n: usize, rank: usize, size: usize, b: usize, what: &'static str) -> Bnd {
    let mut o = Bnd::zero();
    o.add_u(1 + (rank * n) as u128, size * b, what);
    o
}

// ---------------------------------------------------------------------------------------------
// alphabets
// ---------------------------------------------------------------------------------------------

/// message classes (coefficients are kp-bit balanced integers, the plaintext is m * 2^-kp)
#[derive(Clone, Copy, Debug, PartialEq, Eq, Serialize, Deserialize)]
pub enum Msg {
    Zero,
    /// +1 at index 0
    One,
    /// every coefficient at the largest digit 2^(kp-1)-1
    MaxPos,
    /// every coefficient at the smallest digit -2^(kp-1)
    MinNeg,
    /// alternating extremes
    Alt,
    /// distinct value per index (any index slip is visible)
    Ramp,
    Random(u8),
}

pub const MSGS_FULL: [Msg; 8] = [Msg::Zero, Msg::One, Msg::MaxPos, Msg::MinNeg, Msg::Alt, Msg::Ramp, Msg::Random(0), Msg::Random(1)];
pub const MSGS_QUICK: [Msg; 4] = [Msg::Ramp, Msg::MaxPos, Msg::MinNeg, Msg::Alt];

pub fn message(m: Msg, n: usize, kp: usize, seed: u64) -> Vec<i64> {
    let hi = (1i64 << (kp - 1)) - 1;
    let lo = -(1i64 << (kp - 1));
    let mut rng = Rng::new(seed, 0x4d5347 + kp as u64);
    (0..n)
        .map(|i| match m {
            Msg::Zero => 0,
            Msg::One => (i == 0) as i64,
            Msg::MaxPos => hi,
            Msg::MinNeg => lo,
            Msg::Alt => {
                if i % 2 == 0 {
                    hi
                } else {
                    lo
                }
            }
            Msg::Ramp => wrap(i as i64 + 1 + if i % 3 == 1 { lo } else { 0 }, kp),
            Msg::Random(r) => {
                let mut g = Rng::new(rng.next() ^ r as u64, i as u64);
                g.digit(kp)
            }
        })
        .collect()
}

pub fn wrap(x: i64, kp: usize) -> i64 {
    let m = 1i64 << kp;
    let mut r = x.rem_euclid(m);
    if r >= m / 2 {
        r -= m;
    }
    r
}

/// classes for ciphertexts whose limbs are written directly (no encryption): every limb of every column
#[derive(Clone, Copy, Debug, PartialEq, Eq, Serialize, Deserialize)]
pub enum Raw {
    /// every digit +2^(b-1)-1
    MaxPos,
    /// every digit -2^(b-1)
    MinNeg,
    /// extremes alternating over index, limb and column
    Alt,
    /// only the last limb is non-zero (extreme): exercises the least significant digit group
    LastLimb,
    Random(u8),
}

pub const RAWS_FULL: [Raw; 6] = [Raw::MaxPos, Raw::MinNeg, Raw::Alt, Raw::LastLimb, Raw::Random(0), Raw::Random(1)];
pub const RAWS_QUICK: [Raw; 3] = [Raw::MinNeg, Raw::Alt, Raw::Random(0)];

pub fn fill_raw(v: &mut VecZnx<Vec<u8>>, b: usize, r: Raw, seed: u64) {
    let (cols, size) = (v.cols(), v.size());
    let hi = (1i64 << (b - 1)) - 1;
    let lo = -(1i64 << (b - 1));
    let mut rng = Rng::new(seed, 0x524157);
    for c in 0..cols {
        for j in 0..size {
            for (i, x) in v.at_mut(c, j).iter_mut().enumerate() {
                *x = match r {
                    Raw::MaxPos => hi,
                    Raw::MinNeg => lo,
                    Raw::Alt => {
                        if (i + j + c) % 2 == 0 {
                            hi
                        } else {
                            lo
                        }
                    }
                    Raw::LastLimb => {
                        if j + 1 == size {
                            if (i + c) % 2 == 0 { lo } else { hi }
                        } else {
                            0
                        }
                    }
                    Raw::Random(k) => {
                        let _ = k;
                        rng.digit(b)
                    }
                };
            }
        }
    }
}

/// plaintext m * 2^-kp written on the first limb(s) of a GLWEPlaintext in radix b (kp <= b): digit m * 2^(b-kp)
pub fn plaintext(n: usize, b: usize, k: usize, m: &[i64], kp: usize) -> GLWEPlaintext<Vec<u8>> {
    assert!(kp <= b);
    let mut pt = GLWEPlaintext::alloc((n as u32).into(), (b as u32).into(), (k as u32).into());
    let l0 = pt.data.at_mut(0, 0);
    for (x, &mi) in l0.iter_mut().zip(m) {
        *x = mi << (b - kp);
    }
    pt
}

/// freshly allocated GLWE whose whole buffer holds garbage
pub fn garbage_glwe(n: usize, b: usize, k: usize, rank: usize, which: usize) -> GLWE<Vec<u8>> {
    let mut ct = GLWE::alloc((n as u32).into(), (b as u32).into(), (k as u32).into(), (rank as u32).into());
    garbage(ct.data_mut().data.as_mut_slice(), which);
    ct
}

pub fn glwe_zeroed(n: usize, b: usize, k: usize, rank: usize) -> GLWE<Vec<u8>> {
    GLWE::alloc((n as u32).into(), (b as u32).into(), (k as u32).into(), (rank as u32).into())
}

pub fn glwe_clone(ct: &GLWE<Vec<u8>>) -> GLWE<Vec<u8>> {
    use poulpy_core::layouts::{GLWEInfos, LWEInfos};
    let mut out = GLWE::alloc(ct.n(), ct.base2k(), ct.max_k(), ct.rank());
    out.data_mut().data.copy_from_slice(&ct.data().data);
    out
}

/// hash of all limbs (observed outcome variety)
pub fn hash_vec<D: DataRef>(v: &VecZnx<D>) -> u64 {
    let mut h: u64 = 0xcbf29ce484222325;
    for c in 0..v.cols() {
        for j in 0..v.size() {
            for x in v.at(c, j) {
                h ^= *x as u64;
                h = h.wrapping_mul(0x100000001b3);
                h ^= h >> 29;
            }
        }
    }
    h
}

/// noise configurations: the library default (sigma 3.2, bound 6 sigma) and the tightest the API admits
/// (sigma = bound = 1: errors in {-1,0,1}), which makes the arithmetic error terms dominate the bound.
#[derive(Clone, Copy, Debug, PartialEq, Eq, Serialize, Deserialize)]
pub enum NoiseCfg {
    Default,
    Tight,
}

pub fn noise_infos(cfg: NoiseCfg, k: usize) -> NoiseInfos {
    match cfg {
        NoiseCfg::Default => NoiseInfos::new(k, poulpy_core::DEFAULT_SIGMA_XE, 6.0 * poulpy_core::DEFAULT_SIGMA_XE).unwrap(),
        NoiseCfg::Tight => NoiseInfos::new(k, 1.0, 1.0).unwrap(),
    }
}

// ---------------------------------------------------------------------------------------------
// GGSW byte access (the layout has no raw accessor): cell by cell
// ---------------------------------------------------------------------------------------------

pub fn ggsw_dims(g: &poulpy_core::layouts::GGSW<Vec<u8>>) -> (usize, usize) {
    use poulpy_core::layouts::{GGSWInfos, GLWEInfos};
    (g.dnum().as_usize(), g.rank().as_usize() + 1)
}

pub fn ggsw_bytes(g: &poulpy_core::layouts::GGSW<Vec<u8>>) -> Vec<u8> {
    let (rows, cols) = ggsw_dims(g);
    let mut out = vec![];
    for r in 0..rows {
        for c in 0..cols {
            out.extend_from_slice(g.at(r, c).data().data);
        }
    }
    out
}

pub fn ggsw_garbage(g: &mut poulpy_core::layouts::GGSW<Vec<u8>>, which: usize) {
    let (rows, cols) = ggsw_dims(g);
    for r in 0..rows {
        for c in 0..cols {
            garbage(g.at_mut(r, c).data_mut().data, which);
        }
    }
}

pub fn ggsw_copy(dst: &mut poulpy_core::layouts::GGSW<Vec<u8>>, src: &poulpy_core::layouts::GGSW<Vec<u8>>) {
    let (rows, cols) = ggsw_dims(src);
    for r in 0..rows {
        for c in 0..cols {
            dst.at_mut(r, c).data_mut().data.copy_from_slice(src.at(r, c).data().data);
        }
    }
}

//! C11 (key-switching / external-product part) - outputs are fully determined by inputs: no stale data, no stray
//! writes.  Oracle-free (metamorphic).
//!
//! Every pipeline of xks.rs is executed twice from two different garbage fills of every writable buffer the library
//! receives - result objects (all rows / columns of matrix results, decrypted plaintexts: two independent streams of
//! random 64-bit words) and the generously sized scratch (NaN/huge pattern vs large-finite position-dependent pattern)
//! - under equal inputs and seeds; every observable result must be byte-identical.  Read-only operands of the operation
//! (input ciphertexts, switched GGLWE / GGSW / key) are digested before and after the call.

use crate::xks::*;
use poulpy_bin_fhe::bdd_arithmetic::{Cmux, Cswap};
use poulpy_core::ScratchTakeCore;
use poulpy_hal::layouts::{Module, Scratch};
use pvc_common::{Bk, CoreAll, HalAll, for_backends};
use pvc_engine::{Rec, Run, fnv};
use serde_json::{Value, json};

fn desc(op: &str, backend: &str, kind: &str, c: &XCase, sd: u64, inner: Value, extra: Value) -> Value {
    let s = &c.shape;
    let mut d = json!({"op": op, "backend": backend, "kind": kind, "case": [c, sd], "inner": inner,
        "dsize": s.dsize, "dnum": s.dnum, "rank_in": s.rank_in, "rank_out": s.rank_out, "radix_equal": s.b_in == s.b_key && s.b_key == s.b_out,
        "res_rel": s.res_rel, "routine": c.op.name()});
    if let (Value::Object(dm), Value::Object(em)) = (&mut d, extra) {
        dm.extend(em);
    }
    d
}

pub fn exec<B: Bk>(c: &XCase, run_seed: u64, sd: u64, fills: usize, rec: &mut Rec)
where
    Module<B>: HalAll<B> + CoreAll<B> + Cmux<B> + Cswap<B>,
    Scratch<B>: ScratchTakeCore<B>,
{
    let seed = run_seed ^ sd;
    rec.distinct(fnv(format!("{:?}{}", c, sd).as_bytes()));
    rec.sample(|| serde_json::to_value(c).unwrap());
    let mut outs: Vec<Obs> = vec![];
    for g in 0..fills {
        // scratch: NaN/huge, large finite position-dependent, 0x11 bytes
        let mut sx = Sx::new(Pol::Slack { fill: [0usize, 1, 3][g % 3] });
        // result buffers: two independent random streams (4, 5)
        let res = run_case::<B>(c, &mut sx, 4 + g, seed);
        rec.evals(1);
        rec.add("library_calls_with_scratch", sx.events.len() as u64);
        match res {
            Ok(o) => {
                for n in &o.operand_modified {
                    rec.fail(desc(c.op.name(), B::NAME, "operand_modified", c, sd, json!({"fill": g, "operand": n}), json!({})));
                }
                outs.push(o);
            }
            Err(msg) => {
                let stage = msg.split(':').next().unwrap_or("").to_string();
                rec.fail(desc(&stage, B::NAME, "panic", c, sd, json!({"fill": g}), json!({"panic": msg})));
                return;
            }
        }
    }
    for o in outs.iter().skip(1) {
        if let Some((step, op)) = outs[0].first_difference(o) {
            rec.fail(desc(
                &op,
                B::NAME,
                "stale_output",
                c,
                sd,
                json!({}),
                json!({"differs": step, "detail": "same inputs and seeds, different prior content of result buffers and scratch"}),
            ));
            break;
        }
    }
    if let Some(s) = outs[0].steps.last() {
        rec.outcome(fnv(&s.bytes));
    }
}

fn fam<B: Bk>(run: &mut Run)
where
    Module<B>: HalAll<B> + CoreAll<B> + Cmux<B> + Cswap<B>,
    Scratch<B>: ScratchTakeCore<B>,
{
    let seed = run.seed;
    // the quick tier already runs the complete (N in {8,16}) grid; the thorough tier adds a third fill and a second seed
    let fills = run.tier.pick(2usize, 3);
    let seeds: Vec<u64> = run.tier.pick(vec![0], vec![0, 1]);
    let cs: Vec<(XCase, u64)> = all_cases::<B>(pvc_engine::Tier::Thorough).into_iter().flat_map(|c| seeds.iter().map(move |s| (c.clone(), *s))).collect();
    let name = format!("ks_two_fills/{}", B::NAME);
    run.family(
        &name,
        "outer = (operation (38), shape grid of the C12 part's thorough tier (N in {8,16}), seed); inner = 2 (thorough: 3) executions of the whole pipeline (key generation, preparation, encryption, operation, decryption) from different garbage in every writable buffer (result objects incl. all rows / columns, decrypted plaintexts, scratch), equal inputs and seeds; compared: serialised keys, input and result ciphertexts / matrices, decrypted plaintexts; read-only operands digested before / after",
        cs,
        |(c, sd), rec| exec::<B>(c, seed, *sd, fills, rec),
    );
    if let Some(f) = run.families.iter().rev().find(|f| f.name == name) {
        let n = f.rec.evaluations;
        run.states += n;
        run.transitions += n;
    }
}

pub fn run(run: &mut Run) {
    run.assume("objects are allocated with the library's alloc functions at exactly their layout size (spare limb capacity is exercised by the HAL part)");
    run.assume("prepared keys expose no accessor: an operation modifying its prepared key is visible only through the results of later calls of the same pipeline (decryption excluded); unprepared operands are compared byte-wise");
    run.assume("states = transitions = (case, fill) executions");
    for_backends!(fam(run));
}

/// false if the descriptor does not belong to this part
pub fn replay(run: &mut Run, d: &Value) -> bool {
    let fam = d["family"].as_str().unwrap_or("").to_string();
    if !fam.starts_with("ks_two_fills/") {
        return false;
    }
    // the outer case is the pair (case, seed selector)
    let (c, sd): (XCase, u64) = match serde_json::from_value(d["case"].clone()) {
        Ok(c) => c,
        Err(_) => match serde_json::from_value::<XCase>(d["case"].clone()) {
            Ok(c) => (c, 0),
            Err(_) => return false,
        },
    };
    let seed = d["seed"].as_u64().unwrap_or(0);
    match c.backend.as_str() {
        "fft64-ref" => run.single(&fam, "replay", |rec| exec::<pvc_common::FFT64Ref>(&c, seed, sd, 3, rec)),
        "ntt120-ref" => run.single(&fam, "replay", |rec| exec::<pvc_common::NTT120Ref>(&c, seed, sd, 3, rec)),
        "fft64-avx" => run.single(&fam, "replay", |rec| exec::<pvc_common::FFT64Avx>(&c, seed, sd, 3, rec)),
        "ntt120-avx" => run.single(&fam, "replay", |rec| exec::<pvc_common::NTT120Avx>(&c, seed, sd, 3, rec)),
        _ => return false,
    }
    true
}

//! Driver shared by the key-switching / external-product parts of the cross-cutting properties C10 / C11 / C12.
//!
//! One case = one small pipeline: key generation (library) -> key preparation -> input encryption -> the operation
//! -> decryption.  Every library call that takes scratch goes through [`Sx::call`], which hands over either a generous
//! garbage-filled arena (`Slack`) or an EXACT-SIZE window of exactly the bytes the call's own companion query returned,
//! carved out of a canary-filled allocation (`Exact`), and logs (operation, bytes, canaries intact).  The pipeline
//! returns the observable bytes after every step (serialised keys, ciphertexts, decrypted plaintexts); no oracle is
//! applied here - C12 / C11 / C10 compare these observations across scratch fills, buffer fills and backends.
//! Shapes, secrets, alphabets and layouts are those of kit.rs / c03.rs / c04.rs.

use crate::c03::{KsOp, Shape};
use crate::c04::{M2, m2_poly};
use crate::kit::*;
use poulpy_bin_fhe::bdd_arithmetic::{Cmux, Cswap};
use poulpy_core::layouts::{
    GGLWE, GGLWELayout, GGLWEToGGSWKey, GGLWEToGGSWKeyLayout, GGLWEToGGSWKeyPrepared, GGLWEToGGSWKeyPreparedFactory, GGSW,
    GGSWLayout, GGSWPrepared, GGSWPreparedFactory, GLWE, GLWEAutomorphismKey, GLWEAutomorphismKeyLayout, GLWEAutomorphismKeyPrepared,
    GLWEAutomorphismKeyPreparedFactory, GLWELayout, GLWEPlaintext, GLWESwitchingKey, GLWESwitchingKeyLayout, GLWESwitchingKeyPrepared,
    GLWESwitchingKeyPreparedFactory, GLWEToLWEKey, GLWEToLWEKeyLayout, GLWEToLWEKeyPreparedFactory, LWE, LWELayout, LWEPlaintext,
    LWESwitchingKey, LWESwitchingKeyLayout, LWESwitchingKeyPreparedFactory, LWEToGLWEKey, LWEToGLWEKeyLayout, LWEToGLWEKeyPreparedFactory,
};
use poulpy_core::{
    GGLWEEncryptSk, GGLWEExternalProduct, GGLWEKeyswitch, GGLWEToGGSWKeyEncryptSk, GGSWAutomorphism, GGSWEncryptSk, GGSWExpandRows,
    GGSWExternalProduct, GGSWFromGGLWE, GGSWKeyswitch, GLWEAutomorphism, GLWEAutomorphismKeyAutomorphism, GLWEAutomorphismKeyEncryptSk,
    GLWEDecrypt, GLWEEncryptSk, GLWEExternalProduct, GLWEFromLWE, GLWEKeyswitch, GLWEPacker, GLWEPacking, GLWESwitchingKeyEncryptSk,
    GLWEToLWESwitchingKeyEncryptSk, GLWETrace, LWEDecrypt, LWEEncryptSk, LWEFromGLWE, LWEKeySwitch, LWESampleExtract, LWESwitchingKeyEncrypt,
    LWEToGLWESwitchingKeyEncryptSk, ScratchTakeCore, glwe_packer_add, glwe_packer_flush, glwe_packer_galois_elements, glwe_packer_tmp_bytes,
};
use poulpy_hal::alloc_aligned;
use poulpy_hal::layouts::{DataView, DataViewMut, DeviceBuf, Module, ScalarZnx, Scratch, WriterTo, ZnxViewMut};
use poulpy_hal::source::Source;
use pvc_common::phase::Dist;
use pvc_common::{Bk, CoreAll, HalAll};
use pvc_engine::rng::garbage;
use pvc_engine::{Tier, guarded};
use serde::{Deserialize, Serialize};
use std::collections::HashMap;

// ---------------------------------------------------------------------------------------------
// scratch hand-over
// ---------------------------------------------------------------------------------------------

#[derive(Clone, Copy, Debug, PartialEq)]
pub enum Pol {
    /// generous arena (2 MiB), prefix re-filled with garbage pattern `fill` before every call
    Slack { fill: usize },
    /// window of exactly the companion query, between canaries, pre-filled with pattern `fill`
    Exact { fill: usize },
    /// window of exactly `bytes` (the maximum over the pipeline's queries) for EVERY call
    ExactMax { fill: usize, bytes: usize },
}

#[derive(Clone, Debug)]
pub struct Ev {
    pub op: String,
    pub bytes: usize,
    pub canaries_ok: bool,
}

const CANARY: u8 = 0xC5;
const PAD: usize = 128;

pub struct Sx {
    pub pol: Pol,
    pub events: Vec<Ev>,
    /// operations whose exact-size failure was already reported: they get slack so that later calls are reached
    pub lenient: Vec<String>,
    arena: Scr,
}

impl Sx {
    pub fn new(pol: Pol) -> Self {
        Sx {
            pol,
            events: vec![],
            lenient: vec![],
            arena: Scr::new(2 * MIB, 0),
        }
    }

    /// Runs one scratch-taking library call named `op` whose companion query returned `bytes`.
    pub fn call<B: Bk, T>(&mut self, op: &str, bytes: usize, f: impl FnOnce(&mut Scratch<B>) -> T) -> Result<T, String> {
        let (exact, fill) = match self.pol {
            Pol::Slack { fill } => (None, fill),
            Pol::Exact { fill } => (if self.lenient.iter().any(|l| l == op) { None } else { Some(bytes) }, fill),
            Pol::ExactMax { fill, bytes: mx } => (Some(mx), fill),
        };
        match exact {
            None => {
                self.arena.fill_prefix(fill, bytes + HOT_SLACK);
                let r = guarded(|| f(self.arena.get::<B>()));
                self.events.push(Ev {
                    op: op.into(),
                    bytes,
                    canaries_ok: true,
                });
                r.map_err(|p| format!("{op}: {p}"))
            }
            Some(w) => {
                let mut buf = alloc_aligned::<u8>(PAD + w + PAD + 64);
                buf.fill(CANARY);
                garbage(&mut buf[PAD..PAD + w], fill);
                let r = guarded(|| f(B::scratch_from_bytes(&mut buf[PAD..PAD + w])));
                let ok = buf[..PAD].iter().all(|x| *x == CANARY) && buf[PAD + w..].iter().all(|x| *x == CANARY);
                self.events.push(Ev {
                    op: op.into(),
                    bytes: w,
                    canaries_ok: ok,
                });
                r.map_err(|p| format!("{op}: {p}"))
            }
        }
    }
}

// ---------------------------------------------------------------------------------------------
// cases
// ---------------------------------------------------------------------------------------------

#[derive(Clone, Copy, Debug, PartialEq, Eq, Serialize, Deserialize)]
pub enum XOp {
    Ks(KsOp),
    Trace,
    TraceAssign,
    Pack,
    Packer,
    LweKs,
    GlweFromLwe,
    LweFromGlwe,
    SampleExtract,
    GglweKs,
    GglweKsAssign,
    AtkAuto,
    AtkAutoAssign,
    GgswKs,
    GgswKsAssign,
    GgswAuto,
    GgswAutoAssign,
    GgswFromGglwe,
    GgswExpandRow,
    Xp,
    XpAssign,
    GglweXp,
    GglweXpAssign,
    GgswXp,
    GgswXpAssign,
    Cmux,
    CmuxAssign,
    CmuxAssignNeg,
    Cswap,
}

impl XOp {
    pub fn name(self) -> &'static str {
        match self {
            XOp::Ks(k) => k.name(),
            XOp::Trace => "glwe_trace",
            XOp::TraceAssign => "glwe_trace_assign",
            XOp::Pack => "glwe_pack",
            XOp::Packer => "glwe_packer",
            XOp::LweKs => "lwe_keyswitch",
            XOp::GlweFromLwe => "glwe_from_lwe",
            XOp::LweFromGlwe => "lwe_from_glwe",
            XOp::SampleExtract => "lwe_sample_extract",
            XOp::GglweKs => "gglwe_keyswitch",
            XOp::GglweKsAssign => "gglwe_keyswitch_assign",
            XOp::AtkAuto => "glwe_automorphism_key_automorphism",
            XOp::AtkAutoAssign => "glwe_automorphism_key_automorphism_assign",
            XOp::GgswKs => "ggsw_keyswitch",
            XOp::GgswKsAssign => "ggsw_keyswitch_assign",
            XOp::GgswAuto => "ggsw_automorphism",
            XOp::GgswAutoAssign => "ggsw_automorphism_assign",
            XOp::GgswFromGglwe => "ggsw_from_gglwe",
            XOp::GgswExpandRow => "ggsw_expand_row",
            XOp::Xp => "glwe_external_product",
            XOp::XpAssign => "glwe_external_product_assign",
            XOp::GglweXp => "gglwe_external_product",
            XOp::GglweXpAssign => "gglwe_external_product_assign",
            XOp::GgswXp => "ggsw_external_product",
            XOp::GgswXpAssign => "ggsw_external_product_assign",
            XOp::Cmux => "cmux",
            XOp::CmuxAssign => "cmux_assign",
            XOp::CmuxAssignNeg => "cmux_assign_neg",
            XOp::Cswap => "cswap",
        }
    }
    /// rank_in == rank_out required
    pub fn same_rank(self) -> bool {
        !matches!(self, XOp::Ks(KsOp::Keyswitch) | XOp::GglweKs)
    }
    /// result is the (copied) input: input and output radix / size coincide
    pub fn inplace(self) -> bool {
        match self {
            XOp::Ks(k) => k.inplace(),
            XOp::TraceAssign | XOp::GglweKsAssign | XOp::AtkAutoAssign | XOp::GgswKsAssign | XOp::GgswAutoAssign | XOp::GgswExpandRow => true,
            XOp::XpAssign | XOp::GglweXpAssign | XOp::GgswXpAssign | XOp::CmuxAssign | XOp::CmuxAssignNeg | XOp::Cswap => true,
            _ => false,
        }
    }
    /// matrix forms assert res.base2k == a.base2k; the CMux family works in the GGSW radix
    pub fn needs_b_in_eq_b_out(self) -> bool {
        self.inplace()
            || matches!(
                self,
                XOp::GglweKs | XOp::AtkAuto | XOp::GgswKs | XOp::GgswAuto | XOp::GgswFromGglwe | XOp::GglweXp | XOp::GgswXp | XOp::Cmux | XOp::SampleExtract | XOp::Pack | XOp::Packer
            )
    }
    pub fn needs_all_radix_equal(self) -> bool {
        matches!(self, XOp::Cmux | XOp::CmuxAssign | XOp::CmuxAssignNeg | XOp::SampleExtract)
    }
    pub fn dsize_one(self) -> bool {
        matches!(self, XOp::LweKs | XOp::GlweFromLwe | XOp::LweFromGlwe | XOp::SampleExtract)
    }
}

pub const ALL_XOPS: [XOp; 38] = [
    XOp::Ks(KsOp::Keyswitch),
    XOp::Ks(KsOp::KeyswitchAssign),
    XOp::Ks(KsOp::Automorphism),
    XOp::Ks(KsOp::AutomorphismAssign),
    XOp::Ks(KsOp::AutomorphismAdd),
    XOp::Ks(KsOp::AutomorphismAddAssign),
    XOp::Ks(KsOp::AutomorphismSub),
    XOp::Ks(KsOp::AutomorphismSubAssign),
    XOp::Ks(KsOp::AutomorphismSubNegate),
    XOp::Ks(KsOp::AutomorphismSubNegateAssign),
    XOp::Trace,
    XOp::TraceAssign,
    XOp::Pack,
    XOp::Packer,
    XOp::LweKs,
    XOp::GlweFromLwe,
    XOp::LweFromGlwe,
    XOp::SampleExtract,
    XOp::GglweKs,
    XOp::GglweKsAssign,
    XOp::AtkAuto,
    XOp::AtkAutoAssign,
    XOp::GgswKs,
    XOp::GgswKsAssign,
    XOp::GgswAuto,
    XOp::GgswAutoAssign,
    XOp::GgswFromGglwe,
    XOp::GgswExpandRow,
    XOp::Xp,
    XOp::XpAssign,
    XOp::GglweXp,
    XOp::GglweXpAssign,
    XOp::GgswXp,
    XOp::GgswXpAssign,
    XOp::Cmux,
    XOp::CmuxAssign,
    XOp::CmuxAssignNeg,
    XOp::Cswap,
];

#[derive(Clone, Debug, Serialize, Deserialize)]
pub struct XCase {
    pub op: XOp,
    pub backend: String,
    pub shape: Shape,
    /// Galois element | trace start level | log_gap_out / log_batch | extraction index
    pub p: i64,
    /// slot subset | selector bit
    pub q: u64,
}

/// observable bytes after one step of the pipeline
#[derive(Clone, Debug)]
pub struct Step {
    pub name: String,
    /// library routine that produced it
    pub op: String,
    pub bytes: Vec<u8>,
}

#[derive(Clone, Debug, Default)]
pub struct Obs {
    pub steps: Vec<Step>,
    /// read-only operands modified by the operation (name of the operand)
    pub operand_modified: Vec<String>,
}

impl Obs {
    pub fn push(&mut self, name: &str, op: &str, bytes: Vec<u8>) {
        self.steps.push(Step {
            name: name.into(),
            op: op.into(),
            bytes,
        });
    }
    pub fn first_difference(&self, o: &Obs) -> Option<(String, String)> {
        if self.steps.len() != o.steps.len() {
            return Some(("step_count".into(), "".into()));
        }
        for (x, y) in self.steps.iter().zip(o.steps.iter()) {
            if x.name != y.name || x.bytes != y.bytes {
                return Some((x.name.clone(), x.op.clone()));
            }
        }
        None
    }
}

/// the logical content of a VecZnx (the backing allocation may be padded up to the 64-byte alignment)
pub fn vz<D: poulpy_hal::layouts::DataRef>(v: &poulpy_hal::layouts::VecZnx<D>) -> Vec<u8> {
    use poulpy_hal::layouts::ZnxInfos;
    let bytes = v.n() * v.cols() * v.size() * 8;
    v.data.as_ref()[..bytes].to_vec()
}

pub fn ser<T: WriterTo>(t: &T) -> Vec<u8> {
    let mut v = vec![];
    t.write_to(&mut v).expect("serialisation to a Vec cannot fail");
    v
}

pub fn glwe_lay(n: usize, b: usize, k: usize, rank: usize) -> GLWELayout {
    GLWELayout {
        n: (n as u32).into(),
        base2k: (b as u32).into(),
        k: (k as u32).into(),
        rank: (rank as u32).into(),
    }
}

fn ggsw_bytes_of(g: &GGSW<Vec<u8>>) -> Vec<u8> {
    ggsw_bytes(g)
}

/// second, independent garbage source for result buffers (C11: two different prior contents)
pub fn fill_bytes(buf: &mut [u8], fill: usize) {
    match fill {
        0 | 1 | 2 | 3 => garbage(buf, fill),
        k => {
            let mut r = pvc_engine::rng::Rng::new(k as u64, 0xF111);
            for c in buf.chunks_mut(8) {
                let w = r.next().to_le_bytes();
                for (j, b) in c.iter_mut().enumerate() {
                    *b = w[j];
                }
            }
        }
    }
}

// ---------------------------------------------------------------------------------------------
// the pipeline
// ---------------------------------------------------------------------------------------------

pub struct Env<'a, B: Bk> {
    pub m: &'a Module<B>,
    pub sx: &'a mut Sx,
    pub obs: Obs,
    pub seed: u64,
    /// garbage pattern of result buffers
    pub res_fill: usize,
    pub noise: NoiseCfg,
    pub ctr: u64,
}

impl<'a, B: Bk> Env<'a, B>
where
    Module<B>: HalAll<B> + CoreAll<B> + Cmux<B> + Cswap<B>,
    Scratch<B>: ScratchTakeCore<B>,
{
    pub fn sources(&mut self) -> (Source, Source) {
        self.ctr += 1;
        (Source::new(seed32(self.seed, 2 * self.ctr)), Source::new(seed32(self.seed, 2 * self.ctr + 1)))
    }

    pub fn secret(&mut self, n: usize, rank: usize, which: u64) -> GSk<B> {
        glwe_sk::<B>(self.m, n, rank, Dist::TernaryProb, seed32(self.seed, 1000 + which))
    }

    pub fn ksk(&mut self, s: &Shape, sk_in: &GSk<B>, sk_out: &GSk<B>) -> Result<GLWESwitchingKeyPrepared<DeviceBuf<B>, B>, String> {
        let m = self.m;
        let lay = GLWESwitchingKeyLayout {
            n: (s.n as u32).into(),
            base2k: (s.b_key as u32).into(),
            k: (s.k_key as u32).into(),
            rank_in: (s.rank_in as u32).into(),
            rank_out: (s.rank_out as u32).into(),
            dnum: (s.dnum as u32).into(),
            dsize: (s.dsize as u32).into(),
        };
        let ni = noise_infos(self.noise, s.k_key);
        let (mut xe, mut xa) = self.sources();
        let mut k = GLWESwitchingKey::alloc_from_infos(&lay);
        self.sx.call::<B, _>("glwe_switching_key_encrypt_sk", m.glwe_switching_key_encrypt_sk_tmp_bytes(&lay), |sc| {
            m.glwe_switching_key_encrypt_sk(&mut k, &sk_in.sk, &sk_out.sk, &ni, &mut xe, &mut xa, sc)
        })?;
        self.obs.push("switching_key", "glwe_switching_key_encrypt_sk", ser(&k));
        let mut prep = m.glwe_switching_key_prepared_alloc_from_infos(&lay);
        self.sx
            .call::<B, _>("glwe_switching_key_prepare", m.glwe_switching_key_prepare_tmp_bytes(&lay), |sc| m.glwe_switching_key_prepare(&mut prep, &k, sc))?;
        Ok(prep)
    }

    pub fn atk_layout(s: &Shape) -> GLWEAutomorphismKeyLayout {
        GLWEAutomorphismKeyLayout {
            n: (s.n as u32).into(),
            base2k: (s.b_key as u32).into(),
            k: (s.k_key as u32).into(),
            rank: (s.rank_in as u32).into(),
            dnum: (s.dnum as u32).into(),
            dsize: (s.dsize as u32).into(),
        }
    }

    pub fn atk(&mut self, s: &Shape, sk: &GSk<B>, g: i64) -> Result<GLWEAutomorphismKeyPrepared<DeviceBuf<B>, B>, String> {
        let m = self.m;
        let lay = Self::atk_layout(s);
        let ni = noise_infos(self.noise, s.k_key);
        let (mut xe, mut xa) = self.sources();
        let mut k = GLWEAutomorphismKey::alloc_from_infos(&lay);
        self.sx.call::<B, _>("glwe_automorphism_key_encrypt_sk", m.glwe_automorphism_key_encrypt_sk_tmp_bytes(&lay), |sc| {
            m.glwe_automorphism_key_encrypt_sk(&mut k, g, &sk.sk, &ni, &mut xe, &mut xa, sc)
        })?;
        self.obs.push(&format!("automorphism_key[{g}]"), "glwe_automorphism_key_encrypt_sk", ser(&k));
        let mut prep = m.glwe_automorphism_key_prepared_alloc_from_infos(&lay);
        self.sx.call::<B, _>("glwe_automorphism_key_prepare", m.glwe_automorphism_key_prepare_tmp_bytes(&lay), |sc| {
            m.glwe_automorphism_key_prepare(&mut prep, &k, sc)
        })?;
        Ok(prep)
    }

    pub fn atks(&mut self, s: &Shape, sk: &GSk<B>, gs: &[i64]) -> Result<HashMap<i64, GLWEAutomorphismKeyPrepared<DeviceBuf<B>, B>>, String> {
        let mut out = HashMap::new();
        for &g in gs {
            out.insert(g, self.atk(s, sk, g)?);
        }
        Ok(out)
    }

    pub fn tsk_layout(s: &Shape) -> GGLWEToGGSWKeyLayout {
        GGLWEToGGSWKeyLayout {
            n: (s.n as u32).into(),
            base2k: (s.b_key as u32).into(),
            k: (s.k_key as u32).into(),
            rank: (s.rank_in as u32).into(),
            dnum: (s.dnum as u32).into(),
            dsize: (s.dsize as u32).into(),
        }
    }

    pub fn tsk(&mut self, s: &Shape, sk: &GSk<B>) -> Result<GGLWEToGGSWKeyPrepared<DeviceBuf<B>, B>, String> {
        let m = self.m;
        let lay = Self::tsk_layout(s);
        let ni = noise_infos(self.noise, s.k_key);
        let (mut xe, mut xa) = self.sources();
        let mut k = GGLWEToGGSWKey::alloc_from_infos(&lay);
        self.sx.call::<B, _>(
            "gglwe_to_ggsw_key_encrypt_sk",
            GGLWEToGGSWKeyEncryptSk::gglwe_to_ggsw_key_encrypt_sk_tmp_bytes(m, &lay),
            |sc| GGLWEToGGSWKeyEncryptSk::gglwe_to_ggsw_key_encrypt_sk(m, &mut k, &sk.sk, &ni, &mut xe, &mut xa, sc),
        )?;
        self.obs.push("gglwe_to_ggsw_key", "gglwe_to_ggsw_key_encrypt_sk", ser(&k));
        let mut prep = m.gglwe_to_ggsw_key_prepared_alloc_from_infos(&lay);
        self.sx.call::<B, _>("gglwe_to_ggsw_key_prepare", m.gglwe_to_ggsw_key_prepare_tmp_bytes(&lay), |sc| {
            m.gglwe_to_ggsw_key_prepare(&mut prep, &k, sc)
        })?;
        Ok(prep)
    }

    pub fn ggsw_key_layout(s: &Shape) -> GGSWLayout {
        GGSWLayout {
            n: (s.n as u32).into(),
            base2k: (s.b_key as u32).into(),
            k: (s.k_key as u32).into(),
            rank: (s.rank_in as u32).into(),
            dnum: (s.dnum as u32).into(),
            dsize: (s.dsize as u32).into(),
        }
    }

    /// GGSW in an arbitrary layout encrypting m2
    pub fn ggsw_enc(&mut self, lay: &GGSWLayout, k: usize, sk: &GSk<B>, m2: &[i64], name: &str) -> Result<GGSW<Vec<u8>>, String> {
        let m = self.m;
        let ni = noise_infos(self.noise, k);
        let (mut xe, mut xa) = self.sources();
        let mut g = GGSW::alloc_from_infos(lay);
        let mut pt = ScalarZnx::alloc(m2.len(), 1);
        pt.at_mut(0, 0).copy_from_slice(m2);
        self.sx
            .call::<B, _>("ggsw_encrypt_sk", m.ggsw_encrypt_sk_tmp_bytes(lay), |sc| m.ggsw_encrypt_sk(&mut g, &pt, &sk.prep, &ni, &mut xe, &mut xa, sc))?;
        self.obs.push(name, "ggsw_encrypt_sk", ggsw_bytes_of(&g));
        Ok(g)
    }

    pub fn ggsw_prep(&mut self, s: &Shape, sk: &GSk<B>, m2: &[i64]) -> Result<GGSWPrepared<DeviceBuf<B>, B>, String> {
        let m = self.m;
        let lay = Self::ggsw_key_layout(s);
        let g = self.ggsw_enc(&lay, s.k_key, sk, m2, "ggsw")?;
        let mut prep = m.ggsw_prepared_alloc_from_infos(&lay);
        self.sx.call::<B, _>("ggsw_prepare", m.ggsw_prepare_tmp_bytes(&lay), |sc| m.ggsw_prepare(&mut prep, &g, sc))?;
        Ok(prep)
    }

    pub fn gglwe_enc(&mut self, lay: &GGLWELayout, k: usize, sk: &GSk<B>, pts: &[Vec<i64>], name: &str) -> Result<GGLWE<Vec<u8>>, String> {
        let m = self.m;
        let ni = noise_infos(self.noise, k);
        let (mut xe, mut xa) = self.sources();
        let mut g = GGLWE::alloc_from_infos(lay);
        let mut pt = ScalarZnx::alloc(pts[0].len(), pts.len());
        for (c, p) in pts.iter().enumerate() {
            pt.at_mut(c, 0).copy_from_slice(p);
        }
        self.sx
            .call::<B, _>("gglwe_encrypt_sk", m.gglwe_encrypt_sk_tmp_bytes(lay), |sc| m.gglwe_encrypt_sk(&mut g, &pt, &sk.prep, &ni, &mut xe, &mut xa, sc))?;
        self.obs.push(name, "gglwe_encrypt_sk", ser(&g));
        Ok(g)
    }

    pub fn glwe_enc(&mut self, n: usize, b: usize, k: usize, sk: &GSk<B>, mc: Msg, name: &str) -> Result<GLWE<Vec<u8>>, String> {
        let m = self.m;
        let rank = sk.clear.len();
        let lay = glwe_lay(n, b, k, rank);
        let mv = message(mc, n, 4, self.seed);
        let pt = plaintext(n, b, k, &mv, 4);
        let ni = noise_infos(self.noise, k);
        let (mut xe, mut xa) = self.sources();
        let mut ct = glwe_zeroed(n, b, k, rank);
        self.sx
            .call::<B, _>("glwe_encrypt_sk", m.glwe_encrypt_sk_tmp_bytes(&lay), |sc| m.glwe_encrypt_sk(&mut ct, &pt, &sk.prep, &ni, &mut xe, &mut xa, sc))?;
        self.obs.push(name, "glwe_encrypt_sk", vz(ct.data()));
        Ok(ct)
    }

    pub fn glwe_dec(&mut self, ct: &GLWE<Vec<u8>>, sk: &GSk<B>, name: &str) -> Result<(), String> {
        use poulpy_core::layouts::{GLWEInfos, LWEInfos};
        let m = self.m;
        let mut pt = GLWEPlaintext::alloc(ct.n(), ct.base2k(), ct.max_k());
        fill_bytes(pt.data.data.as_mut_slice(), self.res_fill);
        let lay = glwe_lay(ct.n().as_usize(), ct.base2k().as_usize(), ct.max_k().as_usize(), ct.rank().as_usize());
        self.sx.call::<B, _>("glwe_decrypt", m.glwe_decrypt_tmp_bytes(&lay), |sc| m.glwe_decrypt(ct, &mut pt, &sk.prep, sc))?;
        self.obs.push(name, "glwe_decrypt", vz(&pt.data));
        Ok(())
    }

    pub fn lwe_dec(&mut self, ct: &LWE<Vec<u8>>, sk: &LSk, name: &str) -> Result<(), String> {
        use poulpy_core::layouts::LWEInfos;
        let m = self.m;
        let mut pt = LWEPlaintext::alloc(ct.base2k(), ct.max_k());
        fill_bytes(pt.data_mut().data.as_mut_slice(), self.res_fill);
        let lay = LWELayout {
            n: ct.n(),
            base2k: ct.base2k(),
            k: ct.max_k(),
        };
        self.sx.call::<B, _>("lwe_decrypt", m.lwe_decrypt_tmp_bytes(&lay), |sc| m.lwe_decrypt(ct, &mut pt, &sk.sk, sc))?;
        self.obs.push(name, "lwe_decrypt", vz(pt.data()));
        Ok(())
    }

    pub fn res_glwe(&self, n: usize, b: usize, k: usize, rank: usize) -> GLWE<Vec<u8>> {
        let mut ct = glwe_zeroed(n, b, k, rank);
        fill_bytes(ct.data_mut().data.as_mut_slice(), self.res_fill);
        ct
    }

    pub fn watch(&mut self, name: &str, before: &[u8], after: &[u8]) {
        if before != after {
            self.obs.operand_modified.push(name.into());
        }
    }
}

fn small_poly(n: usize, seed: u64, k: u64) -> Vec<i64> {
    let mut r = pvc_engine::rng::Rng::new(seed, 0x5A + k);
    (0..n).map(|_| r.range_i64(-1, 1)).collect()
}

/// gadget of the matrix operand (left operand of matrix external products, switched GGLWE / GGSW / key)
pub fn mat_gadget(s: &Shape) -> (usize, usize) {
    let dsize = if s.a_size >= 4 { 2 } else { 1 };
    (s.a_size / dsize, dsize)
}

/// Runs the pipeline of case `c`; `Err` = "operation: panic message".
pub fn run_case<B: Bk>(c: &XCase, sx: &mut Sx, res_fill: usize, seed: u64) -> Result<Obs, String>
where
    Module<B>: HalAll<B> + CoreAll<B> + Cmux<B> + Cswap<B>,
    Scratch<B>: ScratchTakeCore<B>,
{
    let s = &c.shape;
    let n = s.n;
    let m = B::module(n);
    let log_n = n.trailing_zeros() as usize;
    let mut e = Env::<B> {
        m: &m,
        sx,
        obs: Obs::default(),
        seed: seed ^ pvc_engine::fnv(format!("{:?}{:?}{}{}", c.op, c.shape, c.p, c.q).as_bytes()),
        res_fill,
        noise: s.noise,
        ctr: 0,
    };
    let k_in = s.a_size * s.b_in;
    let k_out = s.res_size * s.b_out;
    let opn = c.op.name();
    let a_lay = glwe_lay(n, s.b_in, k_in, s.rank_in);
    let r_lay = glwe_lay(n, s.b_out, k_out, s.rank_out);
    match c.op {
        XOp::Ks(kop) => {
            let sk_in = e.secret(n, s.rank_in, 1);
            let sk_out = if kop.is_auto() { e.secret(n, s.rank_in, 1) } else { e.secret(n, s.rank_out, 2) };
            let ct = e.glwe_enc(n, s.b_in, k_in, &sk_in, Msg::Ramp, "input")?;
            let before = vz(ct.data());
            let mut res = if kop.inplace() { glwe_clone(&ct) } else { e.res_glwe(n, s.b_out, k_out, s.rank_out) };
            if kop.is_auto() {
                let key = e.atk(s, &sk_in, c.p)?;
                let kl = Env::<B>::atk_layout(s);
                let bytes = if kop.inplace() { m.glwe_automorphism_tmp_bytes(&a_lay, &a_lay, &kl) } else { m.glwe_automorphism_tmp_bytes(&r_lay, &a_lay, &kl) };
                e.sx.call::<B, _>(opn, bytes, |sc| match kop {
                    KsOp::Automorphism => m.glwe_automorphism(&mut res, &ct, &key, sc),
                    KsOp::AutomorphismAssign => m.glwe_automorphism_assign(&mut res, &key, sc),
                    KsOp::AutomorphismAdd => m.glwe_automorphism_add(&mut res, &ct, &key, sc),
                    KsOp::AutomorphismAddAssign => m.glwe_automorphism_add_assign(&mut res, &key, sc),
                    KsOp::AutomorphismSub => m.glwe_automorphism_sub(&mut res, &ct, &key, sc),
                    KsOp::AutomorphismSubAssign => m.glwe_automorphism_sub_assign(&mut res, &key, sc),
                    KsOp::AutomorphismSubNegate => m.glwe_automorphism_sub_negate(&mut res, &ct, &key, sc),
                    KsOp::AutomorphismSubNegateAssign => m.glwe_automorphism_sub_negate_assign(&mut res, &key, sc),
                    _ => unreachable!(),
                })?;
            } else {
                let key = e.ksk(s, &sk_in, &sk_out)?;
                let kl = GLWESwitchingKeyLayout {
                    n: (n as u32).into(),
                    base2k: (s.b_key as u32).into(),
                    k: (s.k_key as u32).into(),
                    rank_in: (s.rank_in as u32).into(),
                    rank_out: (s.rank_out as u32).into(),
                    dnum: (s.dnum as u32).into(),
                    dsize: (s.dsize as u32).into(),
                };
                let bytes = if kop.inplace() { m.glwe_keyswitch_tmp_bytes(&a_lay, &a_lay, &kl) } else { m.glwe_keyswitch_tmp_bytes(&r_lay, &a_lay, &kl) };
                e.sx.call::<B, _>(opn, bytes, |sc| {
                    if kop.inplace() {
                        m.glwe_keyswitch_assign(&mut res, &key, sc)
                    } else {
                        m.glwe_keyswitch(&mut res, &ct, &key, sc)
                    }
                })?;
            }
            e.watch("input", &before, &vz(ct.data()));
            e.obs.push("result", opn, vz(res.data()));
            e.glwe_dec(&res, &sk_out, "decrypted")?;
        }
        XOp::Trace | XOp::TraceAssign | XOp::Pack | XOp::Packer => {
            let sk = e.secret(n, s.rank_in, 1);
            let gs = if c.op == XOp::Packer { glwe_packer_galois_elements(&m) } else { m.glwe_trace_galois_elements() };
            let keys = e.atks(s, &sk, &gs)?;
            let kl = Env::<B>::atk_layout(s);
            match c.op {
                XOp::Trace | XOp::TraceAssign => {
                    let ct = e.glwe_enc(n, s.b_in, k_in, &sk, Msg::Ramp, "input")?;
                    let before = vz(ct.data());
                    let assign = c.op == XOp::TraceAssign;
                    let mut res = if assign { glwe_clone(&ct) } else { e.res_glwe(n, s.b_out, k_out, s.rank_in) };
                    let bytes = if assign { m.glwe_trace_tmp_bytes(&a_lay, &a_lay, &kl) } else { m.glwe_trace_tmp_bytes(&r_lay, &a_lay, &kl) };
                    let skip = c.p as usize;
                    e.sx.call::<B, _>(opn, bytes, |sc| {
                        if assign {
                            m.glwe_trace_assign(&mut res, skip, &keys, sc)
                        } else {
                            m.glwe_trace(&mut res, skip, &ct, &keys, sc)
                        }
                    })?;
                    e.watch("input", &before, &vz(ct.data()));
                    e.obs.push("result", opn, vz(res.data()));
                    e.glwe_dec(&res, &sk, "decrypted")?;
                }
                _ => {
                    let gap = c.p as usize;
                    let slots = n >> gap;
                    let mut cts = vec![];
                    for t in 0..slots {
                        if c.q >> t & 1 == 1 {
                            cts.push((t, e.glwe_enc(n, s.b_in, k_in, &sk, Msg::Random(t as u8), &format!("input[{t}]"))?));
                        }
                    }
                    let mut res = e.res_glwe(n, s.b_out, k_out, s.rank_in);
                    if c.op == XOp::Pack {
                        // the query takes the result layout only; the inputs are worked on in place and may be longer than
                        // the result: the larger of query(result) and query(input layout) is handed over
                        let bytes = m.glwe_pack_tmp_bytes(&r_lay, &kl).max(m.glwe_pack_tmp_bytes(&a_lay, &kl));
                        let mut work: Vec<(usize, GLWE<Vec<u8>>)> = cts.iter().map(|(t, ct)| (t << gap, glwe_clone(ct))).collect();
                        let map: HashMap<usize, &mut GLWE<Vec<u8>>> = work.iter_mut().map(|(i, ct)| (*i, ct)).collect();
                        e.sx.call::<B, _>(opn, bytes, |sc| m.glwe_pack(&mut res, map, gap, &keys, sc))?;
                    } else {
                        let mut pk = GLWEPacker::alloc(&a_lay, gap);
                        let bytes = glwe_packer_tmp_bytes(&m, &a_lay, &kl);
                        for t in 0..slots {
                            let a = cts.iter().find(|(i, _)| *i == t).map(|(_, ct)| ct);
                            e.sx.call::<B, _>("glwe_packer_add", bytes, |sc| glwe_packer_add(&m, &mut pk, a, &keys, sc))?;
                        }
                        // the flush normalises into the result radix: it has no query of its own, the packer's serves it
                        e.sx.call::<B, _>("glwe_packer_flush", bytes, |sc| glwe_packer_flush(&m, &mut pk, &mut res, sc))?;
                    }
                    e.obs.push("result", opn, vz(res.data()));
                    e.glwe_dec(&res, &sk, "decrypted")?;
                }
            }
        }
        XOp::LweKs | XOp::GlweFromLwe | XOp::LweFromGlwe | XOp::SampleExtract => {
            let ni = noise_infos(s.noise, s.k_key);
            let n_lwe = (c.q as usize).clamp(1, n);
            match c.op {
                XOp::SampleExtract => {
                    let sk = e.secret(n, 1, 1);
                    let ct = e.glwe_enc(n, s.b_in, k_in, &sk, Msg::Ramp, "input")?;
                    let before = vz(ct.data());
                    let mut res = LWE::alloc((n_lwe as u32).into(), (s.b_in as u32).into(), (k_out as u32).into());
                    fill_bytes(res.data_mut().data.as_mut_slice(), e.res_fill);
                    guarded(|| m.lwe_sample_extract(&mut res, &ct)).map_err(|p| format!("{opn}: {p}"))?;
                    e.watch("input", &before, &vz(ct.data()));
                    e.obs.push("result", opn, vz(res.data()));
                }
                XOp::LweKs => {
                    let s_in = lwe_sk(n_lwe, Dist::TernaryProb, seed32(e.seed, 2001));
                    let s_out = lwe_sk((n_lwe + 1).min(n), Dist::TernaryProb, seed32(e.seed, 2002));
                    let lay = LWESwitchingKeyLayout {
                        n: (n as u32).into(),
                        base2k: (s.b_key as u32).into(),
                        k: (s.k_key as u32).into(),
                        dnum: (s.dnum as u32).into(),
                    };
                    let (mut xe, mut xa) = e.sources();
                    let mut ksk = LWESwitchingKey::alloc_from_infos(&lay);
                    e.sx.call::<B, _>("lwe_switching_key_encrypt_sk", m.lwe_switching_key_encrypt_sk_tmp_bytes(&lay), |sc| {
                        m.lwe_switching_key_encrypt_sk(&mut ksk, &s_in.sk, &s_out.sk, &ni, &mut xe, &mut xa, sc)
                    })?;
                    e.obs.push("lwe_switching_key", "lwe_switching_key_encrypt_sk", ser(&ksk));
                    let mut prep = m.lwe_switching_key_prepared_alloc_from_infos(&ksk);
                    e.sx.call::<B, _>("lwe_switching_key_prepare", m.lwe_switching_key_prepare_tmp_bytes(&lay), |sc| {
                        m.lwe_switching_key_prepare(&mut prep, &ksk, sc)
                    })?;
                    let al = LWELayout {
                        n: (n_lwe as u32).into(),
                        base2k: (s.b_in as u32).into(),
                        k: (k_in as u32).into(),
                    };
                    let rl = LWELayout {
                        n: (s_out.clear.len() as u32).into(),
                        base2k: (s.b_out as u32).into(),
                        k: (k_out as u32).into(),
                    };
                    let mut a = LWE::alloc_from_infos(&al);
                    let mut pt = LWEPlaintext::alloc((s.b_in as u32).into(), (k_in as u32).into());
                    pt.data_mut().at_mut(0, 0)[0] = 5 << (s.b_in - 4);
                    let nin = noise_infos(s.noise, k_in);
                    let (mut xe, mut xa) = e.sources();
                    e.sx
                        .call::<B, _>("lwe_encrypt_sk", m.lwe_encrypt_sk_tmp_bytes(&al), |sc| m.lwe_encrypt_sk(&mut a, &pt, &s_in.sk, &nin, &mut xe, &mut xa, sc))?;
                    e.obs.push("input", "lwe_encrypt_sk", vz(a.data()));
                    let before = vz(a.data());
                    let mut res = LWE::alloc_from_infos(&rl);
                    fill_bytes(res.data_mut().data.as_mut_slice(), e.res_fill);
                    e.sx.call::<B, _>(opn, m.lwe_keyswitch_tmp_bytes(&rl, &al, &lay), |sc| m.lwe_keyswitch(&mut res, &a, &prep, sc))?;
                    e.watch("input", &before, &vz(a.data()));
                    e.obs.push("result", opn, vz(res.data()));
                    e.lwe_dec(&res, &s_out, "decrypted")?;
                }
                XOp::GlweFromLwe => {
                    let s_l = lwe_sk(n_lwe, Dist::TernaryProb, seed32(e.seed, 2001));
                    let s_g = e.secret(n, s.rank_out, 2);
                    let lay = LWEToGLWEKeyLayout {
                        n: (n as u32).into(),
                        base2k: (s.b_key as u32).into(),
                        k: (s.k_key as u32).into(),
                        rank_out: (s.rank_out as u32).into(),
                        dnum: (s.dnum as u32).into(),
                    };
                    let (mut xe, mut xa) = e.sources();
                    let mut ksk = LWEToGLWEKey::alloc_from_infos(&lay);
                    e.sx.call::<B, _>("lwe_to_glwe_key_encrypt_sk", m.lwe_to_glwe_key_encrypt_sk_tmp_bytes(&lay), |sc| {
                        m.lwe_to_glwe_key_encrypt_sk(&mut ksk, &s_l.sk, &s_g.prep, &ni, &mut xe, &mut xa, sc)
                    })?;
                    e.obs.push("lwe_to_glwe_key", "lwe_to_glwe_key_encrypt_sk", ser(&ksk));
                    let mut prep = m.lwe_to_glwe_key_prepared_alloc_from_infos(&ksk);
                    e.sx
                        .call::<B, _>("lwe_to_glwe_key_prepare", m.lwe_to_glwe_key_prepare_tmp_bytes(&lay), |sc| m.lwe_to_glwe_key_prepare(&mut prep, &ksk, sc))?;
                    let al = LWELayout {
                        n: (n_lwe as u32).into(),
                        base2k: (s.b_in as u32).into(),
                        k: (k_in as u32).into(),
                    };
                    let mut a = LWE::alloc_from_infos(&al);
                    fill_raw(a.data_mut(), s.b_in, Raw::Random(0), e.seed);
                    let before = vz(a.data());
                    let mut res = e.res_glwe(n, s.b_out, k_out, s.rank_out);
                    e.sx.call::<B, _>(opn, m.glwe_from_lwe_tmp_bytes(&r_lay, &al, &lay), |sc| m.glwe_from_lwe(&mut res, &a, &prep, sc))?;
                    e.watch("input", &before, &vz(a.data()));
                    e.obs.push("result", opn, vz(res.data()));
                    e.glwe_dec(&res, &s_g, "decrypted")?;
                }
                _ => {
                    let s_l = lwe_sk(n_lwe, Dist::TernaryProb, seed32(e.seed, 2001));
                    let s_g = e.secret(n, s.rank_in, 2);
                    let lay = GLWEToLWEKeyLayout {
                        n: (n as u32).into(),
                        base2k: (s.b_key as u32).into(),
                        k: (s.k_key as u32).into(),
                        rank_in: (s.rank_in as u32).into(),
                        dnum: (s.dnum as u32).into(),
                    };
                    let (mut xe, mut xa) = e.sources();
                    let mut ksk = GLWEToLWEKey::alloc_from_infos(&lay);
                    e.sx.call::<B, _>("glwe_to_lwe_key_encrypt_sk", m.glwe_to_lwe_key_encrypt_sk_tmp_bytes(&lay), |sc| {
                        m.glwe_to_lwe_key_encrypt_sk(&mut ksk, &s_l.sk, &s_g.sk, &ni, &mut xe, &mut xa, sc)
                    })?;
                    e.obs.push("glwe_to_lwe_key", "glwe_to_lwe_key_encrypt_sk", ser(&ksk));
                    let mut prep = m.glwe_to_lwe_key_prepared_alloc_from_infos(&ksk);
                    e.sx
                        .call::<B, _>("glwe_to_lwe_key_prepare", m.glwe_to_lwe_key_prepare_tmp_bytes(&lay), |sc| m.glwe_to_lwe_key_prepare(&mut prep, &ksk, sc))?;
                    let ct = e.glwe_enc(n, s.b_in, k_in, &s_g, Msg::Ramp, "input")?;
                    let before = vz(ct.data());
                    let rl = LWELayout {
                        n: (n_lwe as u32).into(),
                        base2k: (s.b_out as u32).into(),
                        k: (k_out as u32).into(),
                    };
                    let mut res = LWE::alloc_from_infos(&rl);
                    fill_bytes(res.data_mut().data.as_mut_slice(), e.res_fill);
                    let idx = c.p as usize;
                    e.sx.call::<B, _>(opn, m.lwe_from_glwe_tmp_bytes(&rl, &a_lay, &lay), |sc| m.lwe_from_glwe(&mut res, &ct, idx, &prep, sc))?;
                    e.watch("input", &before, &vz(ct.data()));
                    e.obs.push("result", opn, vz(res.data()));
                    e.lwe_dec(&res, &s_l, "decrypted")?;
                }
            }
        }
        XOp::GglweKs | XOp::GglweKsAssign => {
            let assign = c.op == XOp::GglweKsAssign;
            let sk_mid = e.secret(n, s.rank_in, 1);
            let sk_out = e.secret(n, s.rank_out, 2);
            let key = e.ksk(s, &sk_mid, &sk_out)?;
            let (a_dnum, a_dsize) = mat_gadget(s);
            let al = GGLWELayout {
                n: (n as u32).into(),
                base2k: (s.b_in as u32).into(),
                k: (k_in as u32).into(),
                rank_in: 2u32.into(),
                rank_out: (s.rank_in as u32).into(),
                dnum: (a_dnum as u32).into(),
                dsize: (a_dsize as u32).into(),
            };
            let rl = GGLWELayout {
                k: ((s.res_size.max(a_dsize + 1).max(a_dnum * a_dsize) * s.b_in) as u32).into(),
                rank_out: (s.rank_out as u32).into(),
                ..al
            };
            let pts = vec![small_poly(n, e.seed, 1), small_poly(n, e.seed, 2)];
            let a = e.gglwe_enc(&al, k_in, &sk_mid, &pts, "input")?;
            let before = ser(&a);
            let kl = GLWESwitchingKeyLayout {
                n: (n as u32).into(),
                base2k: (s.b_key as u32).into(),
                k: (s.k_key as u32).into(),
                rank_in: (s.rank_in as u32).into(),
                rank_out: (s.rank_out as u32).into(),
                dnum: (s.dnum as u32).into(),
                dsize: (s.dsize as u32).into(),
            };
            let mut res = GGLWE::alloc_from_infos(if assign { &al } else { &rl });
            if assign {
                DataViewMut::data_mut(res.data_mut()).copy_from_slice(DataView::data(a.data()));
            } else {
                fill_bytes(DataViewMut::data_mut(res.data_mut()).as_mut_slice(), e.res_fill);
            }
            let bytes = if assign { m.gglwe_keyswitch_tmp_bytes(&al, &al, &kl) } else { m.gglwe_keyswitch_tmp_bytes(&rl, &al, &kl) };
            e.sx.call::<B, _>(opn, bytes, |sc| {
                if assign {
                    m.gglwe_keyswitch_assign(&mut res, &key, sc)
                } else {
                    m.gglwe_keyswitch(&mut res, &a, &key, sc)
                }
            })?;
            e.watch("input", &before, &ser(&a));
            e.obs.push("result", opn, ser(&res));
        }
        XOp::AtkAuto | XOp::AtkAutoAssign => {
            let assign = c.op == XOp::AtkAutoAssign;
            let sk = e.secret(n, s.rank_in, 1);
            let key = e.atk(s, &sk, c.p)?;
            let (a_dnum, a_dsize) = mat_gadget(s);
            let al = GLWEAutomorphismKeyLayout {
                n: (n as u32).into(),
                base2k: (s.b_in as u32).into(),
                k: (k_in as u32).into(),
                rank: (s.rank_in as u32).into(),
                dnum: (a_dnum as u32).into(),
                dsize: (a_dsize as u32).into(),
            };
            let rl = GLWEAutomorphismKeyLayout {
                k: ((s.res_size.max(a_dsize + 1).max(a_dnum * a_dsize) * s.b_in) as u32).into(),
                ..al
            };
            let nin = noise_infos(s.noise, k_in);
            let (mut xe, mut xa) = e.sources();
            let mut a = GLWEAutomorphismKey::alloc_from_infos(&al);
            e.sx.call::<B, _>("glwe_automorphism_key_encrypt_sk", m.glwe_automorphism_key_encrypt_sk_tmp_bytes(&al), |sc| {
                m.glwe_automorphism_key_encrypt_sk(&mut a, 5, &sk.sk, &nin, &mut xe, &mut xa, sc)
            })?;
            e.obs.push("input", "glwe_automorphism_key_encrypt_sk", ser(&a));
            let before = ser(&a);
            let kl = Env::<B>::atk_layout(s);
            let mut res = GLWEAutomorphismKey::alloc_from_infos(if assign { &al } else { &rl });
            for r in 0..a_dnum {
                for col in 0..s.rank_in {
                    if assign {
                        res.at_mut(r, col).data_mut().data.copy_from_slice(a.at(r, col).data().data);
                    } else {
                        fill_bytes(res.at_mut(r, col).data_mut().data, e.res_fill);
                    }
                }
            }
            if assign {
                use poulpy_core::layouts::SetGaloisElement;
                res.set_p(a.p());
            }
            let bytes = if assign {
                m.glwe_automorphism_key_automorphism_tmp_bytes(&al, &al, &kl)
            } else {
                m.glwe_automorphism_key_automorphism_tmp_bytes(&rl, &al, &kl)
            };
            e.sx.call::<B, _>(opn, bytes, |sc| {
                if assign {
                    m.glwe_automorphism_key_automorphism_assign(&mut res, &key, sc)
                } else {
                    m.glwe_automorphism_key_automorphism(&mut res, &a, &key, sc)
                }
            })?;
            e.watch("input", &before, &ser(&a));
            e.obs.push("result", opn, ser(&res));
        }
        XOp::GgswKs | XOp::GgswKsAssign | XOp::GgswAuto | XOp::GgswAutoAssign | XOp::GgswFromGglwe | XOp::GgswExpandRow => {
            let is_ks = matches!(c.op, XOp::GgswKs | XOp::GgswKsAssign);
            let is_auto = matches!(c.op, XOp::GgswAuto | XOp::GgswAutoAssign);
            let inplace = c.op.inplace();
            let sk_in = e.secret(n, s.rank_in, 1);
            let sk_out = if is_ks { e.secret(n, s.rank_in, 2) } else { e.secret(n, s.rank_in, 1) };
            let tsk = e.tsk(s, &sk_out)?;
            let tl = Env::<B>::tsk_layout(s);
            let (g_dnum, g_dsize) = mat_gadget(s);
            let al = GGSWLayout {
                n: (n as u32).into(),
                base2k: (s.b_in as u32).into(),
                k: (k_in as u32).into(),
                rank: (s.rank_in as u32).into(),
                dnum: (g_dnum as u32).into(),
                dsize: (g_dsize as u32).into(),
            };
            let rl = GGSWLayout {
                k: ((s.res_size.max(g_dsize + 1).max(g_dnum * g_dsize) * s.b_in) as u32).into(),
                ..al
            };
            let m2 = small_poly(n, e.seed, 3);
            let mut res = GGSW::alloc_from_infos(if inplace { &al } else { &rl });
            if !inplace {
                let (rows, cols) = ggsw_dims(&res);
                for r in 0..rows {
                    for col in 0..cols {
                        fill_bytes(res.at_mut(r, col).data_mut().data, e.res_fill);
                    }
                }
            }
            if c.op == XOp::GgswFromGglwe {
                let gl = GGLWELayout {
                    n: (n as u32).into(),
                    base2k: (s.b_in as u32).into(),
                    k: (k_in as u32).into(),
                    rank_in: 1u32.into(),
                    rank_out: (s.rank_in as u32).into(),
                    dnum: (g_dnum as u32).into(),
                    dsize: (g_dsize as u32).into(),
                };
                let a = e.gglwe_enc(&gl, k_in, &sk_in, &[m2.clone()], "input")?;
                let before = ser(&a);
                e.sx.call::<B, _>(opn, m.ggsw_from_gglwe_tmp_bytes(&rl, &tl), |sc| m.ggsw_from_gglwe(&mut res, &a, &tsk, sc))?;
                e.watch("input", &before, &ser(&a));
            } else {
                let mut a = e.ggsw_enc(&al, k_in, &sk_in, &m2, "input")?;
                if c.op == XOp::GgswExpandRow {
                    // only column 0 is an input of the expansion: the other columns start as garbage
                    for row in 0..g_dnum {
                        for col in 1..=s.rank_in {
                            fill_bytes(a.at_mut(row, col).data_mut().data, e.res_fill);
                        }
                    }
                }
                let before = ggsw_bytes(&a);
                if inplace {
                    ggsw_copy(&mut res, &a);
                }
                match c.op {
                    XOp::GgswExpandRow => {
                        e.sx.call::<B, _>(opn, m.ggsw_expand_rows_tmp_bytes(&al, &tl), |sc| m.ggsw_expand_row(&mut res, &tsk, sc))?;
                    }
                    XOp::GgswKs | XOp::GgswKsAssign => {
                        let mut sh = s.clone();
                        sh.rank_out = s.rank_in;
                        let key = e.ksk(&sh, &sk_in, &sk_out)?;
                        let kl = GLWESwitchingKeyLayout {
                            n: (n as u32).into(),
                            base2k: (s.b_key as u32).into(),
                            k: (s.k_key as u32).into(),
                            rank_in: (s.rank_in as u32).into(),
                            rank_out: (s.rank_in as u32).into(),
                            dnum: (s.dnum as u32).into(),
                            dsize: (s.dsize as u32).into(),
                        };
                        if inplace {
                            e.sx.call::<B, _>(opn, m.ggsw_keyswitch_tmp_bytes(&al, &al, &kl, &tl), |sc| m.ggsw_keyswitch_assign(&mut res, &key, &tsk, sc))?;
                        } else {
                            e.sx.call::<B, _>(opn, m.ggsw_keyswitch_tmp_bytes(&rl, &al, &kl, &tl), |sc| m.ggsw_keyswitch(&mut res, &a, &key, &tsk, sc))?;
                        }
                    }
                    _ => {
                        let key = e.atk(s, &sk_in, c.p)?;
                        let kl = Env::<B>::atk_layout(s);
                        if inplace {
                            e.sx
                                .call::<B, _>(opn, m.ggsw_automorphism_tmp_bytes(&al, &al, &kl, &tl), |sc| m.ggsw_automorphism_assign(&mut res, &key, &tsk, sc))?;
                        } else {
                            e.sx
                                .call::<B, _>(opn, m.ggsw_automorphism_tmp_bytes(&rl, &al, &kl, &tl), |sc| m.ggsw_automorphism(&mut res, &a, &key, &tsk, sc))?;
                        }
                    }
                }
                let _ = is_auto;
                e.watch("input", &before, &ggsw_bytes(&a));
            }
            e.obs.push("result", opn, ggsw_bytes(&res));
        }
        XOp::Xp | XOp::XpAssign => {
            let assign = c.op == XOp::XpAssign;
            let sk = e.secret(n, s.rank_in, 1);
            let m2 = m2_poly(M2::XPow(n + 3), n);
            let g = e.ggsw_prep(s, &sk, &m2)?;
            let gl = Env::<B>::ggsw_key_layout(s);
            let ct = e.glwe_enc(n, s.b_in, k_in, &sk, Msg::Ramp, "input")?;
            let before = vz(ct.data());
            let mut res = if assign { glwe_clone(&ct) } else { e.res_glwe(n, s.b_out, k_out, s.rank_in) };
            let bytes = if assign { m.glwe_external_product_tmp_bytes(&a_lay, &a_lay, &gl) } else { m.glwe_external_product_tmp_bytes(&r_lay, &a_lay, &gl) };
            e.sx.call::<B, _>(opn, bytes, |sc| {
                if assign {
                    m.glwe_external_product_assign(&mut res, &g, sc)
                } else {
                    m.glwe_external_product(&mut res, &ct, &g, sc)
                }
            })?;
            e.watch("input", &before, &vz(ct.data()));
            e.obs.push("result", opn, vz(res.data()));
            e.glwe_dec(&res, &sk, "decrypted")?;
        }
        XOp::GglweXp | XOp::GglweXpAssign | XOp::GgswXp | XOp::GgswXpAssign => {
            let assign = c.op.inplace();
            let is_ggsw = matches!(c.op, XOp::GgswXp | XOp::GgswXpAssign);
            let sk = e.secret(n, s.rank_in, 1);
            let m2 = m2_poly(M2::XPow(n + 1), n);
            let g = e.ggsw_prep(s, &sk, &m2)?;
            let gl = Env::<B>::ggsw_key_layout(s);
            let (a_dnum, a_dsize) = mat_gadget(s);
            let k_r = s.res_size.max(a_dsize + 1).max(a_dnum * a_dsize) * s.b_in;
            if is_ggsw {
                let al = GGSWLayout {
                    n: (n as u32).into(),
                    base2k: (s.b_in as u32).into(),
                    k: (k_in as u32).into(),
                    rank: (s.rank_in as u32).into(),
                    dnum: (a_dnum as u32).into(),
                    dsize: (a_dsize as u32).into(),
                };
                let rl = GGSWLayout {
                    k: (k_r as u32).into(),
                    ..al
                };
                let a = e.ggsw_enc(&al, k_in, &sk, &small_poly(n, e.seed, 4), "input")?;
                let before = ggsw_bytes(&a);
                let mut res = GGSW::alloc_from_infos(if assign { &al } else { &rl });
                if assign {
                    ggsw_copy(&mut res, &a);
                } else {
                    let (rows, cols) = ggsw_dims(&res);
                    for r in 0..rows {
                        for col in 0..cols {
                            fill_bytes(res.at_mut(r, col).data_mut().data, e.res_fill);
                        }
                    }
                }
                let bytes = if assign { m.ggsw_external_product_tmp_bytes(&al, &al, &gl) } else { m.ggsw_external_product_tmp_bytes(&rl, &al, &gl) };
                e.sx.call::<B, _>(opn, bytes, |sc| {
                    if assign {
                        m.ggsw_external_product_assign(&mut res, &g, sc)
                    } else {
                        m.ggsw_external_product(&mut res, &a, &g, sc)
                    }
                })?;
                e.watch("input", &before, &ggsw_bytes(&a));
                e.obs.push("result", opn, ggsw_bytes(&res));
            } else {
                let al = GGLWELayout {
                    n: (n as u32).into(),
                    base2k: (s.b_in as u32).into(),
                    k: (k_in as u32).into(),
                    rank_in: 2u32.into(),
                    rank_out: (s.rank_in as u32).into(),
                    dnum: (a_dnum as u32).into(),
                    dsize: (a_dsize as u32).into(),
                };
                let rl = GGLWELayout {
                    k: (k_r as u32).into(),
                    ..al
                };
                let a = e.gglwe_enc(&al, k_in, &sk, &[small_poly(n, e.seed, 5), small_poly(n, e.seed, 6)], "input")?;
                let before = ser(&a);
                let mut res = GGLWE::alloc_from_infos(if assign { &al } else { &rl });
                if assign {
                    DataViewMut::data_mut(res.data_mut()).copy_from_slice(DataView::data(a.data()));
                } else {
                    fill_bytes(DataViewMut::data_mut(res.data_mut()).as_mut_slice(), e.res_fill);
                }
                let bytes = if assign { m.gglwe_external_product_tmp_bytes(&al, &al, &gl) } else { m.gglwe_external_product_tmp_bytes(&rl, &al, &gl) };
                e.sx.call::<B, _>(opn, bytes, |sc| {
                    if assign {
                        m.gglwe_external_product_assign(&mut res, &g, sc)
                    } else {
                        m.gglwe_external_product(&mut res, &a, &g, sc)
                    }
                })?;
                e.watch("input", &before, &ser(&a));
                e.obs.push("result", opn, ser(&res));
            }
        }
        XOp::Cmux | XOp::CmuxAssign | XOp::CmuxAssignNeg | XOp::Cswap => {
            let sk = e.secret(n, s.rank_in, 1);
            let m2 = m2_poly(if c.q & 1 == 1 { M2::One } else { M2::Zero }, n);
            let g = e.ggsw_prep(s, &sk, &m2)?;
            let gl = Env::<B>::ggsw_key_layout(s);
            let ct_t = e.glwe_enc(n, s.b_in, k_in, &sk, Msg::MaxPos, "input_t")?;
            let ct_f = e.glwe_enc(n, s.b_in, k_in, &sk, Msg::MinNeg, "input_f")?;
            let (bt, bf) = (vz(ct_t.data()), vz(ct_f.data()));
            match c.op {
                XOp::Cmux => {
                    let mut res = e.res_glwe(n, s.b_out, k_out, s.rank_in);
                    e.sx.call::<B, _>(opn, m.cmux_tmp_bytes(&r_lay, &a_lay, &gl), |sc| m.cmux(&mut res, &ct_t, &ct_f, &g, sc))?;
                    e.watch("input_t", &bt, &vz(ct_t.data()));
                    e.watch("input_f", &bf, &vz(ct_f.data()));
                    e.obs.push("result", opn, vz(res.data()));
                    e.glwe_dec(&res, &sk, "decrypted")?;
                }
                XOp::CmuxAssign | XOp::CmuxAssignNeg => {
                    let mut res = glwe_clone(&ct_t);
                    e.sx.call::<B, _>(opn, m.cmux_tmp_bytes(&a_lay, &a_lay, &gl), |sc| {
                        if c.op == XOp::CmuxAssign {
                            m.cmux_assign(&mut res, &ct_f, &g, sc)
                        } else {
                            m.cmux_assign_neg(&mut res, &ct_f, &g, sc)
                        }
                    })?;
                    e.watch("input_f", &bf, &vz(ct_f.data()));
                    e.obs.push("result", opn, vz(res.data()));
                    e.glwe_dec(&res, &sk, "decrypted")?;
                }
                _ => {
                    let mut ra = glwe_clone(&ct_t);
                    let mut rb = glwe_clone(&ct_f);
                    e.sx.call::<B, _>(opn, m.cswap_tmp_bytes(&a_lay, &a_lay, &gl), |sc| m.cswap(&mut ra, &mut rb, &g, sc))?;
                    e.obs.push("result_a", opn, vz(ra.data()));
                    e.obs.push("result_b", opn, vz(rb.data()));
                    e.glwe_dec(&ra, &sk, "decrypted_a")?;
                    e.glwe_dec(&rb, &sk, "decrypted_b")?;
                }
            }
        }
    }
    let _ = log_n;
    Ok(e.obs)
}

// ---------------------------------------------------------------------------------------------
// the reduced shape grid of the cross-cutting parts
// ---------------------------------------------------------------------------------------------

/// dsize 1..4, ranks 1..3, radix triples equal / cross, input longer than the result, keys one digit above the input
pub fn grid(op: XOp, tier: Tier) -> Vec<(Shape, i64, u64)> {
    let mut out = vec![];
    let ns: Vec<usize> = tier.pick(vec![8], vec![8, 16]);
    let triples: Vec<(usize, usize, usize)> = tier.pick(vec![(12, 12, 12), (10, 12, 8), (12, 17, 12), (17, 10, 12), (5, 15, 10)], vec![(12, 12, 12), (17, 17, 17), (10, 12, 8), (12, 17, 12), (17, 10, 12), (5, 15, 10), (15, 5, 10)]);
    for &n in &ns {
        let log_n = n.trailing_zeros() as usize;
        for &(b_in, b_key, b_out) in &triples {
            if op.needs_all_radix_equal() && !(b_in == b_key && b_key == b_out) {
                continue;
            }
            if op.needs_b_in_eq_b_out() && b_in != b_out {
                continue;
            }
            let rank_pairs: Vec<(usize, usize)> = if op.same_rank() { vec![(1, 1), (2, 2), (3, 3)] } else { vec![(1, 1), (1, 3), (2, 2), (3, 1), (3, 3)] };
            for (rank_in, rank_out) in rank_pairs {
                if matches!(op, XOp::LweKs | XOp::SampleExtract) && rank_in != 1 {
                    continue;
                }
                let dsizes: Vec<usize> = if op.dsize_one() { vec![1] } else { vec![1, 2, 3, 4] };
                for dsize in dsizes {
                    for a_size in tier.pick(vec![2, 5], vec![2, 3, 5]) {
                        let a_conv = if b_in == b_key { a_size } else { (a_size * b_in).div_ceil(b_key) };
                        let dnum = a_conv.div_ceil(dsize);
                        let min_size = (dnum * dsize).max(dsize + 1);
                        let k_key = (a_conv * b_key + dsize * b_key + 1).max(min_size * b_key);
                        let eq = (a_size * b_in).div_ceil(b_out);
                        // result as long as the input, and shorter (input GLWE with more limbs than the output)
                        let mut res_sizes = vec![(eq, "equal")];
                        if !op.inplace() && eq > 1 {
                            res_sizes.push((eq - 1, "shorter"));
                        }
                        for (res_size, res_rel) in res_sizes {
                            let (rank_in, rank_out) = match op {
                                XOp::GlweFromLwe => (1, rank_out),
                                XOp::LweFromGlwe => (rank_in, 1),
                                _ => (rank_in, rank_out),
                            };
                            let shape = Shape {
                                n,
                                rank_in,
                                rank_out,
                                dsize,
                                a_size,
                                dnum,
                                dnum_rel: "equal".into(),
                                k_key,
                                kprec: "above".into(),
                                b_in,
                                b_key,
                                b_out,
                                res_size,
                                res_rel: res_rel.into(),
                                noise: NoiseCfg::Default,
                            };
                            let params: Vec<(i64, u64)> = match op {
                                XOp::Ks(k) if k.is_auto() => vec![(5, 0), (-1, 0)],
                                XOp::AtkAuto | XOp::AtkAutoAssign | XOp::GgswAuto | XOp::GgswAutoAssign => vec![(3, 0)],
                                XOp::Trace | XOp::TraceAssign => vec![(0, 0), ((log_n - 1) as i64, 0)],
                                XOp::Pack => vec![(0, 0b1011_0110 & ((1u64 << n.min(63)) - 1)), (1, 0b101)],
                                XOp::Packer => vec![(0, 0b0110_1101 & ((1u64 << n.min(63)) - 1)), (1, 0b110)],
                                // extraction index 0 and > 0 (the latter takes an additional temporary); LWE dimensions whose
                                // byte size is not a multiple of 64
                                XOp::LweFromGlwe => vec![(0, n as u64), (3, 5)],
                                XOp::LweKs | XOp::GlweFromLwe | XOp::SampleExtract => vec![(0, n as u64), (0, 5)],
                                XOp::Cmux | XOp::CmuxAssign | XOp::CmuxAssignNeg | XOp::Cswap => vec![(0, 0), (0, 1)],
                                _ => vec![(0, 0)],
                            };
                            for (p, q) in params {
                                out.push((shape.clone(), p, q));
                            }
                        }
                    }
                }
            }
        }
    }
    out
}

pub fn all_cases<B: Bk>(tier: Tier) -> Vec<XCase> {
    let mut cs = vec![];
    for &op in ALL_XOPS.iter() {
        for (shape, p, q) in grid(op, tier) {
            cs.push(XCase {
                op,
                backend: B::NAME.into(),
                shape,
                p,
                q,
            });
        }
    }
    cs
}

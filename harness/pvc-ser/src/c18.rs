//! C18 - serialisation round-trips, and rejects damaged input without corruption (engine E4: byte-stream fault
//! enumerator).
//!
//! For every `ReaderFrom`/`WriterTo` type found by the source scan (`scan.rs`; a type without a driver is a machinery
//! error) and every admissible parameter tuple of a small grid:
//!  * `roundtrip`  - write, read back into receivers with the same shape, other scalar metadata, a larger capacity
//!                   in each capacity dimension and in all of them, an exact capacity for a shrunk source, and a
//!                   smaller capacity in each dimension;
//!  * `truncation` - the stream cut at EVERY length 0..L-1;
//!  * `header`     - EVERY header field replaced by EVERY entry of a boundary dictionary. Fields are located
//!                   mechanically: (a) the deserialiser is run once on the valid stream through an instrumented
//!                   `Read` that logs every (offset, length) it requests - every logged request that is not payload
//!                   is a field; (b) every 4- and 8-byte word at 4-byte steps of every maximal non-payload run (from
//!                   both ends of the run), (c) differential writes (two objects that differ in one parameter) label
//!                   the words with the parameter(s) they encode.
//!  * `receiver_reuse` - ONE receiver per (type, parameters) is taken through every history of depth <= 2 (quick) /
//!                   3 (thorough) over {small valid objects, the large valid object that fills its allocation,
//!                   truncated streams, header-corrupted streams}: a well-formed stream that fits the ALLOCATED
//!                   capacity must be accepted whatever was read before (`valid_stream_rejected_after_history`) and
//!                   reproduce its source; after an Err the receiver is unchanged; invariants after every step.
//! In the first three families each faulty stream is fed to a fresh receiver (same dimensions but other radix / seeds / Galois element / degrees /
//! distribution, so that a change is visible; and one that is larger in every capacity dimension) inside `guarded`.
//!
//! Oracle (failure kinds): `read_from` never panics (`panic_overflow`, `panic_alloc`, `panic_other`); after EITHER
//! outcome the dimensions seen through public accessors fit the buffer - size <= max_size, n*cols*size*8 <=
//! data.len(), n*cols*max_size*8 <= data.len() - and `write_to` works on the object (`inconsistent_after_ok`,
//! `inconsistent_after_err`); after `Err` the receiver re-serialises to the same stream length and the same
//! non-payload bytes as before the call (`metadata_changed_on_err`); a strict prefix is never accepted
//! (`accepted_truncated`); a valid stream is accepted by every receiver of sufficient capacity
//! (`roundtrip_rejected`) and reproduces the object (`roundtrip_mismatch`: re-serialised stream, logical
//! dimensions, the type's own `==`).
//! Not judged, only recorded in the evidence notes: panics of public information accessors on an accepted object
//! (`accessor_panic_after_*`) and lenient parsing (`accepted_not_faithful`).
//!
//! Failures are grouped per (family, type, operation, kind, normalised detail); the representative is the instance
//! with the smallest (case, inner) index, `instances` counts the group and `seen_with` lists the value classes,
//! fields and receivers of the group.

use crate::scan;
use crate::subjects::{DRIVERS, Dim, P, Shape, Subject};
use crate::with_subject;
use pvc_engine::rng::Rng;
use pvc_engine::{Failure, Rec, Run, Tier, fnv, guarded};
use serde::{Deserialize, Serialize};
use serde_json::{Value, json};
use std::collections::BTreeMap;
use std::io::Read;
use std::sync::Mutex;

pub const B2K: usize = 17;
pub const B2K_ALT: usize = 13;

// ------------------------------------------------------------------------------------------------ cases

#[derive(Clone, Copy, Debug, PartialEq, Eq, Serialize, Deserialize)]
pub enum Recv {
    /// same dimensions, other radix and other settable metadata
    Alt,
    /// every capacity dimension one step larger, other radix and metadata
    Larger,
}

#[derive(Clone, Debug, Serialize, Deserialize)]
pub struct Case {
    pub idx: usize,
    pub ty: String,
    pub p: P,
    /// receiver kind of the fault families (unused by `roundtrip`)
    pub recv: Recv,
}

fn dim_values(d: Dim, tier: Tier) -> Vec<usize> {
    let t = tier.is_thorough();
    match d {
        Dim::N => {
            if t {
                vec![8, 16]
            } else {
                vec![8]
            }
        }
        Dim::Size => {
            if t {
                vec![1, 2, 3, 4]
            } else {
                vec![1, 2, 3]
            }
        }
        Dim::Rank => vec![0, 1, 2],
        Dim::RankIn => {
            if t {
                vec![1, 2]
            } else {
                vec![1]
            }
        }
        Dim::Dnum => vec![1, 2],
        Dim::Dsize => vec![1, 2],
        Dim::Cnt => {
            if t {
                vec![1, 2]
            } else {
                vec![1]
            }
        }
        Dim::Opt => vec![0, 1],
        Dim::Shrink => vec![0, 1],
    }
}

fn base_p() -> P {
    P {
        n: 0,
        b2k: B2K,
        size: 0,
        rank: 0,
        rank_in: 0,
        dnum: 0,
        dsize: 0,
        cnt: 0,
        opt: 0,
        shrink: 0,
    }
}

/// A parameter tuple is admissible if the library constructor accepts it (its asserts are the documented
/// preconditions) and the fresh object answers its own accessors.
fn admissible<S: Subject>(p: &P) -> bool {
    guarded(|| {
        let mut o = S::alloc(p);
        if p.shrink > 0 && !o.shrink(p.shrink) {
            panic!("cannot shrink");
        }
        let mut v = vec![];
        o.shapes(&mut v);
        o.probe();
        let mut b = vec![];
        o.write_to(&mut b).unwrap();
    })
    .is_ok()
}

fn grid<S: Subject>(tier: Tier) -> (Vec<P>, usize) {
    let mut out = vec![base_p()];
    for d in S::DIMS {
        let mut next = vec![];
        for p in &out {
            for v in dim_values(*d, tier) {
                next.push(p.with(*d, v));
            }
        }
        out = next;
    }
    let total = out.len();
    let mut out: Vec<P> = out.into_iter().filter(|p| admissible::<S>(p)).collect();
    // simplest first: by serialised volume, then lexicographically
    out.sort_by_key(|p| (p.n * (p.size.max(1)) * (p.rank + 1) * p.rank_in.max(1) * p.dnum.max(1) * p.cnt.max(1), *p));
    (out, total)
}

fn grid_of(ty: &str, tier: Tier) -> (Vec<P>, usize) {
    with_subject!(ty, grid(tier))
}

// ------------------------------------------------------------------------------------------------ stream tools

/// Writer that refuses to grow beyond `limit` bytes (a receiver that committed a garbage seed count would
/// otherwise re-serialise to gigabytes).
struct Bounded {
    buf: Vec<u8>,
    limit: usize,
}

const SNAPSHOT_LIMIT: &str = "snapshot exceeds its size bound";

impl std::io::Write for Bounded {
    fn write(&mut self, b: &[u8]) -> std::io::Result<usize> {
        if self.buf.len() + b.len() > self.limit {
            return Err(std::io::Error::other(SNAPSHOT_LIMIT));
        }
        self.buf.extend_from_slice(b);
        Ok(b.len())
    }
    fn flush(&mut self) -> std::io::Result<()> {
        Ok(())
    }
}

fn ser<S: Subject>(o: &S) -> Result<Vec<u8>, String> {
    ser_bounded(o, 1 << 24)
}

fn ser_bounded<S: Subject>(o: &S, limit: usize) -> Result<Vec<u8>, String> {
    match guarded(|| {
        let mut b = Bounded {
            buf: Vec::new(),
            limit,
        };
        o.write_to(&mut b).map(|_| b.buf)
    }) {
        Ok(Ok(b)) => Ok(b),
        Ok(Err(e)) => Err(format!("write_to error: {e}")),
        Err(p) => Err(format!("write_to panic: {p}")),
    }
}

/// `Read` over a slice that logs every request it serves.
struct Tracer<'a> {
    buf: &'a [u8],
    pos: usize,
    log: Vec<(usize, usize)>,
}

impl Read for Tracer<'_> {
    fn read(&mut self, out: &mut [u8]) -> std::io::Result<usize> {
        let n = out.len().min(self.buf.len() - self.pos);
        out[..n].copy_from_slice(&self.buf[self.pos..self.pos + n]);
        if n > 0 {
            self.log.push((self.pos, n));
        }
        self.pos += n;
        Ok(n)
    }
}

#[derive(Clone, Debug)]
pub struct Seg {
    pub off: usize,
    pub len: usize,
    pub payload: bool,
}

/// Byte-level structure of the stream of one (type, parameters, metadata variant).
pub struct Layout {
    pub segs: Vec<Seg>,
    /// non-payload bytes
    pub header: Vec<bool>,
    pub len: usize,
}

impl Layout {
    fn runs(&self) -> Vec<(usize, usize)> {
        let mut out = vec![];
        let mut i = 0;
        while i < self.len {
            if self.header[i] {
                let a = i;
                while i < self.len && self.header[i] {
                    i += 1;
                }
                out.push((a, i));
            } else {
                i += 1;
            }
        }
        out
    }
    fn seg_at(&self, pos: usize) -> Option<(usize, &Seg)> {
        self.segs.iter().enumerate().find(|(_, s)| s.off <= pos && pos < s.off + s.len)
    }
}

fn new_obj<S: Subject>(p: &P, meta: u64) -> S {
    let mut o = S::alloc(p);
    o.set_meta(meta);
    if p.shrink > 0 {
        assert!(o.shrink(p.shrink), "cannot shrink");
    }
    o
}

fn layout<S: Subject>(p: &P, meta: u64) -> Result<Layout, String> {
    let mut o: S = new_obj(p, meta);
    let s0 = ser(&o)?;
    // the deserialiser itself tells where it reads what
    let mut full = *p;
    full.shrink = 0;
    let mut r: S = S::alloc(&full);
    let mut tr = Tracer {
        buf: &s0,
        pos: 0,
        log: vec![],
    };
    match guarded(|| r.read_from(&mut tr)) {
        Ok(Ok(())) => {}
        Ok(Err(e)) => return Err(format!("valid stream rejected by a fresh receiver of the same parameters: {e}")),
        Err(m) => return Err(format!("panic while reading a valid stream: {m}")),
    }
    if tr.pos != s0.len() {
        return Err(format!("reader consumed {} of {} bytes of a valid stream", tr.pos, s0.len()));
    }
    let mut segs: Vec<Seg> = tr
        .log
        .iter()
        .map(|&(off, len)| Seg {
            off,
            len,
            payload: false,
        })
        .collect();
    let mut at = 0;
    for s in &segs {
        assert_eq!(s.off, at, "read requests are not contiguous");
        at += s.len;
    }
    if S::STREAM_FILL {
        // no FillUniform: a request longer than a seed (32 bytes) is coefficient payload (n >= 8 on the grid)
        for s in segs.iter_mut() {
            s.payload = s.len > 32;
        }
    } else {
        o.fill(0xA11CE);
        let a = ser(&o)?;
        o.fill(0xB0B);
        let b = ser(&o)?;
        if a.len() != s0.len() || b.len() != s0.len() {
            return Err("stream length depends on the payload".into());
        }
        for s in segs.iter_mut() {
            let r = s.off..s.off + s.len;
            s.payload = a[r.clone()] != b[r.clone()] || a[r.clone()] != s0[r];
        }
    }
    let mut header = vec![true; s0.len()];
    for s in &segs {
        if s.payload {
            header[s.off..s.off + s.len].fill(false);
        }
    }
    Ok(Layout {
        segs,
        header,
        len: s0.len(),
    })
}

/// Object with metadata variant `meta` and a garbage payload derived from `seed`.
fn make<S: Subject>(p: &P, meta: u64, seed: u64) -> Result<S, String> {
    let mut o: S = new_obj(p, meta);
    if S::STREAM_FILL {
        let lay = layout::<S>(p, meta)?;
        let mut g = ser(&o)?;
        let mut rng = Rng::new(seed, 0x5712EA);
        for s in lay.segs.iter().filter(|s| s.payload) {
            for c in g[s.off..s.off + s.len].chunks_mut(8) {
                let w = rng.next().to_le_bytes();
                c.copy_from_slice(&w[..c.len()]);
            }
        }
        match guarded(|| o.read_from(&mut &g[..])) {
            Ok(Ok(())) => {}
            Ok(Err(e)) => return Err(format!("payload-randomised valid stream rejected: {e}")),
            Err(m) => return Err(format!("panic on payload-randomised valid stream: {m}")),
        }
        if ser(&o)? != g {
            return Err("payload-randomised valid stream does not re-serialise to itself".into());
        }
    } else {
        o.fill(seed);
    }
    Ok(o)
}

// ------------------------------------------------------------------------------------------------ observation

struct Obs {
    shapes: Result<Vec<Shape>, String>,
    probe: Result<(), String>,
    snap: Result<Vec<u8>, String>,
}

fn observe<S: Subject>(o: &S, limit: usize) -> Obs {
    Obs {
        shapes: guarded(|| {
            let mut v = vec![];
            o.shapes(&mut v);
            v
        }),
        probe: guarded(|| o.probe()),
        snap: ser_bounded(o, limit),
    }
}

/// byte capacity of each buffer of a freshly allocated receiver
fn capacities(shapes: &[Shape]) -> Vec<u128> {
    shapes
        .iter()
        .map(|s| match s.len {
            Some(l) => l as u128,
            // the library allocates every buffer padded to a multiple of 64 bytes (poulpy_hal::alloc_aligned)
            None => s.bytes(s.max_size.unwrap_or(s.size)).div_ceil(64) * 64,
        })
        .collect()
}

#[derive(Clone, Debug)]
struct Finding {
    kind: String,
    detail: String,
    extra: Value,
    /// false: recorded as an observation (counter + sample in the evidence notes), not judged by C18
    judged: bool,
}

fn finding(kind: &str, detail: impl Into<String>, extra: Value) -> Finding {
    Finding {
        kind: kind.to_string(),
        detail: detail.into(),
        extra,
        judged: true,
    }
}

fn observation(kind: &str, detail: impl Into<String>, extra: Value) -> Finding {
    Finding {
        kind: kind.to_string(),
        detail: detail.into(),
        extra,
        judged: false,
    }
}

fn panic_kind(msg: &str) -> &'static str {
    if msg.contains("memory allocation") || msg.contains("capacity overflow") {
        "panic_alloc"
    } else if msg.contains("overflow") {
        "panic_overflow"
    } else {
        "panic_other"
    }
}

/// strips the run-specific part of a message (numbers) so that messages group
fn norm(msg: &str) -> String {
    let mut out = String::new();
    let mut last_digit = false;
    for c in msg.chars() {
        if c.is_ascii_digit() {
            if !last_digit {
                out.push('#');
            }
            last_digit = true;
        } else {
            out.push(c);
            last_digit = false;
        }
    }
    out.chars().take(160).collect()
}

enum Outcome {
    Ok,
    Err(String),
    Panic(String),
}

struct ReceiverModel<'a> {
    obs0: &'a Obs,
    caps: &'a [u128],
    lay: &'a Layout,
}

/// The oracle on the state of a receiver after `read_from` returned (`fed[..consumed]` is what it took).
fn post_check(out: &Outcome, m: &ReceiverModel, obs1: &Obs, fed: &[u8], consumed: usize) -> Vec<Finding> {
    let mut f = vec![];
    let after = match out {
        Outcome::Ok => "ok",
        Outcome::Err(_) => "err",
        Outcome::Panic(_) => return f,
    };
    let mut dims_bad = false;
    match &obs1.shapes {
        Err(msg) => {
            // the dimension accessors themselves panic (e.g. rank = cols - 1 underflows on an accepted cols = 0):
            // the inequalities cannot be evaluated; reported as an observation, C18 does not promise accessors
            dims_bad = true;
            f.push(observation(&format!("accessor_panic_after_{after}"), norm(msg), json!({"accessor": "dimensions", "panic": msg})))
        }
        Ok(sh) => {
            for (i, s) in sh.iter().enumerate() {
                let Some(cap) = m.caps.get(i).copied() else {
                    continue;
                };
                let mut bad = vec![];
                if let Some(ms) = s.max_size {
                    if s.size > ms {
                        bad.push("size>max_size");
                    }
                    if s.bytes(ms) > cap {
                        bad.push("n*cols*max_size*8>data.len()");
                    }
                }
                if s.bytes(s.size) > cap {
                    bad.push("n*cols*size*8>data.len()");
                }
                if !bad.is_empty() {
                    dims_bad = true;
                    f.push(finding(
                        &format!("inconsistent_after_{after}"),
                        bad.join(" & "),
                        json!({"buffer": s.what, "dims": s.dims, "size": s.size, "max_size": s.max_size, "data_len": cap.min(u64::MAX as u128) as u64}),
                    ));
                }
            }
        }
    }
    if let Err(msg) = &obs1.probe {
        f.push(observation(&format!("accessor_panic_after_{after}"), norm(msg), json!({"accessor": "infos", "panic": msg})));
    }
    match (&obs1.snap, &m.obs0.snap) {
        (Err(msg), Ok(s0)) => {
            if msg.contains(SNAPSHOT_LIMIT) {
                if matches!(out, Outcome::Err(_)) {
                    f.push(finding(
                        "metadata_changed_on_err",
                        "first changed stream_len",
                        json!({"changed": [{"stream_len_before": s0.len(), "stream_len_after": "more than 2x the stream that was fed"}]}),
                    ));
                } else {
                    f.push(observation("accepted_not_faithful", "re-serialised stream grows beyond 2x the accepted stream", json!({})));
                }
            } else if !dims_bad {
                // write_to refuses or panics on the object: its dimensions exceed its buffer
                f.push(finding(&format!("inconsistent_after_{after}"), format!("write_to fails: {}", norm(msg)), json!({"write_to": msg})));
            }
        }
        (Ok(s1), Ok(s0)) => match out {
            Outcome::Err(_) => {
                // metadata unchanged: same length and same non-payload bytes as before the call
                let mut changed = vec![];
                if s1.len() != s0.len() {
                    changed.push(json!({"stream_len_before": s0.len(), "stream_len_after": s1.len()}));
                }
                let mut offs = vec![];
                for i in 0..s1.len().min(s0.len()) {
                    if m.lay.header.get(i).copied().unwrap_or(false) && s1[i] != s0[i] {
                        offs.push(i);
                    }
                }
                if !offs.is_empty() || !changed.is_empty() {
                    // express the change as traced fields of the receiver's own stream
                    let mut fields = vec![];
                    let mut seen = std::collections::BTreeSet::new();
                    for o in &offs {
                        if let Some((si, sg)) = m.lay.seg_at(*o)
                            && seen.insert(si)
                            && fields.len() < 6
                        {
                            let r = sg.off..sg.off + sg.len;
                            fields.push(json!({"off": sg.off, "w": sg.len, "before": hex(&s0[r.clone()]), "after": hex(&s1[r])}));
                        }
                    }
                    let first = offs.first().and_then(|o| m.lay.seg_at(*o)).map(|(_, s)| format!("field@{}+{}", s.off, s.len)).unwrap_or_else(|| "stream_len".into());
                    f.push(finding(
                        "metadata_changed_on_err",
                        format!("first changed {first}"),
                        json!({"changed_fields": fields, "changed": changed, "changed_bytes": offs.len()}),
                    ));
                } else if let (Ok(a), Ok(b)) = (&obs1.shapes, &m.obs0.shapes)
                    && a != b
                {
                    f.push(finding("metadata_changed_on_err", "dimensions", json!({"before": b, "after": a})));
                }
            }
            Outcome::Ok => {
                // the receiver now holds what it consumed (lenient parsing of don't-care bits is only noted)
                let acc = &fed[..consumed.min(fed.len())];
                if s1 != acc {
                    let d = (0..s1.len().min(acc.len())).find(|&i| s1[i] != acc[i]);
                    f.push(observation(
                        "accepted_not_faithful",
                        "accepted bytes are not what the receiver re-serialises to",
                        json!({"first_diff": d, "len_consumed": acc.len(), "len_back": s1.len()}),
                    ));
                }
            }
            Outcome::Panic(_) => {}
        },
        _ => {}
    }
    f
}

fn hex(b: &[u8]) -> String {
    if b.len() == 8 {
        format!("{}", u64::from_le_bytes(b.try_into().unwrap()))
    } else if b.len() == 4 {
        format!("{}", u32::from_le_bytes(b.try_into().unwrap()))
    } else {
        b.iter().take(16).map(|x| format!("{x:02x}")).collect::<String>()
    }
}

// ------------------------------------------------------------------------------------------------ failure collection

struct Entry {
    order: u64,
    desc: Value,
    count: u64,
    tags: BTreeMap<&'static str, std::collections::BTreeSet<String>>,
}

/// Failures are grouped by class (family, type, operation, kind, normalised detail) over the whole family; the
/// instance with the smallest (case, inner) index is kept as the representative (deterministic irrespective of
/// scheduling), the others are counted and their value classes / field labels / receivers accumulated.
pub struct Collector {
    map: Mutex<BTreeMap<String, Entry>>,
}

impl Collector {
    fn new() -> Self {
        Collector {
            map: Mutex::new(BTreeMap::new()),
        }
    }
    /// merges the per-case aggregate of one worker (one lock acquisition per outer case)
    fn merge(&self, local: BTreeMap<String, Entry>) {
        let mut m = self.map.lock().unwrap();
        for (k, l) in local {
            match m.get_mut(&k) {
                Some(e) => {
                    e.count += l.count;
                    if l.order < e.order {
                        e.order = l.order;
                        e.desc = l.desc;
                    }
                    for (t, set) in l.tags {
                        let dst = e.tags.entry(t).or_default();
                        for v in set {
                            if dst.len() < 40 {
                                dst.insert(v);
                            }
                        }
                    }
                }
                None => {
                    m.insert(k, l);
                }
            }
        }
    }
    fn drain(self) -> Vec<(u64, Value, u64)> {
        let mut v: Vec<(u64, Value, u64)> = self
            .map
            .into_inner()
            .unwrap()
            .into_values()
            .map(|e| {
                let mut d = e.desc;
                if let Value::Object(m) = &mut d {
                    m.insert("instances".into(), json!(e.count));
                    m.insert("seen_with".into(), json!(e.tags));
                }
                (e.order, d, e.count)
            })
            .collect();
        v.sort_by_key(|e| e.0);
        v
    }
    fn flush(self, run: &mut Run, family: &str) {
        let v = self.drain();
        let Some(fam) = run.families.iter_mut().rev().find(|f| f.name == family) else {
            return;
        };
        let mut total = 0;
        for (order, mut d, n) in v {
            total += n;
            if let Value::Object(m) = &mut d {
                m.insert("family".into(), json!(family));
                m.insert("outer_index".into(), json!(order >> 24));
            }
            fam.rec.failures.push(Failure { desc: d });
        }
        fam.rec.extra.insert("violating_executions".into(), total);
        let classes = fam.rec.failures.len();
        fam.rec.extra.insert("violation_classes".into(), classes as u64);
        if classes > 0 {
            eprintln!("[C18] family {family}: {total} violating executions in {classes} classes");
        }
    }
    fn flush_notes(self, run: &mut Run, family: &str) {
        let v: Vec<Value> = self.drain().into_iter().map(|(_, d, _)| d).collect();
        if !v.is_empty() {
            eprintln!("[C18] family {family}: {} observation classes outside the property (see evidence notes)", v.len());
            run.note(&format!("observations_not_judged.{family}"), json!(v));
        }
    }
}

struct Cx<'a> {
    fam: &'static str,
    case: &'a Case,
    rec: &'a mut Rec,
    /// per-case aggregates, merged into the family collectors when the case ends
    local_fail: BTreeMap<String, Entry>,
    local_obs: BTreeMap<String, Entry>,
    inner_ctr: u64,
}

fn local_report(map: &mut BTreeMap<String, Entry>, key: String, order: u64, tags: &[(&'static str, String)], desc: impl FnOnce() -> Value) {
    let e = match map.get_mut(&key) {
        Some(e) => {
            // orders grow within a case: the first instance stays the representative
            e.count += 1;
            e
        }
        None => map.entry(key).or_insert(Entry {
            order,
            desc: desc(),
            count: 1,
            tags: BTreeMap::new(),
        }),
    };
    for (k, v) in tags {
        let set = e.tags.entry(k).or_default();
        if set.len() < 40 && !set.contains(v) {
            set.insert(v.clone());
        }
    }
}

impl Cx<'_> {
    fn order(&mut self) -> u64 {
        self.inner_ctr += 1;
        ((self.case.idx as u64) << 24) | self.inner_ctr.min((1 << 24) - 1)
    }
    fn fail(&mut self, op: &str, f: &Finding, tags: &[(&'static str, String)], inner: &Value, more: &Value) {
        let order = self.order();
        let key = format!("{}|{}|{}|{}|{}", self.fam, self.case.ty, op, f.kind, norm(&f.detail));
        let case = self.case;
        let build = || {
            let mut d = json!({
                "op": op, "backend": "any", "kind": f.kind, "detail": f.detail, "type": case.ty,
                "case": case, "inner": inner,
            });
            let m = d.as_object_mut().unwrap();
            if let Value::Object(e) = &f.extra {
                for (k, v) in e {
                    m.insert(k.clone(), v.clone());
                }
            }
            if let Value::Object(e) = more {
                for (k, v) in e {
                    m.insert(k.clone(), v.clone());
                }
            }
            d
        };
        if f.judged {
            self.rec.add(&format!("viol.{}", f.kind), 1);
            local_report(&mut self.local_fail, key, order, tags, build);
        } else {
            self.rec.add(&format!("obs.{}", f.kind), 1);
            local_report(&mut self.local_obs, key, order, tags, build);
        }
    }
}

// ------------------------------------------------------------------------------------------------ receivers

fn alt_of(p: &P) -> P {
    let mut q = *p;
    q.b2k = B2K_ALT;
    q.shrink = 0;
    q
}

/// every capacity dimension one step larger, as far as the constructor admits the combination
fn larger_of<S: Subject>(p: &P) -> P {
    let mut q = alt_of(p);
    for d in S::CAP {
        let g = q.grow(*d);
        if admissible::<S>(&g) {
            q = g;
        }
    }
    q
}

struct Receiver<S: Subject> {
    p: P,
    template: S,
    /// stream that rebuilds the template (types without Clone)
    template_stream: Vec<u8>,
    obs0: Obs,
    caps: Vec<u128>,
    lay: Layout,
}

impl<S: Subject> Receiver<S> {
    fn build(p: &P, meta: u64, seed: u64) -> Result<Self, String> {
        let template: S = make(p, meta, seed)?;
        let obs0 = observe(&template, 1 << 24);
        let shapes = obs0.shapes.clone().map_err(|e| format!("fresh receiver: {e}"))?;
        let template_stream = obs0.snap.clone().map_err(|e| format!("fresh receiver: {e}"))?;
        obs0.probe.clone().map_err(|e| format!("fresh receiver: {e}"))?;
        let lay = layout::<S>(p, meta)?;
        if lay.len != template_stream.len() {
            return Err("receiver layout length mismatch".into());
        }
        Ok(Receiver {
            p: *p,
            caps: capacities(&shapes),
            template,
            template_stream,
            obs0,
            lay,
        })
    }
    fn fresh(&self) -> S {
        match self.template.clone_opt() {
            Some(c) => c,
            None => {
                let mut o = S::alloc(&self.p);
                o.read_from(&mut &self.template_stream[..]).expect("rebuilding a receiver from its own stream");
                o
            }
        }
    }
    fn model(&self) -> ReceiverModel<'_> {
        ReceiverModel {
            obs0: &self.obs0,
            caps: &self.caps,
            lay: &self.lay,
        }
    }
    /// bound of the post-read snapshot: twice the larger of the receiver's own and the fed stream
    fn limit(&self, fed: usize) -> usize {
        2 * self.template_stream.len().max(fed) + 4096
    }
}

/// Runs `read_from` on `bytes`; returns the outcome and the number of bytes the reader took.
fn feed<S: Subject>(r: &mut S, bytes: &[u8]) -> (Outcome, usize) {
    let mut rd: &[u8] = bytes;
    let out = match guarded(|| r.read_from(&mut rd)) {
        Ok(Ok(())) => Outcome::Ok,
        Ok(Err(e)) => Outcome::Err(e.to_string()),
        Err(m) => Outcome::Panic(m),
    };
    (out, bytes.len() - rd.len())
}

fn outcome_hash(ty: &str, o: &Outcome) -> u64 {
    let s = match o {
        Outcome::Ok => "ok".to_string(),
        Outcome::Err(e) => format!("err:{}", norm(e)),
        Outcome::Panic(e) => format!("panic:{}", norm(e)),
    };
    fnv(format!("{ty}|{s}").as_bytes())
}

// ------------------------------------------------------------------------------------------------ family: roundtrip

fn exec_roundtrip<S: Subject>(cx: &mut Cx) {
    let p = cx.case.p;
    let none = json!({});
    let src: S = match make(&p, 0, 1) {
        Ok(s) => s,
        Err(e) => {
            let f = finding("roundtrip_mismatch", e.clone(), json!({"error": e}));
            cx.fail("write_to+read_from", &f, &[], &json!({"receiver": "fresh"}), &none);
            return;
        }
    };
    let stream = match ser(&src) {
        Ok(s) => s,
        Err(e) => {
            let f = finding(if e.contains("panic") { "panic_other" } else { "write_failed" }, e.clone(), json!({"error": e}));
            cx.fail("write_to", &f, &[], &none, &none);
            return;
        }
    };
    cx.rec.add("streams", 1);
    cx.rec.add("stream_bytes", stream.len() as u64);
    cx.rec.sample(|| json!({"type": S::NAME, "p": p, "stream_len": stream.len()}));
    let src_shapes = {
        let mut v = vec![];
        src.shapes(&mut v);
        v
    };
    // (name, params, metadata variant, capacity certainly sufficient)
    let mut rs: Vec<(String, P, u64, bool)> = vec![];
    let mut same = p;
    same.shrink = 0;
    rs.push(("same".into(), same, 0, true));
    rs.push(("alt_metadata".into(), alt_of(&p), 1, true));
    for d in S::CAP {
        rs.push((format!("larger:{}", d.name()), alt_of(&p).grow(*d), 1, true));
    }
    if S::CAP.len() > 1 {
        rs.push(("larger:all".into(), larger_of::<S>(&p), 1, true));
    }
    if p.shrink > 0 {
        // capacity exactly the active limb count of the shrunk source
        let mut q = alt_of(&p);
        q.size = p.size - p.shrink;
        // not "sufficient" in the sense of the property: an equal object would need the source's max_size, which this
        // buffer cannot hold, so rejecting is as acceptable as accepting - but the outcome must be consistent
        rs.push(("exact_active_size".into(), q, 1, false));
    }
    for d in S::CAP {
        if let Some(q) = alt_of(&p).reduce(*d) {
            rs.push((format!("smaller:{}", d.name()), q, 1, false));
        }
    }
    for (name, q, meta, sufficient) in rs {
        if !admissible::<S>(&q) {
            cx.rec.add("receivers_inadmissible", 1);
            continue;
        }
        let inner = json!({"receiver": name, "receiver_p": q});
        let tags = [("receivers", name.clone())];
        let recv = match Receiver::<S>::build(&q, meta, 2) {
            Ok(r) => r,
            Err(e) => {
                let f = finding("roundtrip_mismatch", e.clone(), json!({"error": e}));
                cx.fail("write_to+read_from", &f, &tags, &inner, &none);
                continue;
            }
        };
        let mut r = recv.fresh();
        let (out, consumed) = feed(&mut r, &stream);
        cx.rec.evals(1);
        cx.rec.add("roundtrips", 1);
        cx.rec.distinct(fnv(format!("{}|{}|{:?}", S::NAME, name, p).as_bytes()));
        cx.rec.outcome(outcome_hash(S::NAME, &out));
        let obs1 = observe(&r, recv.limit(stream.len()));
        match &out {
            Outcome::Panic(m) => {
                let f = finding(panic_kind(m), norm(m), json!({"panic": m}));
                cx.fail("read_from", &f, &tags, &inner, &none);
            }
            Outcome::Err(e) => {
                if sufficient {
                    let f = finding("roundtrip_rejected", norm(e), json!({"error": e}));
                    cx.fail("read_from", &f, &tags, &inner, &none);
                }
            }
            Outcome::Ok => {
                // equality: re-serialisation, logical dimensions, and the type's own == where the shapes coincide
                let mut why = vec![];
                if consumed != stream.len() {
                    why.push(format!("reader consumed {consumed} of {} bytes", stream.len()));
                }
                match &obs1.snap {
                    Ok(s) if *s == stream => {}
                    Ok(s) => why.push(format!(
                        "re-serialised stream differs at byte {:?} (len {} vs {})",
                        (0..s.len().min(stream.len())).find(|&i| s[i] != stream[i]),
                        s.len(),
                        stream.len()
                    )),
                    Err(_) => {}
                }
                if let Ok(sh) = &obs1.shapes {
                    let a: Vec<_> = sh.iter().map(|s| s.logical()).collect();
                    let b: Vec<_> = src_shapes.iter().map(|s| s.logical()).collect();
                    if a != b {
                        why.push(format!("dimensions {a:?} != source {b:?}"));
                    }
                }
                if name == "same" && p.shrink == 0 && r.native_eq(&src) == Some(false) {
                    why.push("PartialEq says receiver != source".into());
                }
                if !why.is_empty() {
                    let f = finding("roundtrip_mismatch", why.join("; "), json!({}));
                    cx.fail("write_to+read_from", &f, &tags, &inner, &none);
                }
            }
        }
        for f in post_check(&out, &recv.model(), &obs1, &stream, consumed) {
            cx.fail("read_from", &f, &tags, &inner, &json!({"stream": "valid"}));
        }
    }
}

// ------------------------------------------------------------------------------------------------ family: truncation

struct Prep<S: Subject> {
    stream: Vec<u8>,
    lay: Layout,
    recv: Receiver<S>,
}

fn prep<S: Subject>(cx: &mut Cx) -> Option<Prep<S>> {
    let p = cx.case.p;
    let kind = cx.case.recv;
    let r = (|| -> Result<Prep<S>, String> {
        let src: S = make(&p, 0, 1)?;
        let stream = ser(&src)?;
        let lay = layout::<S>(&p, 0)?;
        if lay.len != stream.len() {
            return Err("layout length mismatch".into());
        }
        let q = match kind {
            Recv::Alt => alt_of(&p),
            Recv::Larger => larger_of::<S>(&p),
        };
        let recv = Receiver::<S>::build(&q, 1, 2)?;
        Ok(Prep {
            stream,
            lay,
            recv,
        })
    })();
    match r {
        Ok(p) => Some(p),
        Err(e) => {
            // the valid-stream path is judged by the roundtrip family; here it only prevents fault injection
            cx.rec.add("cases_without_valid_baseline", 1);
            let f = finding("roundtrip_mismatch", e.clone(), json!({"error": e}));
            cx.fail("write_to+read_from", &f, &[], &json!({}), &json!({}));
            None
        }
    }
}

fn exec_truncation<S: Subject>(cx: &mut Cx) {
    let Some(pp) = prep::<S>(cx) else {
        return;
    };
    let l = pp.stream.len();
    cx.rec.add("streams", 1);
    cx.rec.add("truncation_points", l as u64);
    cx.rec.sample(|| json!({"type": S::NAME, "p": cx.case.p, "recv": cx.case.recv, "stream_len": l, "segments": pp.lay.segs.len()}));
    let model = pp.recv.model();
    let none = json!({});
    for t in 0..l {
        let mut r = pp.recv.fresh();
        let (out, consumed) = feed(&mut r, &pp.stream[..t]);
        cx.rec.evals(1);
        let (si, sg) = pp.lay.seg_at(t).map(|(i, s)| (i, s.clone())).unwrap();
        let region = if sg.payload { "payload" } else { "header" };
        cx.rec.distinct(fnv(format!("{}|{:?}|{:?}|{}|{}", S::NAME, cx.case.p, cx.case.recv, si, t - sg.off == 0).as_bytes()));
        cx.rec.outcome(outcome_hash(S::NAME, &out));
        let inner = json!({"t": t, "stream_len": l, "cut_in": region, "segment": {"index": si, "off": sg.off, "len": sg.len}});
        let tags = [("receivers", format!("{:?}", cx.case.recv)), ("cut_in", region.to_string())];
        match &out {
            Outcome::Panic(m) => {
                let f = finding(panic_kind(m), norm(m), json!({"panic": m}));
                cx.fail("read_from(truncated)", &f, &tags, &inner, &none);
                continue;
            }
            Outcome::Ok => {
                let f = finding("accepted_truncated", "Ok on a strict prefix of a valid stream", json!({}));
                cx.fail("read_from(truncated)", &f, &tags, &inner, &none);
            }
            Outcome::Err(_) => {}
        }
        let obs1 = observe(&r, pp.recv.limit(l));
        for f in post_check(&out, &model, &obs1, &pp.stream[..t], consumed) {
            cx.fail("read_from(truncated)", &f, &tags, &inner, &none);
        }
    }
}

// ------------------------------------------------------------------------------------------------ family: header faults

const LABELS: [&str; 11] = ["n", "size", "rank", "rank_in", "dnum", "dsize", "cnt", "opt", "shrink", "base2k", "meta"];

fn label_index(d: Dim) -> usize {
    LABELS.iter().position(|l| *l == d.name()).unwrap()
}

/// Differential writes: which parameter(s) influence which non-payload byte.
fn byte_labels<S: Subject>(p: &P, lay: &Layout) -> Vec<u16> {
    let mut lab = vec![0u16; lay.len];
    let Ok(base) = ser(&new_obj::<S>(p, 0)) else {
        return lab;
    };
    let runs = lay.runs();
    let mut mark = |other: &[u8], bit: usize, whole: bool| {
        let m = base.len().min(other.len());
        let Some(first) = (0..m).find(|&i| base[i] != other[i]) else {
            return;
        };
        // lengths equal: every differing non-payload byte; else only the header run that holds the first difference
        // (behind it the two streams are no longer aligned)
        let end = if whole && base.len() == other.len() {
            m
        } else {
            runs.iter().find(|(a, b)| *a <= first && first < *b).map(|r| r.1).unwrap_or(first + 1).min(m)
        };
        for i in first..end {
            if lay.header[i] && base[i] != other[i] {
                lab[i] |= 1 << bit;
            }
        }
    };
    for d in S::DIMS {
        let q = if *d == Dim::Shrink { p.with(Dim::Shrink, 1 - p.shrink.min(1)) } else { p.grow(*d) };
        if admissible::<S>(&q)
            && let Ok(o) = ser(&new_obj::<S>(&q, 0))
        {
            mark(&o, label_index(*d), false);
        }
    }
    let mut q = *p;
    q.b2k = B2K_ALT;
    if let Ok(o) = ser(&new_obj::<S>(&q, 0)) {
        mark(&o, 9, true);
    }
    if let Ok(o) = ser(&new_obj::<S>(p, 1)) {
        mark(&o, 10, true);
    }
    lab
}

#[derive(Clone, Debug, Serialize)]
pub struct Field {
    pub off: usize,
    pub w: usize,
    /// the deserialiser requests exactly these bytes in one read
    pub traced: bool,
    /// parameters that influence the bytes (differential writes)
    pub label: String,
    /// value of the byte-length word that ends the header run (the product of the dimensions times 8)
    pub run_len_word: Option<u64>,
}

fn fields_of<S: Subject>(p: &P, lay: &Layout, stream: &[u8], tier: Tier) -> Vec<Field> {
    let lab = byte_labels::<S>(p, lay);
    let mut set: BTreeMap<(usize, usize), bool> = BTreeMap::new();
    for s in lay.segs.iter().filter(|s| !s.payload) {
        if matches!(s.len, 1 | 4 | 8) {
            set.insert((s.off, s.len), true);
        }
    }
    for (a, b) in lay.runs() {
        let mut o = a;
        while o + 4 <= b {
            set.entry((o, 4)).or_insert(false);
            if o + 8 <= b {
                set.entry((o, 8)).or_insert(false);
            }
            o += 4;
        }
        // the same grid anchored at the end of the run (fields behind an odd-sized one)
        let mut e = b;
        while e >= a + 4 {
            set.entry((e - 4, 4)).or_insert(false);
            if e >= a + 8 {
                set.entry((e - 8, 8)).or_insert(false);
            }
            e -= 4;
        }
        if tier.is_thorough() {
            for i in a..b {
                set.entry((i, 1)).or_insert(false);
            }
        }
    }
    let runs = lay.runs();
    set.into_iter()
        .map(|((off, w), traced)| {
            let mut bits = 0u16;
            for l in &lab[off..off + w] {
                bits |= *l;
            }
            let label: Vec<&str> = LABELS.iter().enumerate().filter(|(i, _)| bits & (1 << i) != 0).map(|(_, l)| *l).collect();
            // last traced 8-byte request of the run = the byte length of the payload that follows
            let run = runs.iter().find(|(a, b)| *a <= off && off < *b).copied();
            let run_len_word = run.and_then(|(_, b)| {
                lay.segs
                    .iter()
                    .find(|s| !s.payload && s.len == 8 && s.off + 8 == b)
                    .filter(|_| b < lay.len)
                    .map(|s| u64::from_le_bytes(stream[s.off..s.off + 8].try_into().unwrap()))
            });
            Field {
                off,
                w,
                traced,
                label: label.join("+"),
                run_len_word,
            }
        })
        .collect()
}

/// The boundary dictionary for a field of width `w` bytes holding `v`.
fn dictionary(v: u64, w: usize, len_word: Option<u64>, tier: Tier) -> Vec<(&'static str, u64)> {
    let mask: u64 = if w >= 8 { u64::MAX } else { (1u64 << (8 * w)) - 1 };
    let mut c: Vec<(&'static str, u128)> = vec![
        ("zero", 0),
        ("one", 1),
        ("two", 2),
        ("v_minus_1", (v.wrapping_sub(1) & mask) as u128),
        ("v_plus_1", (v.wrapping_add(1) & mask) as u128),
    ];
    if w == 1 {
        c.push(("u8_max", 0xFF));
    }
    if w >= 4 {
        c.push(("2^31", 1 << 31));
        c.push(("2^32-1", (1u128 << 32) - 1));
    }
    if w >= 8 {
        c.push(("2^61", 1 << 61));
        c.push(("2^63", 1 << 63));
        c.push(("2^64-1", u64::MAX as u128));
        // the three smallest values whose product with the other dimensions (times 8) overflows usize, and the
        // smallest value above v whose product wraps to the same byte length
        if let Some(lw) = len_word
            && lw >= 2
        {
            let other: u128 = if v >= 1 && lw % v == 0 { (lw / v) as u128 } else { lw as u128 };
            if other >= 2 {
                let x0 = (1u128 << 64).div_ceil(other);
                c.push(("overflow_min", x0));
                c.push(("overflow_min+1", x0 + 1));
                c.push(("overflow_min+2", x0 + 2));
                let tz = other.trailing_zeros();
                if tz >= 1 {
                    c.push(("wraps_to_same_len", v as u128 + (1u128 << (64 - tz))));
                }
            }
        }
    }
    let quick_keep = ["zero", "v_minus_1", "v_plus_1", "2^32-1", "2^61", "2^64-1", "overflow_min", "wraps_to_same_len", "u8_max"];
    let mut out: Vec<(&'static str, u64)> = vec![];
    for (name, x) in c {
        if x > mask as u128 || x as u64 == v {
            continue;
        }
        if !tier.is_thorough() && !quick_keep.contains(&name) {
            continue;
        }
        if out.iter().any(|(_, y)| *y == x as u64) {
            continue;
        }
        out.push((name, x as u64));
    }
    out
}

fn exec_header<S: Subject>(cx: &mut Cx, tier: Tier) {
    let Some(pp) = prep::<S>(cx) else {
        return;
    };
    let fields = fields_of::<S>(&cx.case.p, &pp.lay, &pp.stream, tier);
    cx.rec.add("streams", 1);
    cx.rec.add("header_fields", fields.len() as u64);
    cx.rec.add("header_fields_traced", fields.iter().filter(|f| f.traced).count() as u64);
    cx.rec.add("header_bytes", pp.lay.header.iter().filter(|h| **h).count() as u64);
    cx.rec.sample(|| json!({"type": S::NAME, "p": cx.case.p, "recv": cx.case.recv, "stream_len": pp.stream.len(), "fields": fields.iter().filter(|f| f.traced).collect::<Vec<_>>()}));
    let model = pp.recv.model();
    let limit = pp.recv.limit(pp.stream.len());
    let mut faulty = pp.stream.clone();
    for fld in &fields {
        let mut vb = [0u8; 8];
        vb[..fld.w].copy_from_slice(&pp.stream[fld.off..fld.off + fld.w]);
        let v = u64::from_le_bytes(vb);
        for (vclass, x) in dictionary(v, fld.w, fld.run_len_word, tier) {
            faulty[fld.off..fld.off + fld.w].copy_from_slice(&x.to_le_bytes()[..fld.w]);
            let mut r = pp.recv.fresh();
            let (out, consumed) = feed(&mut r, &faulty);
            cx.rec.evals(1);
            cx.rec.add("header_faults", 1);
            cx.rec.distinct(fnv(format!("{}|{:?}|{}|{}|{}|{}", S::NAME, cx.case.recv, fld.label, fld.w, fld.traced, vclass).as_bytes()));
            cx.rec.outcome(outcome_hash(S::NAME, &out));
            let inner = json!({"field": fld, "original": v, "value": x, "value_class": vclass});
            let more = json!({"field": {"off": fld.off, "w": fld.w, "label": fld.label, "traced": fld.traced}, "value_class": vclass, "value": x, "original": v});
            let tags = [
                ("receivers", format!("{:?}", cx.case.recv)),
                ("value_classes", vclass.to_string()),
                ("fields", format!("{}+{}:{}", fld.off, fld.w, fld.label)),
            ];
            match &out {
                Outcome::Panic(m) => {
                    cx.rec.add("outcome_panic", 1);
                    let f = finding(panic_kind(m), norm(m), json!({"panic": m}));
                    cx.fail("read_from(corrupted)", &f, &tags, &inner, &more);
                    continue;
                }
                Outcome::Ok => cx.rec.add("outcome_ok_accepted", 1),
                Outcome::Err(_) => cx.rec.add("outcome_err_rejected", 1),
            }
            let obs1 = observe(&r, limit);
            for f in post_check(&out, &model, &obs1, &faulty, consumed) {
                cx.fail("read_from(corrupted)", &f, &tags, &inner, &more);
            }
        }
        faulty[fld.off..fld.off + fld.w].copy_from_slice(&pp.stream[fld.off..fld.off + fld.w]);
    }
}

// ------------------------------------------------------------------------------------------------ family: receiver_reuse

/// One step of a history on a single receiver.
struct Action<S: Subject> {
    name: String,
    bytes: Vec<u8>,
    /// Some: a well-formed stream of an object that fits the receiver's allocation (index into `sources`)
    valid: Option<usize>,
    truncated: bool,
    _p: std::marker::PhantomData<S>,
}

struct SourceObj {
    stream: Vec<u8>,
    shapes: Vec<Shape>,
    lay: Layout,
}

fn source_obj<S: Subject>(p: &P, seed: u64) -> Result<SourceObj, String> {
    let o: S = make(p, 0, seed)?;
    let stream = ser(&o)?;
    let mut shapes = vec![];
    guarded(|| o.shapes(&mut shapes)).map_err(|e| format!("source shapes: {e}"))?;
    let lay = layout::<S>(p, 0)?;
    if lay.len != stream.len() {
        return Err("layout length mismatch".into());
    }
    Ok(SourceObj {
        stream,
        shapes,
        lay,
    })
}

/// Node of the history tree: the receiver after `history`, what it must look like, and the layout of its own stream.
struct Node<'a> {
    history: Vec<usize>,
    obs: Obs,
    /// layout of the receiver's current stream; None after a faulty stream was accepted (then only the dimensions and
    /// the stream length are compared after a later Err)
    lay: Option<&'a Layout>,
}

fn unknown_layout(len: usize) -> Layout {
    Layout {
        segs: vec![],
        header: vec![false; len],
        len,
    }
}

fn exec_reuse<S: Subject>(cx: &mut Cx, depth: usize) {
    let p = cx.case.p;
    let none = json!({});
    // the receiver: allocated for `p`, other radix and metadata
    let built = (|| -> Result<(Receiver<S>, Vec<SourceObj>, Vec<String>), String> {
        let recv = Receiver::<S>::build(&alt_of(&p), 1, 2)?;
        let mut sources = vec![source_obj::<S>(&p, 11)?];
        let mut names = vec!["large".to_string()];
        // small objects: one step smaller in the first reducible capacity dimension, and in all of them
        let mut smalls: Vec<(String, P)> = vec![];
        for d in S::CAP {
            if let Some(q) = p.reduce(*d)
                && admissible::<S>(&q)
            {
                smalls.push((format!("small:{}", d.name()), q));
                break;
            }
        }
        let mut all = p;
        for d in S::CAP {
            if let Some(q) = all.reduce(*d)
                && admissible::<S>(&q)
            {
                all = q;
            }
        }
        if all != p && !smalls.iter().any(|(_, q)| *q == all) {
            smalls.push(("small:all".into(), all));
        }
        for (i, (n, q)) in smalls.iter().enumerate() {
            sources.push(source_obj::<S>(q, 12 + i as u64)?);
            names.push(n.clone());
        }
        Ok((recv, sources, names))
    })();
    let (recv, sources, names) = match built {
        Ok(x) => x,
        Err(e) => {
            cx.rec.add("cases_without_valid_baseline", 1);
            let f = finding("roundtrip_mismatch", e.clone(), json!({"error": e}));
            cx.fail("write_to+read_from", &f, &[], &none, &none);
            return;
        }
    };
    // alphabet
    let mut acts: Vec<Action<S>> = vec![];
    for (i, n) in names.iter().enumerate().skip(1) {
        acts.push(Action {
            name: n.clone(),
            bytes: sources[i].stream.clone(),
            valid: Some(i),
            truncated: false,
            _p: std::marker::PhantomData,
        });
    }
    acts.push(Action {
        name: "large".into(),
        bytes: sources[0].stream.clone(),
        valid: Some(0),
        truncated: false,
        _p: std::marker::PhantomData,
    });
    let large = &sources[0];
    let l = large.stream.len();
    let mut cuts: Vec<usize> = vec![];
    if let Some(s) = large.lay.segs.get(1) {
        cuts.push(s.off);
    }
    if l >= 1 {
        cuts.push(l - 1);
    }
    cuts.dedup();
    for t in cuts {
        acts.push(Action {
            name: format!("truncated_large@{t}/{l}"),
            bytes: large.stream[..t].to_vec(),
            valid: None,
            truncated: true,
            _p: std::marker::PhantomData,
        });
    }
    {
        let fields = fields_of::<S>(&p, &large.lay, &large.stream, Tier::Quick);
        let traced8: Vec<&Field> = fields.iter().filter(|f| f.traced && f.w == 8).collect();
        let mut picks: Vec<(&Field, &str)> = vec![];
        if let Some(f) = traced8.iter().find(|f| !f.label.is_empty()).or(traced8.first()) {
            picks.push((f, "v_plus_1"));
            picks.push((f, "2^61"));
        }
        // the byte-length word that ends the first header run
        if let Some(f) = traced8.iter().find(|f| f.run_len_word.is_some() && large.lay.segs.iter().any(|s| s.payload && s.off == f.off + 8)) {
            picks.push((f, "v_minus_1"));
        }
        for (f, class) in picks {
            let mut vb = [0u8; 8];
            vb.copy_from_slice(&large.stream[f.off..f.off + 8]);
            let v = u64::from_le_bytes(vb);
            if let Some((_, x)) = dictionary(v, 8, f.run_len_word, Tier::Thorough).into_iter().find(|(c, _)| *c == class) {
                let mut b = large.stream.clone();
                b[f.off..f.off + 8].copy_from_slice(&x.to_le_bytes());
                acts.push(Action {
                    name: format!("corrupt_large@{}+8[{}]={class}", f.off, f.label),
                    bytes: b,
                    valid: None,
                    truncated: false,
                    _p: std::marker::PhantomData,
                });
            }
        }
    }
    cx.rec.add("receivers", 1);
    cx.rec.add("alphabet", acts.len() as u64);
    cx.rec.sample(|| json!({"type": S::NAME, "p": p, "alphabet": acts.iter().map(|a| a.name.clone()).collect::<Vec<_>>(), "depth": depth}));

    let limit = recv.limit(l);
    // rebuild the receiver of a history by replaying it on a fresh one (types without Clone)
    let rebuild = |history: &[usize]| -> S {
        let mut r = recv.fresh();
        for a in history {
            let _ = feed(&mut r, &acts[*a].bytes);
        }
        r
    };
    let mut states: std::collections::HashSet<u64> = std::collections::HashSet::new();
    let fresh_lay = &recv.lay;
    let root_state = recv.fresh();
    let root = Node {
        history: vec![],
        obs: observe(&root_state, limit),
        lay: Some(fresh_lay),
    };
    // depth-first over all action sequences up to `depth`
    let mut stack: Vec<(Node, Option<S>)> = vec![(root, Some(root_state))];
    while let Some((node, state)) = stack.pop() {
        let state: S = match state {
            Some(s) => s,
            None => rebuild(&node.history),
        };
        if let Ok(s) = &node.obs.snap {
            states.insert(fnv(s));
        }
        if node.history.len() >= depth {
            continue;
        }
        let prev_len = node.obs.snap.as_ref().map(|s| s.len()).unwrap_or(0);
        let unk = unknown_layout(prev_len);
        for (ai, act) in acts.iter().enumerate() {
            let mut r: S = state.clone_opt().unwrap_or_else(|| rebuild(&node.history));
            let (out, consumed) = feed(&mut r, &act.bytes);
            cx.rec.evals(1);
            cx.rec.add("transitions", 1);
            let hist_names: Vec<&str> = node.history.iter().map(|a| acts[*a].name.as_str()).collect();
            cx.rec.distinct(fnv(format!("{}|{:?}|{:?}|{}", S::NAME, p, node.history, ai).as_bytes()));
            cx.rec.outcome(outcome_hash(S::NAME, &out));
            let inner = json!({"history": hist_names, "step": act.name, "depth": node.history.len() + 1});
            let tags = [("steps", act.name.split('@').next().unwrap_or("").to_string()), ("history_len", node.history.len().to_string())];
            let obs1 = observe(&r, limit);
            let mut next_lay: Option<&Layout> = None;
            match (&out, act.valid) {
                (Outcome::Panic(m), _) => {
                    let f = finding(panic_kind(m), norm(m), json!({"panic": m}));
                    cx.fail("read_from(history)", &f, &tags, &inner, &none);
                    continue;
                }
                (Outcome::Err(e), Some(_)) => {
                    // the stream is well-formed and fits the receiver's allocation: what was read before must not matter
                    let kind = if node.history.is_empty() { "roundtrip_rejected" } else { "valid_stream_rejected_after_history" };
                    let f = finding(kind, norm(e), json!({"error": e}));
                    cx.fail("read_from(history)", &f, &tags, &inner, &none);
                }
                (Outcome::Ok, Some(si)) => {
                    let src = &sources[si];
                    let mut why = vec![];
                    if consumed != src.stream.len() {
                        why.push(format!("reader consumed {consumed} of {} bytes", src.stream.len()));
                    }
                    if let Ok(s) = &obs1.snap
                        && *s != src.stream
                    {
                        why.push(format!("re-serialised stream differs at byte {:?}", (0..s.len().min(src.stream.len())).find(|&i| s[i] != src.stream[i])));
                    }
                    if let Ok(sh) = &obs1.shapes {
                        let a: Vec<_> = sh.iter().map(|s| s.logical()).collect();
                        let b: Vec<_> = src.shapes.iter().map(|s| s.logical()).collect();
                        if a != b {
                            why.push(format!("dimensions {a:?} != source {b:?}"));
                        }
                    }
                    if !why.is_empty() {
                        let f = finding("roundtrip_mismatch", format!("after history: {}", why.join("; ")), json!({}));
                        cx.fail("read_from(history)", &f, &tags, &inner, &none);
                    }
                    next_lay = Some(&src.lay);
                }
                (Outcome::Ok, None) => {
                    if act.truncated {
                        let f = finding("accepted_truncated", "Ok on a strict prefix of a valid stream", json!({}));
                        cx.fail("read_from(history)", &f, &tags, &inner, &none);
                    }
                    // an accepted faulty stream: the receiver's stream layout is no longer known
                }
                (Outcome::Err(_), None) => {
                    next_lay = node.lay;
                }
            }
            if matches!((&out, act.valid), (Outcome::Err(_), Some(_))) {
                next_lay = node.lay;
            }
            let model = ReceiverModel {
                obs0: &node.obs,
                caps: &recv.caps,
                lay: node.lay.unwrap_or(&unk),
            };
            for f in post_check(&out, &model, &obs1, &act.bytes, consumed) {
                cx.fail("read_from(history)", &f, &tags, &inner, &none);
            }
            let mut h = node.history.clone();
            h.push(ai);
            if h.len() < depth || depth == 0 {
                stack.push((
                    Node {
                        history: h,
                        obs: obs1,
                        lay: next_lay,
                    },
                    Some(r).filter(|r| r.clone_opt().is_some()),
                ));
            } else if let Ok(s) = &obs1.snap {
                states.insert(fnv(s));
            }
        }
    }
    cx.rec.add("states", states.len() as u64);
}

// ------------------------------------------------------------------------------------------------ run / replay

fn dispatch(fam: &'static str, tier: Tier, case: &Case, rec: &mut Rec, col: &Collector, obs: &Collector) {
    let mut cx = Cx {
        fam,
        case,
        rec,
        local_fail: BTreeMap::new(),
        local_obs: BTreeMap::new(),
        inner_ctr: 0,
    };
    let cxr = &mut cx;
    match fam {
        "roundtrip" => with_subject!(case.ty.as_str(), exec_roundtrip(cxr)),
        "truncation" => with_subject!(case.ty.as_str(), exec_truncation(cxr)),
        "header" => with_subject!(case.ty.as_str(), exec_header(cxr, tier)),
        "receiver_reuse" => with_subject!(case.ty.as_str(), exec_reuse(cxr, tier.pick(2, 3))),
        o => panic!("unknown family {o}"),
    }
    col.merge(cx.local_fail);
    obs.merge(cx.local_obs);
}

fn cases(tier: Tier, fam: &str, grids: &BTreeMap<String, Vec<P>>) -> Vec<Case> {
    let mut out = vec![];
    // simplest first: types in DRIVERS order (hal, then core wrappers, then composite keys)
    for ty in DRIVERS {
        for p in &grids[*ty] {
            let recvs: &[Recv] = if fam == "roundtrip" || fam == "receiver_reuse" { &[Recv::Alt] } else { &[Recv::Alt, Recv::Larger] };
            if fam == "receiver_reuse" && p.shrink > 0 {
                continue;
            }
            for r in recvs {
                if fam != "roundtrip" && !tier.is_thorough() && *r == Recv::Larger && p.shrink > 0 {
                    continue;
                }
                out.push(Case {
                    idx: out.len(),
                    ty: ty.to_string(),
                    p: *p,
                    recv: *r,
                });
            }
        }
    }
    // `idx` is the simplest-first rank (it selects the representative of a failure class); the cases are *executed*
    // largest first so that the few big composite keys do not form a sequential tail
    out.reverse();
    out
}

pub fn run(run: &mut Run) {
    let tier = run.tier;
    // coverage: the scan was already enforced in main(); record it
    let cov = scan::coverage(DRIVERS);
    assert!(cov.missing_driver.is_empty() && cov.stale_driver.is_empty(), "C18: driver table and source scan disagree");
    let backend_dependent: Vec<&scan::Hit> = cov.readers.iter().chain(cov.writers.iter()).filter(|h| h.backend_generic).collect();
    run.note(
        "serialisable_types",
        json!({
            "count": cov.readers.len(),
            "readers": cov.readers.iter().map(|h| format!("{} ({}:{})", h.ty, h.file, h.line)).collect::<Vec<_>>(),
            "writer_impls": cov.writers.len(),
            "impls_generic_over_backend": backend_dependent.len(),
        }),
    );
    assert!(
        backend_dependent.is_empty(),
        "C18: a ReaderFrom/WriterTo impl is generic over the backend; the cross-backend format comparison must be extended"
    );
    run.assume("no ReaderFrom/WriterTo impl has a Backend type parameter (verified by the source scan at run time), so the byte format is the same code for every backend; the check therefore runs once, not per backend");
    run.assume("parameter tuples rejected by the library constructors' asserts (e.g. size <= dsize, dnum*dsize > size) or whose fresh object cannot answer its own accessors (rank 0 for GGLWEToGGSWKey / circuit-bootstrapping keys) are outside the admissible domain");
    run.assume("CircuitBootstrappingKey and BDDKey have no FillUniform/Clone/PartialEq: their payload is set by reading a valid stream whose payload segments (read requests longer than 32 bytes) were randomised, and equality is judged on the re-serialised stream; BDDKey has no information accessor, so its dimensions are judged through write_to only; GGSW-like types do not expose cols_in, which is a common factor of demand and capacity");
    run.assume("a single allocation request above 64 MiB is refused by the harness allocator (returns null), so a header-controlled allocation surfaces as a caught 'memory allocation of N bytes failed' panic instead of aborting the process or being served lazily by an overcommitting kernel");
    run.assume("panics of public information accessors on an accepted object (e.g. max_k() = size*base2k overflowing after base2k = 2^31 was accepted) and lenient parsing of don't-care bits are recorded as observations in the evidence notes, not judged: C18 constrains dimensions against buffers and metadata on failure, not scalar metadata ranges");

    let mut grids: BTreeMap<String, Vec<P>> = BTreeMap::new();
    let mut grid_note = serde_json::Map::new();
    for ty in DRIVERS {
        let (g, total) = grid_of(ty, tier);
        assert!(!g.is_empty(), "C18: no admissible parameter tuple for {ty}");
        grid_note.insert(ty.to_string(), json!({"admissible": g.len(), "enumerated": total}));
        grids.insert(ty.to_string(), g);
    }
    run.note("parameter_grids", Value::Object(grid_note));

    for (fam, rule) in [
        ("roundtrip", "distinct = (type, receiver kind, parameters); receivers: same, alt_metadata, larger per capacity dimension, larger:all, exact_active_size, smaller per dimension"),
        ("truncation", "distinct = (type, parameters, receiver, segment cut, cut at segment start or inside); every length 0..L-1"),
        ("header", "distinct = (type, receiver, field label, width, traced, value class); every field x every dictionary entry"),
        ("receiver_reuse", "all histories up to depth 2 (quick) / 3 (thorough) on ONE receiver per (type, parameters) over {small valid objects, large valid object, truncated streams, header-corrupted streams}; distinct = (type, parameters, history, step); counters `transitions` = steps executed and checked, `states` = distinct receiver states (by re-serialised stream) reached"),
    ] {
        if !run.wants(fam) {
            continue;
        }
        let cs = cases(tier, fam, &grids);
        let col = Collector::new();
        let obs = Collector::new();
        run.family(fam, rule, cs, |c, rec| dispatch(fam, tier, c, rec, &col, &obs));
        col.flush(run, fam);
        obs.flush_notes(run, fam);
        if fam == "receiver_reuse"
            && let Some(f) = run.families.iter().rev().find(|f| f.name == fam)
        {
            run.states += f.rec.extra.get("states").copied().unwrap_or(0);
            run.transitions += f.rec.extra.get("transitions").copied().unwrap_or(0);
        }
    }
}

pub fn replay(run: &mut Run, d: &Value) {
    let fam: &'static str = match d["family"].as_str().unwrap_or("") {
        "roundtrip" => "roundtrip",
        "truncation" => "truncation",
        "header" => "header",
        "receiver_reuse" => "receiver_reuse",
        o => panic!("unknown family {o}"),
    };
    let case: Case = serde_json::from_value(d["case"].clone()).expect("case");
    let tier = run.tier;
    let col = Collector::new();
    let obs = Collector::new();
    run.single(fam, "replay of one outer case (all its inner faults)", |rec| dispatch(fam, tier, &case, rec, &col, &obs));
    col.flush(run, fam);
    obs.flush_notes(run, fam);
}

//! One driver ("subject") per `ReaderFrom`/`WriterTo` type of poulpy-hal, poulpy-core and poulpy-bin-fhe.
//!
//! A subject knows how to allocate the type from the small parameter tuple [`P`] (through the library's own
//! `alloc*` constructors), how to set the scalar metadata that has a public setter, how to fill the payload, and
//! how to observe the dimensions through *public accessors only*. Everything else (round trips, truncations,
//! header faults, oracles) is generic code in `c18.rs`.

use poulpy_bin_fhe::bdd_arithmetic::{BDDKey, BDDKeyLayout};
use poulpy_bin_fhe::blind_rotation::{BlindRotationKey, BlindRotationKeyCompressed, BlindRotationKeyInfos, BlindRotationKeyLayout, CGGI};
use poulpy_bin_fhe::circuit_bootstrapping::{CircuitBootstrappingKey, CircuitBootstrappingKeyInfos, CircuitBootstrappingKeyLayout};
use poulpy_core::layouts::*;
use poulpy_core::{Distribution, GetDistribution, GetDistributionMut};
use poulpy_hal::layouts::{DataView, FillUniform, MatZnx, ReaderFrom, ScalarZnx, VecZnx, WriterTo, ZnxInfos};
use poulpy_hal::source::Source;
use serde::{Deserialize, Serialize};
use std::hint::black_box;

/// Parameter tuple of one object. Unused fields are 0 for a given type (see `Subject::DIMS`).
#[derive(Clone, Copy, Debug, PartialEq, Eq, Hash, Serialize, Deserialize, PartialOrd, Ord)]
pub struct P {
    pub n: usize,
    pub b2k: usize,
    pub size: usize,
    /// GLWE rank / rank_out / (cols-1) of the hal types
    pub rank: usize,
    pub rank_in: usize,
    pub dnum: usize,
    pub dsize: usize,
    /// number of sub-keys fixed by the layout (n_lwe of blind-rotation keys)
    pub cnt: usize,
    /// optional component present (BDDKey::ks_glwe)
    pub opt: usize,
    /// active limb count reduced below the allocated capacity by this many limbs (VecZnx-backed types)
    pub shrink: usize,
}

#[derive(Clone, Copy, Debug, PartialEq, Eq, Hash, Serialize, Deserialize, PartialOrd, Ord)]
pub enum Dim {
    N,
    Size,
    Rank,
    RankIn,
    Dnum,
    Dsize,
    Cnt,
    Opt,
    Shrink,
}

impl Dim {
    pub fn name(&self) -> &'static str {
        match self {
            Dim::N => "n",
            Dim::Size => "size",
            Dim::Rank => "rank",
            Dim::RankIn => "rank_in",
            Dim::Dnum => "dnum",
            Dim::Dsize => "dsize",
            Dim::Cnt => "cnt",
            Dim::Opt => "opt",
            Dim::Shrink => "shrink",
        }
    }
}

impl P {
    pub fn get(&self, d: Dim) -> usize {
        match d {
            Dim::N => self.n,
            Dim::Size => self.size,
            Dim::Rank => self.rank,
            Dim::RankIn => self.rank_in,
            Dim::Dnum => self.dnum,
            Dim::Dsize => self.dsize,
            Dim::Cnt => self.cnt,
            Dim::Opt => self.opt,
            Dim::Shrink => self.shrink,
        }
    }
    pub fn with(&self, d: Dim, v: usize) -> P {
        let mut q = *self;
        match d {
            Dim::N => q.n = v,
            Dim::Size => q.size = v,
            Dim::Rank => q.rank = v,
            Dim::RankIn => q.rank_in = v,
            Dim::Dnum => q.dnum = v,
            Dim::Dsize => q.dsize = v,
            Dim::Cnt => q.cnt = v,
            Dim::Opt => q.opt = v,
            Dim::Shrink => q.shrink = v,
        }
        q
    }
    /// next larger value of one dimension (capacity direction)
    pub fn grow(&self, d: Dim) -> P {
        match d {
            Dim::N => self.with(d, self.n * 2),
            _ => self.with(d, self.get(d) + 1),
        }
    }
    /// next smaller value of one dimension, if any
    pub fn reduce(&self, d: Dim) -> Option<P> {
        match d {
            Dim::N => (self.n >= 2).then(|| self.with(d, self.n / 2)),
            _ => (self.get(d) >= 1).then(|| self.with(d, self.get(d) - 1)),
        }
    }
    fn deg(&self) -> Degree {
        Degree(self.n as u32)
    }
    fn base2k(&self) -> Base2K {
        Base2K(self.b2k as u32)
    }
    fn k(&self) -> TorusPrecision {
        TorusPrecision((self.size * self.b2k) as u32)
    }
    fn r(&self) -> Rank {
        Rank(self.rank as u32)
    }
    fn r_in(&self) -> Rank {
        Rank(self.rank_in as u32)
    }
    fn dn(&self) -> Dnum {
        Dnum(self.dnum as u32)
    }
    fn ds(&self) -> Dsize {
        Dsize(self.dsize as u32)
    }
}

/// Dimensions of one coefficient buffer as seen through public accessors.
#[derive(Clone, Debug, PartialEq, Eq, Serialize)]
pub struct Shape {
    pub what: String,
    /// all factors of the polynomial count (n, cols / rows, cols_in, cols_out)
    pub dims: Vec<usize>,
    pub size: usize,
    /// allocated limb capacity, where the type records one
    pub max_size: Option<usize>,
    /// byte length of the backing buffer, where a public accessor reaches it
    pub len: Option<usize>,
}

impl Shape {
    /// 8 * prod(dims) * limbs, saturating
    pub fn bytes(&self, limbs: usize) -> u128 {
        let mut b: u128 = 8;
        for d in self.dims.iter().chain(std::iter::once(&limbs)) {
            b = b.checked_mul(*d as u128).unwrap_or(u128::MAX);
        }
        b
    }
    /// the logical dimensions without the capacity information
    pub fn logical(&self) -> (Vec<usize>, usize) {
        (self.dims.clone(), self.size)
    }
}

pub trait Subject: Sized + WriterTo + ReaderFrom {
    /// Rust type name as it appears after `ReaderFrom for` in the sources
    const NAME: &'static str;
    const CRATE: &'static str;
    /// dimensions of `P` the type uses (the enumeration grid)
    const DIMS: &'static [Dim];
    /// dimensions that are pure capacity: a receiver with a larger value must accept the stream
    const CAP: &'static [Dim];
    /// the type has no `FillUniform`: its payload is set by reading a stream whose payload segments were randomised
    const STREAM_FILL: bool = false;
    /// calls the library constructor; panics on parameters the constructor rejects (asserts)
    fn alloc(p: &P) -> Self;
    /// payload fill independent of the (de)serialiser
    fn fill(&mut self, _seed: u64) {}
    /// scalar metadata with public setters (seeds, Galois element, degrees, distribution); variant 0 / 1
    fn set_meta(&mut self, _v: u64) {}
    /// reduce the active limb count below the capacity (VecZnx-backed types)
    fn shrink(&mut self, _by: usize) -> bool {
        false
    }
    /// dimensions of every coefficient buffer reachable through public accessors (may panic on an inconsistent object)
    fn shapes(&self, out: &mut Vec<Shape>);
    /// calls every public information accessor of the type (may panic on an inconsistent object)
    fn probe(&self) {}
    fn native_eq(&self, _o: &Self) -> Option<bool> {
        None
    }
    fn clone_opt(&self) -> Option<Self> {
        None
    }
}

fn src(seed: u64) -> Source {
    let mut s = [0u8; 32];
    let mut r = pvc_engine::rng::Rng::new(seed, 0xC18);
    for c in s.chunks_mut(8) {
        c.copy_from_slice(&r.next().to_le_bytes());
    }
    Source::new(s)
}

pub fn seed32(v: u64, i: usize) -> [u8; 32] {
    let mut s = [0u8; 32];
    for (j, b) in s.iter_mut().enumerate() {
        *b = (0x11u8.wrapping_mul(1 + v as u8)).wrapping_add((i * 37 + j * 3) as u8) | 1;
    }
    s
}

fn vz<D: poulpy_hal::layouts::DataRef>(what: &str, v: &VecZnx<D>) -> Shape {
    Shape {
        what: what.to_string(),
        dims: vec![v.n, v.cols],
        size: v.size,
        max_size: Some(v.max_size),
        len: Some(v.data.as_ref().len()),
    }
}

fn mz<D: poulpy_hal::layouts::DataRef>(what: &str, m: &MatZnx<D>) -> Shape {
    Shape {
        what: what.to_string(),
        dims: vec![m.n(), m.rows(), m.cols_in(), m.cols_out()],
        size: m.size(),
        max_size: None,
        len: Some(m.data().as_ref().len()),
    }
}

fn gglwe_infos_shape<T: GGLWEInfos>(what: &str, t: &T, cols_out: Option<usize>) -> Shape {
    Shape {
        what: what.to_string(),
        dims: vec![
            t.n().as_usize(),
            t.dnum().as_usize(),
            t.rank_in().as_usize(),
            cols_out.unwrap_or_else(|| t.rank_out().as_usize() + 1),
        ],
        size: t.size(),
        max_size: None,
        len: None,
    }
}

/// GGSW-like types expose n, dnum (rows), size and - uncompressed only - rank = cols_out - 1 of the buffer. cols_in is
/// not observable (for compressed types `rank` is a stored scalar, not a buffer dimension); it is a constant factor of
/// both the capacity and the demand, so the inequalities are evaluated without it.
fn ggsw_infos_shape<T: GGSWInfos>(what: &str, t: &T, compressed: bool) -> Shape {
    Shape {
        what: what.to_string(),
        dims: if compressed {
            vec![t.n().as_usize(), t.dnum().as_usize()]
        } else {
            vec![t.n().as_usize(), t.dnum().as_usize(), t.rank().as_usize() + 1]
        },
        size: t.size(),
        max_size: None,
        len: None,
    }
}

fn probe_lwe<T: LWEInfos>(t: &T) {
    black_box((t.n(), t.base2k(), t.size(), t.max_k()));
}
fn probe_glwe<T: GLWEInfos>(t: &T) {
    probe_lwe(t);
    black_box(t.rank());
    black_box(t.glwe_layout());
}
fn probe_gglwe<T: GGLWEInfos>(t: &T) {
    probe_glwe(t);
    black_box((t.dnum(), t.dsize(), t.rank_in(), t.rank_out()));
    black_box(t.gglwe_layout());
}
fn probe_ggsw<T: GGSWInfos>(t: &T) {
    probe_glwe(t);
    black_box((t.dnum(), t.dsize()));
    black_box(t.ggsw_layout());
}

macro_rules! common {
    (uniform) => {
        fn fill(&mut self, seed: u64) {
            // log_bound 63 takes the per-coefficient path (the 64 path would also overwrite allocation padding,
            // which PartialEq compares but the stream does not carry)
            self.fill_uniform(63, &mut src(seed));
        }
        fn native_eq(&self, o: &Self) -> Option<bool> {
            Some(self == o)
        }
        fn clone_opt(&self) -> Option<Self> {
            Some(self.clone())
        }
    };
}

// ------------------------------------------------------------------------------------------------ hal

impl Subject for VecZnx<Vec<u8>> {
    const NAME: &'static str = "VecZnx";
    const CRATE: &'static str = "poulpy-hal";
    const DIMS: &'static [Dim] = &[Dim::N, Dim::Rank, Dim::Size, Dim::Shrink];
    const CAP: &'static [Dim] = &[Dim::N, Dim::Rank, Dim::Size];
    fn alloc(p: &P) -> Self {
        VecZnx::alloc(p.n, p.rank + 1, p.size)
    }
    common!(uniform);
    fn shrink(&mut self, by: usize) -> bool {
        if by >= self.size {
            return false;
        }
        self.set_size(self.size - by);
        true
    }
    fn shapes(&self, out: &mut Vec<Shape>) {
        out.push(vz("data", self));
    }
    fn probe(&self) {
        black_box((self.n(), self.cols(), self.size(), self.max_size(), self.rows()));
    }
}

impl Subject for ScalarZnx<Vec<u8>> {
    const NAME: &'static str = "ScalarZnx";
    const CRATE: &'static str = "poulpy-hal";
    const DIMS: &'static [Dim] = &[Dim::N, Dim::Rank];
    const CAP: &'static [Dim] = &[Dim::N, Dim::Rank];
    fn alloc(p: &P) -> Self {
        ScalarZnx::alloc(p.n, p.rank + 1)
    }
    common!(uniform);
    fn shapes(&self, out: &mut Vec<Shape>) {
        out.push(Shape {
            what: "data".into(),
            dims: vec![self.n(), self.cols()],
            size: 1,
            max_size: None,
            len: Some(self.data().len()),
        });
    }
    fn probe(&self) {
        black_box((self.n(), self.cols(), self.size(), self.rows()));
    }
}

impl Subject for MatZnx<Vec<u8>> {
    const NAME: &'static str = "MatZnx";
    const CRATE: &'static str = "poulpy-hal";
    const DIMS: &'static [Dim] = &[Dim::N, Dim::Dnum, Dim::RankIn, Dim::Rank, Dim::Size];
    const CAP: &'static [Dim] = &[Dim::N, Dim::Dnum, Dim::RankIn, Dim::Rank, Dim::Size];
    fn alloc(p: &P) -> Self {
        MatZnx::alloc(p.n, p.dnum, p.rank_in, p.rank + 1, p.size)
    }
    common!(uniform);
    fn shapes(&self, out: &mut Vec<Shape>) {
        out.push(mz("data", self));
    }
    fn probe(&self) {
        black_box((self.n(), self.rows(), self.cols(), self.cols_in(), self.cols_out(), self.size()));
    }
}

// ------------------------------------------------------------------------------------------------ core, VecZnx-backed

impl Subject for LWE<Vec<u8>> {
    const NAME: &'static str = "LWE";
    const CRATE: &'static str = "poulpy-core";
    const DIMS: &'static [Dim] = &[Dim::N, Dim::Size, Dim::Shrink];
    const CAP: &'static [Dim] = &[Dim::N, Dim::Size];
    fn alloc(p: &P) -> Self {
        LWE::alloc(p.deg(), p.base2k(), p.k())
    }
    common!(uniform);
    fn shrink(&mut self, by: usize) -> bool {
        let s = self.data().size;
        if by >= s {
            return false;
        }
        self.data_mut().set_size(s - by);
        true
    }
    fn shapes(&self, out: &mut Vec<Shape>) {
        out.push(vz("data", self.data()));
    }
    fn probe(&self) {
        probe_lwe(self);
        black_box(self.lwe_layout());
    }
}

impl Subject for LWECompressed<Vec<u8>> {
    const NAME: &'static str = "LWECompressed";
    const CRATE: &'static str = "poulpy-core";
    const DIMS: &'static [Dim] = &[Dim::Size];
    const CAP: &'static [Dim] = &[Dim::Size];
    fn alloc(p: &P) -> Self {
        LWECompressed::alloc(p.base2k(), p.k())
    }
    common!(uniform);
    fn shapes(&self, out: &mut Vec<Shape>) {
        out.push(Shape {
            what: "data".into(),
            dims: vec![self.n().as_usize(), 1],
            size: self.size(),
            max_size: None,
            len: None,
        });
    }
    fn probe(&self) {
        probe_lwe(self);
    }
}

impl Subject for GLWE<Vec<u8>> {
    const NAME: &'static str = "GLWE";
    const CRATE: &'static str = "poulpy-core";
    const DIMS: &'static [Dim] = &[Dim::N, Dim::Rank, Dim::Size, Dim::Shrink];
    const CAP: &'static [Dim] = &[Dim::N, Dim::Rank, Dim::Size];
    fn alloc(p: &P) -> Self {
        GLWE::alloc(p.deg(), p.base2k(), p.k(), p.r())
    }
    common!(uniform);
    fn shrink(&mut self, by: usize) -> bool {
        let s = self.data().size;
        if by >= s {
            return false;
        }
        self.data_mut().set_size(s - by);
        true
    }
    fn shapes(&self, out: &mut Vec<Shape>) {
        out.push(vz("data", self.data()));
    }
    fn probe(&self) {
        probe_glwe(self);
        black_box(self.max_size());
    }
}

impl Subject for GLWECompressed<Vec<u8>> {
    const NAME: &'static str = "GLWECompressed";
    const CRATE: &'static str = "poulpy-core";
    const DIMS: &'static [Dim] = &[Dim::N, Dim::Rank, Dim::Size];
    const CAP: &'static [Dim] = &[Dim::N, Dim::Size];
    fn alloc(p: &P) -> Self {
        GLWECompressed::alloc(p.deg(), p.base2k(), p.k(), p.r())
    }
    common!(uniform);
    fn set_meta(&mut self, v: u64) {
        *self.seed_mut() = seed32(v, 0);
    }
    fn shapes(&self, out: &mut Vec<Shape>) {
        out.push(Shape {
            what: "data".into(),
            dims: vec![self.n().as_usize(), 1],
            size: self.size(),
            max_size: None,
            len: None,
        });
    }
    fn probe(&self) {
        probe_glwe(self);
        black_box(self.seed());
    }
}

impl Subject for GLWEPublicKey<Vec<u8>> {
    const NAME: &'static str = "GLWEPublicKey";
    const CRATE: &'static str = "poulpy-core";
    const DIMS: &'static [Dim] = &[Dim::N, Dim::Rank, Dim::Size];
    const CAP: &'static [Dim] = &[Dim::N, Dim::Rank, Dim::Size];
    fn alloc(p: &P) -> Self {
        GLWEPublicKey::alloc(p.deg(), p.base2k(), p.k(), p.r())
    }
    fn fill(&mut self, seed: u64) {
        // GLWEPublicKey has no FillUniform; its ciphertext is reachable through GLWEToMut
        let mut g = GLWEToMut::to_mut(self);
        g.fill_uniform(63, &mut src(seed));
    }
    fn native_eq(&self, o: &Self) -> Option<bool> {
        Some(self == o)
    }
    fn set_meta(&mut self, v: u64) {
        *self.dist_mut() = if v == 0 {
            Distribution::TernaryFixed(3)
        } else {
            Distribution::BinaryProb(0.5)
        };
    }
    fn shapes(&self, out: &mut Vec<Shape>) {
        let g = GLWEToRef::to_ref(self);
        out.push(vz("key", g.data()));
    }
    fn probe(&self) {
        probe_glwe(self);
        black_box(self.dist());
    }
}

// ------------------------------------------------------------------------------------------------ core, MatZnx-backed

fn set_seeds(s: &mut Vec<[u8; 32]>, v: u64) {
    for (i, x) in s.iter_mut().enumerate() {
        *x = seed32(v, i);
    }
}

macro_rules! gglwe_like {
    // standard (GGLWEToRef gives the MatZnx)
    ($t:ident, $name:expr, dims = $dims:expr, cap = $cap:expr, alloc = |$p:ident| $alloc:expr, meta = |$s:ident, $v:ident| $meta:block) => {
        impl Subject for $t<Vec<u8>> {
            const NAME: &'static str = $name;
            const CRATE: &'static str = "poulpy-core";
            const DIMS: &'static [Dim] = $dims;
            const CAP: &'static [Dim] = $cap;
            fn alloc($p: &P) -> Self {
                $alloc
            }
            common!(uniform);
            fn set_meta(&mut self, $v: u64) {
                let $s = self;
                $meta
            }
            fn shapes(&self, out: &mut Vec<Shape>) {
                let g = GGLWEToRef::to_ref(self);
                out.push(mz("data", g.data()));
            }
            fn probe(&self) {
                probe_gglwe(self);
            }
        }
    };
    // compressed: only the info accessors exist
    (compressed $t:ident, $name:expr, dims = $dims:expr, cap = $cap:expr, alloc = |$p:ident| $alloc:expr, meta = |$s:ident, $v:ident| $meta:block) => {
        impl Subject for $t<Vec<u8>> {
            const NAME: &'static str = $name;
            const CRATE: &'static str = "poulpy-core";
            const DIMS: &'static [Dim] = $dims;
            const CAP: &'static [Dim] = $cap;
            fn alloc($p: &P) -> Self {
                $alloc
            }
            common!(uniform);
            fn set_meta(&mut self, $v: u64) {
                let $s = self;
                $meta
            }
            fn shapes(&self, out: &mut Vec<Shape>) {
                // the GGLWECompressed view reports the buffer's own rows / cols_in (a wrapper's rank_in() may be
                // derived from the stored rank instead, e.g. GLWETensorKeyCompressed)
                let g = GGLWECompressedToRef::to_ref(self);
                out.push(gglwe_infos_shape("data", &g, Some(1)));
            }
            fn probe(&self) {
                probe_gglwe(self);
            }
        }
    };
}

const D_GGLWE: &[Dim] = &[Dim::N, Dim::Size, Dim::RankIn, Dim::Rank, Dim::Dnum, Dim::Dsize];
const C_GGLWE: &[Dim] = &[Dim::N, Dim::Size, Dim::RankIn, Dim::Rank, Dim::Dnum];
const C_GGLWE_COMPRESSED: &[Dim] = &[Dim::N, Dim::Size, Dim::RankIn, Dim::Dnum];
const D_RGSW: &[Dim] = &[Dim::N, Dim::Size, Dim::Rank, Dim::Dnum, Dim::Dsize];
const C_RGSW: &[Dim] = &[Dim::N, Dim::Size, Dim::Rank, Dim::Dnum];
const C_RGSW_COMPRESSED: &[Dim] = &[Dim::N, Dim::Size, Dim::Dnum];

gglwe_like!(GGLWE, "GGLWE", dims = D_GGLWE, cap = C_GGLWE,
    alloc = |p| GGLWE::alloc(p.deg(), p.base2k(), p.k(), p.r_in(), p.r(), p.dn(), p.ds()),
    meta = |_s, _v| {});
gglwe_like!(GLWESwitchingKey, "GLWESwitchingKey", dims = D_GGLWE, cap = C_GGLWE,
    alloc = |p| GLWESwitchingKey::alloc(p.deg(), p.base2k(), p.k(), p.r_in(), p.r(), p.dn(), p.ds()),
    meta = |s, v| {
        *GLWESwitchingKeyDegreesMut::input_degree(s) = Degree(100 + v as u32);
        *GLWESwitchingKeyDegreesMut::output_degree(s) = Degree(200 + v as u32);
    });
gglwe_like!(GLWEAutomorphismKey, "GLWEAutomorphismKey", dims = D_RGSW, cap = C_RGSW,
    alloc = |p| GLWEAutomorphismKey::alloc(p.deg(), p.base2k(), p.k(), p.r(), p.dn(), p.ds()),
    meta = |s, v| { s.set_p(if v == 0 { 5 } else { -3 }); });
gglwe_like!(GLWETensorKey, "GLWETensorKey", dims = D_RGSW, cap = C_RGSW,
    alloc = |p| GLWETensorKey::alloc(p.deg(), p.base2k(), p.k(), p.r(), p.dn(), p.ds()),
    meta = |_s, _v| {});
gglwe_like!(GLWEToLWEKey, "GLWEToLWEKey", dims = &[Dim::N, Dim::Size, Dim::RankIn, Dim::Dnum], cap = &[Dim::N, Dim::Size, Dim::RankIn, Dim::Dnum],
    alloc = |p| GLWEToLWEKey::alloc(p.deg(), p.base2k(), p.k(), p.r_in(), p.dn()),
    meta = |s, v| {
        *GLWESwitchingKeyDegreesMut::input_degree(s) = Degree(100 + v as u32);
        *GLWESwitchingKeyDegreesMut::output_degree(s) = Degree(200 + v as u32);
    });
gglwe_like!(LWEToGLWEKey, "LWEToGLWEKey", dims = &[Dim::N, Dim::Size, Dim::Rank, Dim::Dnum], cap = &[Dim::N, Dim::Size, Dim::Rank, Dim::Dnum],
    alloc = |p| LWEToGLWEKey::alloc(p.deg(), p.base2k(), p.k(), p.r(), p.dn()),
    meta = |s, v| {
        *GLWESwitchingKeyDegreesMut::input_degree(s) = Degree(100 + v as u32);
        *GLWESwitchingKeyDegreesMut::output_degree(s) = Degree(200 + v as u32);
    });
gglwe_like!(LWESwitchingKey, "LWESwitchingKey", dims = &[Dim::N, Dim::Size, Dim::Dnum], cap = &[Dim::N, Dim::Size, Dim::Dnum],
    alloc = |p| LWESwitchingKey::alloc(p.deg(), p.base2k(), p.k(), p.dn()),
    meta = |s, v| {
        *GLWESwitchingKeyDegreesMut::input_degree(s) = Degree(100 + v as u32);
        *GLWESwitchingKeyDegreesMut::output_degree(s) = Degree(200 + v as u32);
    });

gglwe_like!(compressed GGLWECompressed, "GGLWECompressed", dims = D_GGLWE, cap = C_GGLWE_COMPRESSED,
    alloc = |p| GGLWECompressed::alloc(p.deg(), p.base2k(), p.k(), p.r_in(), p.r(), p.dn(), p.ds()),
    meta = |s, v| { set_seeds(s.seed_mut(), v); });
gglwe_like!(compressed GLWESwitchingKeyCompressed, "GLWESwitchingKeyCompressed", dims = D_GGLWE, cap = C_GGLWE_COMPRESSED,
    alloc = |p| GLWESwitchingKeyCompressed::alloc(p.deg(), p.base2k(), p.k(), p.r_in(), p.r(), p.dn(), p.ds()),
    meta = |s, v| {
        set_seeds(s.seed_mut(), v);
        *GLWESwitchingKeyDegreesMut::input_degree(s) = Degree(100 + v as u32);
        *GLWESwitchingKeyDegreesMut::output_degree(s) = Degree(200 + v as u32);
    });
gglwe_like!(compressed GLWEAutomorphismKeyCompressed, "GLWEAutomorphismKeyCompressed", dims = D_RGSW, cap = C_RGSW_COMPRESSED,
    alloc = |p| GLWEAutomorphismKeyCompressed::alloc(p.deg(), p.base2k(), p.k(), p.r(), p.dn(), p.ds()),
    meta = |s, v| {
        set_seeds(s.seed_mut(), v);
        s.set_p(if v == 0 { 5 } else { -3 });
    });
gglwe_like!(compressed GLWETensorKeyCompressed, "GLWETensorKeyCompressed", dims = D_RGSW, cap = C_RGSW_COMPRESSED,
    alloc = |p| GLWETensorKeyCompressed::alloc(p.deg(), p.base2k(), p.k(), p.r(), p.dn(), p.ds()),
    meta = |s, v| { set_seeds(s.seed_mut(), v); });
gglwe_like!(compressed GLWEToLWESwitchingKeyCompressed, "GLWEToLWESwitchingKeyCompressed", dims = &[Dim::N, Dim::Size, Dim::RankIn, Dim::Dnum], cap = &[Dim::N, Dim::Size, Dim::RankIn, Dim::Dnum],
    alloc = |p| GLWEToLWESwitchingKeyCompressed::alloc(p.deg(), p.base2k(), p.k(), p.r_in(), p.dn()),
    meta = |_s, _v| {});
gglwe_like!(compressed LWEToGLWEKeyCompressed, "LWEToGLWEKeyCompressed", dims = &[Dim::N, Dim::Size, Dim::Rank, Dim::Dnum], cap = &[Dim::N, Dim::Size, Dim::Dnum],
    alloc = |p| LWEToGLWEKeyCompressed::alloc(p.deg(), p.base2k(), p.k(), p.r(), p.dn()),
    meta = |_s, _v| {});
gglwe_like!(compressed LWESwitchingKeyCompressed, "LWESwitchingKeyCompressed", dims = &[Dim::N, Dim::Size, Dim::Dnum], cap = &[Dim::N, Dim::Size, Dim::Dnum],
    alloc = |p| LWESwitchingKeyCompressed::alloc(p.deg(), p.base2k(), p.k(), p.dn()),
    meta = |_s, _v| {});

impl Subject for GGSW<Vec<u8>> {
    const NAME: &'static str = "GGSW";
    const CRATE: &'static str = "poulpy-core";
    const DIMS: &'static [Dim] = D_RGSW;
    const CAP: &'static [Dim] = C_RGSW;
    fn alloc(p: &P) -> Self {
        GGSW::alloc(p.deg(), p.base2k(), p.k(), p.r(), p.dn(), p.ds())
    }
    common!(uniform);
    fn shapes(&self, out: &mut Vec<Shape>) {
        out.push(ggsw_infos_shape("data", self, false));
    }
    fn probe(&self) {
        probe_ggsw(self);
    }
}

impl Subject for GGSWCompressed<Vec<u8>> {
    const NAME: &'static str = "GGSWCompressed";
    const CRATE: &'static str = "poulpy-core";
    const DIMS: &'static [Dim] = D_RGSW;
    const CAP: &'static [Dim] = C_RGSW_COMPRESSED;
    fn alloc(p: &P) -> Self {
        GGSWCompressed::alloc(p.deg(), p.base2k(), p.k(), p.r(), p.dn(), p.ds())
    }
    common!(uniform);
    fn set_meta(&mut self, v: u64) {
        set_seeds(self.seed_mut(), v);
    }
    fn shapes(&self, out: &mut Vec<Shape>) {
        out.push(ggsw_infos_shape("data", self, true));
    }
    fn probe(&self) {
        probe_ggsw(self);
        black_box(self.seed());
    }
}

impl Subject for GGLWEToGGSWKey<Vec<u8>> {
    const NAME: &'static str = "GGLWEToGGSWKey";
    const CRATE: &'static str = "poulpy-core";
    const DIMS: &'static [Dim] = D_RGSW;
    // the rank fixes the number of sub-keys, which read_from requires to match
    const CAP: &'static [Dim] = &[Dim::N, Dim::Size, Dim::Dnum];
    fn alloc(p: &P) -> Self {
        GGLWEToGGSWKey::alloc(p.deg(), p.base2k(), p.k(), p.r(), p.dn(), p.ds())
    }
    common!(uniform);
    fn shapes(&self, out: &mut Vec<Shape>) {
        // `at(i)` is bounded by rank() = keys[0].rank_out(), the only public path to the sub-keys
        let r = self.rank().as_usize();
        for i in 0..r.min(8) {
            out.push(mz(&format!("keys[{i}]"), self.at(i).data()));
        }
    }
    fn probe(&self) {
        probe_gglwe(self);
    }
}

impl Subject for GGLWEToGGSWKeyCompressed<Vec<u8>> {
    const NAME: &'static str = "GGLWEToGGSWKeyCompressed";
    const CRATE: &'static str = "poulpy-core";
    const DIMS: &'static [Dim] = D_RGSW;
    const CAP: &'static [Dim] = &[Dim::N, Dim::Size, Dim::Dnum];
    fn alloc(p: &P) -> Self {
        GGLWEToGGSWKeyCompressed::alloc(p.deg(), p.base2k(), p.k(), p.r(), p.dn(), p.ds())
    }
    common!(uniform);
    fn set_meta(&mut self, v: u64) {
        let r = self.rank().as_usize();
        for i in 0..r {
            set_seeds(self.at_mut(i).seed_mut(), v + 2 * i as u64);
        }
    }
    fn shapes(&self, out: &mut Vec<Shape>) {
        let r = self.rank().as_usize();
        for i in 0..r.min(8) {
            out.push(gglwe_infos_shape(&format!("keys[{i}]"), self.at(i), Some(1)));
        }
    }
    fn probe(&self) {
        probe_gglwe(self);
    }
}

// ------------------------------------------------------------------------------------------------ bin-fhe

fn brk_layout(p: &P) -> BlindRotationKeyLayout {
    BlindRotationKeyLayout {
        n_glwe: p.deg(),
        n_lwe: Degree(p.cnt as u32),
        base2k: p.base2k(),
        k: p.k(),
        dnum: p.dn(),
        rank: p.r(),
    }
}

const D_BRK: &[Dim] = &[Dim::N, Dim::Cnt, Dim::Size, Dim::Rank, Dim::Dnum];

impl Subject for BlindRotationKey<Vec<u8>, CGGI> {
    const NAME: &'static str = "BlindRotationKey";
    const CRATE: &'static str = "poulpy-bin-fhe";
    const DIMS: &'static [Dim] = D_BRK;
    const CAP: &'static [Dim] = C_RGSW;
    fn alloc(p: &P) -> Self {
        BlindRotationKey::<Vec<u8>, CGGI>::alloc(&brk_layout(p))
    }
    common!(uniform);
    fn shapes(&self, out: &mut Vec<Shape>) {
        // only keys[0] is visible through the information accessors
        out.push(ggsw_infos_shape("keys[0]", self, false));
    }
    fn probe(&self) {
        probe_ggsw(self);
        black_box((self.n_glwe(), self.n_lwe(), self.block_size()));
    }
}

impl Subject for BlindRotationKeyCompressed<Vec<u8>, CGGI> {
    const NAME: &'static str = "BlindRotationKeyCompressed";
    const CRATE: &'static str = "poulpy-bin-fhe";
    const DIMS: &'static [Dim] = D_BRK;
    const CAP: &'static [Dim] = C_RGSW_COMPRESSED;
    fn alloc(p: &P) -> Self {
        BlindRotationKeyCompressed::<Vec<u8>, CGGI>::alloc(&brk_layout(p))
    }
    common!(uniform);
    fn shapes(&self, out: &mut Vec<Shape>) {
        out.push(ggsw_infos_shape("keys[0]", self, true));
    }
    fn probe(&self) {
        probe_ggsw(self);
        black_box((self.n_glwe(), self.n_lwe()));
    }
}

fn cbk_layout(p: &P) -> CircuitBootstrappingKeyLayout {
    CircuitBootstrappingKeyLayout {
        brk_layout: brk_layout(p),
        atk_layout: GLWEAutomorphismKeyLayout {
            n: p.deg(),
            base2k: p.base2k(),
            k: p.k(),
            rank: p.r(),
            dnum: p.dn(),
            dsize: Dsize(1),
        },
        tsk_layout: GGLWEToGGSWKeyLayout {
            n: p.deg(),
            base2k: p.base2k(),
            k: p.k(),
            rank: p.r(),
            dnum: p.dn(),
            dsize: Dsize(1),
        },
    }
}

impl Subject for CircuitBootstrappingKey<Vec<u8>, CGGI> {
    const NAME: &'static str = "CircuitBootstrappingKey";
    const CRATE: &'static str = "poulpy-bin-fhe";
    const DIMS: &'static [Dim] = D_BRK;
    // n fixes the Galois elements of the automorphism keys, rank the number of tensor sub-keys
    const CAP: &'static [Dim] = &[Dim::Size, Dim::Dnum];
    const STREAM_FILL: bool = true;
    fn alloc(p: &P) -> Self {
        CircuitBootstrappingKey::<Vec<u8>, CGGI>::alloc_from_infos(&cbk_layout(p))
    }
    fn shapes(&self, out: &mut Vec<Shape>) {
        let b = self.brk_infos();
        out.push(ggsw_infos_shape("brk.keys[0]", &b, false));
        let a = self.atk_infos();
        out.push(gglwe_infos_shape("atk[min]", &a, None));
        let t = self.tsk_infos();
        out.push(gglwe_infos_shape("tsk.keys[0]", &t, None));
    }
    fn probe(&self) {
        black_box((self.brk_infos(), self.atk_infos(), self.tsk_infos(), self.block_size()));
    }
}

impl Subject for BDDKey<Vec<u8>, CGGI> {
    const NAME: &'static str = "BDDKey";
    const CRATE: &'static str = "poulpy-bin-fhe";
    const DIMS: &'static [Dim] = &[Dim::N, Dim::Cnt, Dim::Size, Dim::Rank, Dim::Dnum, Dim::Opt];
    const CAP: &'static [Dim] = &[Dim::Size, Dim::Dnum];
    const STREAM_FILL: bool = true;
    fn alloc(p: &P) -> Self {
        // the circuit-bootstrapping key inside is not admissible at rank 0 (no tensor sub-key); BDDKey has no accessor
        // that would reveal it
        assert!(p.rank >= 1, "BDDKey needs rank >= 1");
        let l = BDDKeyLayout {
            cbt_layout: cbk_layout(p),
            ks_glwe_layout: (p.opt == 1).then(|| GLWESwitchingKeyLayout {
                n: p.deg(),
                base2k: p.base2k(),
                k: p.k(),
                rank_in: p.r(),
                rank_out: Rank(1),
                dnum: p.dn(),
                dsize: Dsize(1),
            }),
            ks_lwe_layout: GLWEToLWEKeyLayout {
                n: p.deg(),
                base2k: p.base2k(),
                k: p.k(),
                rank_in: Rank(1),
                dnum: p.dn(),
            },
        };
        BDDKey::<Vec<u8>, CGGI>::alloc_from_infos(&l)
    }
    /// BDDKey exposes no information accessor at all; it is observed through `write_to` only.
    fn shapes(&self, _out: &mut Vec<Shape>) {}
}

/// Calls `$f::<T>($args)` for the subject whose NAME is `$name`.
#[macro_export]
macro_rules! with_subject {
    ($name:expr, $f:ident ( $($args:expr),* )) => {{
        use poulpy_bin_fhe::bdd_arithmetic::BDDKey;
        use poulpy_bin_fhe::blind_rotation::{BlindRotationKey, BlindRotationKeyCompressed, CGGI};
        use poulpy_bin_fhe::circuit_bootstrapping::CircuitBootstrappingKey;
        use poulpy_core::layouts::*;
        use poulpy_hal::layouts::{MatZnx, ScalarZnx, VecZnx};
        type V = Vec<u8>;
        match $name {
            "VecZnx" => $f::<VecZnx<V>>($($args),*),
            "ScalarZnx" => $f::<ScalarZnx<V>>($($args),*),
            "MatZnx" => $f::<MatZnx<V>>($($args),*),
            "LWE" => $f::<LWE<V>>($($args),*),
            "LWECompressed" => $f::<LWECompressed<V>>($($args),*),
            "GLWE" => $f::<GLWE<V>>($($args),*),
            "GLWECompressed" => $f::<GLWECompressed<V>>($($args),*),
            "GLWEPublicKey" => $f::<GLWEPublicKey<V>>($($args),*),
            "GGLWE" => $f::<GGLWE<V>>($($args),*),
            "GGLWECompressed" => $f::<GGLWECompressed<V>>($($args),*),
            "GGSW" => $f::<GGSW<V>>($($args),*),
            "GGSWCompressed" => $f::<GGSWCompressed<V>>($($args),*),
            "GLWESwitchingKey" => $f::<GLWESwitchingKey<V>>($($args),*),
            "GLWESwitchingKeyCompressed" => $f::<GLWESwitchingKeyCompressed<V>>($($args),*),
            "GLWEAutomorphismKey" => $f::<GLWEAutomorphismKey<V>>($($args),*),
            "GLWEAutomorphismKeyCompressed" => $f::<GLWEAutomorphismKeyCompressed<V>>($($args),*),
            "GLWETensorKey" => $f::<GLWETensorKey<V>>($($args),*),
            "GLWETensorKeyCompressed" => $f::<GLWETensorKeyCompressed<V>>($($args),*),
            "GGLWEToGGSWKey" => $f::<GGLWEToGGSWKey<V>>($($args),*),
            "GGLWEToGGSWKeyCompressed" => $f::<GGLWEToGGSWKeyCompressed<V>>($($args),*),
            "GLWEToLWEKey" => $f::<GLWEToLWEKey<V>>($($args),*),
            "GLWEToLWESwitchingKeyCompressed" => $f::<GLWEToLWESwitchingKeyCompressed<V>>($($args),*),
            "LWEToGLWEKey" => $f::<LWEToGLWEKey<V>>($($args),*),
            "LWEToGLWEKeyCompressed" => $f::<LWEToGLWEKeyCompressed<V>>($($args),*),
            "LWESwitchingKey" => $f::<LWESwitchingKey<V>>($($args),*),
            "LWESwitchingKeyCompressed" => $f::<LWESwitchingKeyCompressed<V>>($($args),*),
            "BlindRotationKey" => $f::<BlindRotationKey<V, CGGI>>($($args),*),
            "BlindRotationKeyCompressed" => $f::<BlindRotationKeyCompressed<V, CGGI>>($($args),*),
            "CircuitBootstrappingKey" => $f::<CircuitBootstrappingKey<V, CGGI>>($($args),*),
            "BDDKey" => $f::<BDDKey<V, CGGI>>($($args),*),
            o => panic!("C18: no driver for type {o}"),
        }
    }};
}

/// Names of all drivers, simplest first (enumeration order of the families).
pub const DRIVERS: &[&str] = &[
    "ScalarZnx",
    "VecZnx",
    "MatZnx",
    "LWE",
    "LWECompressed",
    "GLWE",
    "GLWECompressed",
    "GLWEPublicKey",
    "GGLWE",
    "GGLWECompressed",
    "GGSW",
    "GGSWCompressed",
    "GLWESwitchingKey",
    "GLWESwitchingKeyCompressed",
    "GLWEAutomorphismKey",
    "GLWEAutomorphismKeyCompressed",
    "GLWETensorKey",
    "GLWETensorKeyCompressed",
    "GGLWEToGGSWKey",
    "GGLWEToGGSWKeyCompressed",
    "GLWEToLWEKey",
    "GLWEToLWESwitchingKeyCompressed",
    "LWEToGLWEKey",
    "LWEToGLWEKeyCompressed",
    "LWESwitchingKey",
    "LWESwitchingKeyCompressed",
    "BlindRotationKey",
    "BlindRotationKeyCompressed",
    "CircuitBootstrappingKey",
    "BDDKey",
];

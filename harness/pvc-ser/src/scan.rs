//! Run-time scan of the /repo sources for `impl ... ReaderFrom for T` / `impl ... WriterTo for T`, so that the set of
//! serialisable types the check must drive is taken from the tree under test and cannot silently shrink.

use std::collections::BTreeMap;
use std::path::{Path, PathBuf};

#[derive(Clone, Debug)]
pub struct Hit {
    pub ty: String,
    pub file: String,
    pub line: usize,
    /// the impl header mentions a `Backend` bound (the byte format could then depend on the backend)
    pub backend_generic: bool,
}

pub fn repo_root() -> PathBuf {
    std::env::var("VERIF_REPO").map(PathBuf::from).unwrap_or_else(|_| PathBuf::from("/repo"))
}

fn walk(dir: &Path, out: &mut Vec<PathBuf>) {
    let Ok(rd) = std::fs::read_dir(dir) else {
        return;
    };
    let mut entries: Vec<PathBuf> = rd.filter_map(|e| e.ok().map(|e| e.path())).collect();
    entries.sort();
    for p in entries {
        if p.is_dir() {
            walk(&p, out);
        } else if p.extension().map(|e| e == "rs").unwrap_or(false) {
            out.push(p);
        }
    }
}

/// All `impl<..> <trait_name> for <Type>` headers under `<repo>/poulpy-*/src`.
pub fn scan(trait_name: &str) -> Vec<Hit> {
    let root = repo_root();
    let mut crates: Vec<PathBuf> = std::fs::read_dir(&root)
        .unwrap_or_else(|e| panic!("C18 source scan: cannot list {}: {e}", root.display()))
        .filter_map(|e| e.ok().map(|e| e.path()))
        .filter(|p| p.is_dir() && p.file_name().and_then(|n| n.to_str()).map(|n| n.starts_with("poulpy-")).unwrap_or(false))
        .collect();
    crates.sort();
    let mut files = vec![];
    for c in &crates {
        walk(&c.join("src"), &mut files);
    }
    let needle = format!("{trait_name} for ");
    let loose = format!("{trait_name} for");
    let mut hits = vec![];
    let mut mentions = 0usize;
    for f in files {
        let Ok(text) = std::fs::read_to_string(&f) else {
            continue;
        };
        for (i, line) in text.lines().enumerate() {
            let t = line.trim_start();
            if t.starts_with("//") {
                continue;
            }
            if t.contains(&loose) || t.trim_end().ends_with(trait_name) && t.starts_with("impl") {
                mentions += 1;
            }
            if !t.starts_with("impl") {
                continue;
            }
            // `<Trait> for ` preceded by a non-identifier character (space, `::`, `>`)
            let Some(pos) = t.match_indices(&needle).map(|(i, _)| i).find(|&i| {
                i > 0 && !t[..i].chars().next_back().map(|c| c.is_alphanumeric() || c == '_').unwrap_or(false)
            }) else {
                continue;
            };
            let rest = &t[pos + needle.len()..];
            let ty: String = rest.chars().take_while(|c| c.is_alphanumeric() || *c == '_').collect();
            if ty.is_empty() {
                continue;
            }
            hits.push(Hit {
                ty,
                file: f.strip_prefix(&root).unwrap_or(&f).display().to_string(),
                line: i + 1,
                backend_generic: t[..pos].contains("Backend"),
            });
        }
    }
    // every mention of "<Trait> for" outside comments must have been parsed as an impl header (guards against
    // impl headers broken over several lines, which the line parser would not see)
    assert_eq!(
        mentions,
        hits.len(),
        "C18 source scan: {mentions} mentions of `{trait_name} for` but {} parsed impl headers",
        hits.len()
    );
    hits
}

pub struct Coverage {
    pub readers: Vec<Hit>,
    pub writers: Vec<Hit>,
    pub missing_driver: Vec<String>,
    pub stale_driver: Vec<String>,
    pub reader_without_writer: Vec<String>,
}

pub fn coverage(drivers: &[&str]) -> Coverage {
    let readers = scan("ReaderFrom");
    let writers = scan("WriterTo");
    let mut by_ty: BTreeMap<String, usize> = BTreeMap::new();
    for h in &readers {
        *by_ty.entry(h.ty.clone()).or_insert(0) += 1;
    }
    let missing_driver = by_ty.keys().filter(|t| !drivers.contains(&t.as_str())).cloned().collect();
    let stale_driver = drivers.iter().filter(|d| !by_ty.contains_key(**d)).map(|d| d.to_string()).collect();
    let reader_without_writer = by_ty.keys().filter(|t| !writers.iter().any(|w| &w.ty == *t)).cloned().collect();
    Coverage {
        readers,
        writers,
        missing_driver,
        stale_driver,
        reader_without_writer,
    }
}

//! pvc-ser: checks C18.  usage: pvc-ser <Cxx> --tier quick|thorough [--replay f] [--only family]

pub mod c18;

use pvc_engine::{Run, load_replay, parse_args};

fn main() {
    let args = parse_args();
    macro_rules! check {
        ($level:expr, $run:path, $replay:path) => {{
            let mut run = Run::new(&args, $level);
            match &args.replay {
                Some(p) => $replay(&mut run, &load_replay(p)),
                None => $run(&mut run),
            }
            run.finish()
        }};
    }
    let code = match args.property.as_str() {
        "C18" => check!("fault_enumeration", c18::run, c18::replay),
        o => {
            eprintln!("pvc-ser: unknown property {o}");
            2
        }
    };
    std::process::exit(code);
}

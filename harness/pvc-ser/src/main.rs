//! pvc-ser: checks C18.  usage: pvc-ser <Cxx> --tier quick|thorough [--replay f] [--only family]
#![feature(alloc_error_hook)]

pub mod c18;
pub mod scan;
pub mod subjects;

use pvc_engine::{Run, load_replay, parse_args};
use std::alloc::{GlobalAlloc, Layout, System};

/// A corrupted header can ask `read_from` for an arbitrarily large allocation (e.g. a seed count of 2^32-1).
/// With the system allocator such a request either aborts the process (allocation failure is not a panic) or is
/// served lazily by an overcommitting kernel, depending on the host. To make the outcome deterministic and
/// attributable to one fault, single requests above 64 MiB (the harness itself never needs more than a few MiB at once) are refused here and the allocation-error hook turns the
/// refusal into a panic that `pvc_engine::guarded` catches.
struct Capped;
const ALLOC_CAP: usize = 1 << 26;

unsafe impl GlobalAlloc for Capped {
    unsafe fn alloc(&self, l: Layout) -> *mut u8 {
        if l.size() > ALLOC_CAP { std::ptr::null_mut() } else { unsafe { System.alloc(l) } }
    }
    unsafe fn dealloc(&self, p: *mut u8, l: Layout) {
        unsafe { System.dealloc(p, l) }
    }
    unsafe fn alloc_zeroed(&self, l: Layout) -> *mut u8 {
        if l.size() > ALLOC_CAP { std::ptr::null_mut() } else { unsafe { System.alloc_zeroed(l) } }
    }
    unsafe fn realloc(&self, p: *mut u8, l: Layout, n: usize) -> *mut u8 {
        if n > ALLOC_CAP { std::ptr::null_mut() } else { unsafe { System.realloc(p, l, n) } }
    }
}

#[global_allocator]
static ALLOC: Capped = Capped;

/// Machinery precondition of C18: every `ReaderFrom` type in the tree under test has a driver (and vice versa).
/// Enforced before any family runs; a mismatch is a machinery failure (exit code 3), never a verdict.
fn enforce_coverage() {
    let cov = match std::panic::catch_unwind(|| scan::coverage(subjects::DRIVERS)) {
        Ok(c) => c,
        Err(_) => {
            eprintln!("C18 machinery failure: source scan failed (see message above)");
            std::process::exit(3);
        }
    };
    let mut bad = false;
    for t in &cov.missing_driver {
        let at: Vec<String> = cov.readers.iter().filter(|h| &h.ty == t).map(|h| format!("{}:{}", h.file, h.line)).collect();
        eprintln!("C18 machinery failure: ReaderFrom type `{t}` ({}) has no driver in pvc-ser/src/subjects.rs", at.join(", "));
        bad = true;
    }
    for t in &cov.stale_driver {
        eprintln!("C18 machinery failure: driver `{t}` has no `impl ReaderFrom for {t}` in the scanned sources");
        bad = true;
    }
    for t in &cov.reader_without_writer {
        eprintln!("C18 machinery failure: `{t}` implements ReaderFrom but no WriterTo was found");
        bad = true;
    }
    if cov.readers.is_empty() {
        eprintln!("C18 machinery failure: the source scan found no ReaderFrom impl under {}", scan::repo_root().display());
        bad = true;
    }
    if bad {
        std::process::exit(3);
    }
}

fn main() {
    std::alloc::set_alloc_error_hook(|l| panic!("memory allocation of {} bytes failed", l.size()));
    let args = parse_args();
    macro_rules! check {
        ($level:expr, $run:path, $replay:path) => {{
            let mut run = Run::new(&args, $level);
            match &args.replay {
                Some(p) => $replay(&mut run, &load_replay(p)),
                None => $run(&mut run),
            }
            run.finish()
        }};
    }
    let code = match args.property.as_str() {
        "C18" => {
            enforce_coverage();
            check!("fault_enumeration", c18::run, c18::replay)
        }
        o => {
            eprintln!("pvc-ser: unknown property {o}");
            2
        }
    };
    std::process::exit(code);
}

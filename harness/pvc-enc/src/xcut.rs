//! Shared by the scheme-level parts of the cross-cutting properties C10 / C11 / C12: the shape grid over the 24 routines
//! of objs.rs and a scoped switch for the drivers' thread-local modes (scratch policy, extras).

use crate::enc_util::*;
use crate::objs::*;
use poulpy_core::ScratchTakeCore;
use poulpy_hal::layouts::{Module, Scratch};
use pvc_common::{Bk, CoreAll, HalAll};
use pvc_engine::Tier;
use serde::{Deserialize, Serialize};

#[derive(Clone, Debug, Serialize, Deserialize)]
pub struct Case {
    pub routine: Routine,
    pub backend: String,
    pub shape: Shape,
}

/// Restores the default driver modes when dropped (also on unwinding).
pub struct Modes;

impl Modes {
    pub fn set(policy: ScratchPolicy, extras: bool) -> Modes {
        set_scratch_policy(policy);
        set_extras(extras);
        Modes
    }
}

impl Drop for Modes {
    fn drop(&mut self) {
        set_scratch_policy(ScratchPolicy::Slack);
        set_extras(false);
        set_lenient_ops(vec![]);
        let _ = take_steps();
        let _ = take_issues();
    }
}

/// the module a routine is driven with (LWE encryption only needs the normalisation kernels; its dimension is free)
pub fn module_for<B: Bk>(r: Routine, sh: &Shape) -> Module<B> {
    if r == Routine::LweSk { B::module(8) } else { B::module(sh.n) }
}

pub fn build_case<B: Bk>(c: &Case, inp: &Inp) -> Result<Obj, String>
where
    Module<B>: HalAll<B> + CoreAll<B>,
    Scratch<B>: ScratchTakeCore<B>,
{
    let m = module_for::<B>(c.routine, &c.shape);
    build::<B>(&m, c.routine, &c.shape, inp)
}

/// Shapes admissible for routine r: N in {8,16} and 32 (thorough: a thinner grid at N = 64), single ciphertexts with ranks 0..3 and 1..3 limbs (LWE: dimensions 1, 7, 8, 16, 33 - byte
/// sizes that are not multiples of 64), matrices with rank_out 1..3, independent rank_in 1..3, (dnum, dsize) including
/// dsize 2 and 3, the minimal admissible size and one more limb; radices 3 and 17 (thorough: +45); precision one bit below a
/// limb boundary; thorough: also one spare limb above the noise limb.
pub fn grid(r: Routine, tier: Tier) -> Vec<Shape> {
    let mut out = vec![];
    let ns: Vec<usize> = if r == Routine::LweSk { vec![1, 7, 8, 16, 33] } else { tier.pick(vec![8, 16, 32], vec![8, 16, 32, 64]) };
    for &n in &ns {
        let heavy = n >= 64 && r != Routine::LweSk;
        let ranks: Vec<usize> = if r == Routine::LweSk || r.rank_out_one() {
            vec![1]
        } else if r.is_matrix() {
            if heavy { vec![1, 2] } else { vec![1, 2, 3] }
        } else {
            vec![0, 1, 2, 3]
        };
        for &rank in &ranks {
            let rank_ins: Vec<usize> = if r.has_rank_in() { if heavy { vec![1, 3] } else { vec![1, 2, 3] } } else { vec![rank] };
            for &rank_in in &rank_ins {
                // radix 45 = the FFT64 maximum at N = 32 (every backend runs every shape)
                let radices: Vec<usize> = if heavy { vec![17] } else { tier.pick(vec![3, 17], vec![3, 17, 45]) };
                for b in radices {
                    let grids: Vec<(usize, usize)> = if !r.is_matrix() {
                        vec![(1, 1)]
                    } else if r.dsize_one() {
                        vec![(1, 1), (2, 1), (3, 1)]
                    } else if heavy {
                        vec![(1, 1), (2, 2), (1, 3)]
                    } else {
                        vec![(1, 1), (2, 1), (3, 1), (1, 2), (2, 2), (1, 3), (2, 3)]
                    };
                    for (dnum, dsize) in grids {
                        let sizes: Vec<usize> = if r.is_matrix() {
                            let smin = (dnum * dsize).max(dsize + 1);
                            if heavy { vec![smin] } else { vec![smin, smin + 1] }
                        } else {
                            vec![1, 2, 3]
                        };
                        for size in sizes {
                            // one spare limb above the noise limb on a sub-grid (thorough)
                            let extras: Vec<usize> = if tier.is_thorough() && !heavy && (dnum, dsize) != (2, 3) { vec![0, 1] } else { vec![0] };
                            for extra in extras {
                                out.push(Shape {
                                    n,
                                    b,
                                    k: size * b - 1,
                                    rank,
                                    rank_in,
                                    dnum,
                                    dsize,
                                    noise: 0,
                                    extra,
                                });
                            }
                        }
                    }
                }
            }
        }
    }
    out
}

pub fn all_cases<B: Bk>(tier: Tier) -> Vec<Case> {
    let mut cs = vec![];
    for &routine in ALL_ROUTINES.iter() {
        for shape in grid(routine, tier) {
            cs.push(Case {
                routine,
                backend: B::NAME.into(),
                shape,
            });
        }
    }
    cs
}

/// the library operation a recorded step belongs to
pub fn op_of_step(r: Routine, step: &str) -> String {
    match step {
        "decrypted" => if r == Routine::LweSk { "lwe_decrypt" } else { "glwe_decrypt" }.to_string(),
        "prepared(ggsw)" => "ggsw_prepare".to_string(),
        "secret_tensor" => "glwe_secret_tensor_prepare".to_string(),
        "public_key" => "glwe_public_key_generate".to_string(),
        "glwe_secret" | "lwe_secret" => "secret_generation".to_string(),
        _ => r.name().to_string(),
    }
}

/// first difference between the observable results of two runs of the same case: (step name or "bytes"/"cells")
pub fn first_difference(a: &Obj, b: &Obj) -> Option<String> {
    if a.steps.len() != b.steps.len() {
        return Some("step_count".into());
    }
    for (x, y) in a.steps.iter().zip(b.steps.iter()) {
        if x.name != y.name {
            return Some(format!("step_order:{}!={}", x.name, y.name));
        }
        if x.bytes != y.bytes {
            return Some(x.name.clone());
        }
    }
    if a.bytes != b.bytes {
        return Some("object".into());
    }
    if a.cells.len() != b.cells.len() || a.cells.iter().zip(b.cells.iter()).any(|(x, y)| x.body != y.body || x.mask != y.mask) {
        return Some("cells".into());
    }
    if a.roundtrip != b.roundtrip {
        return Some("roundtrip".into());
    }
    None
}

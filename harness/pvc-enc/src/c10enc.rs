//! C10 (scheme-level part: encryption, key generation, decryption) - all backends give bit-identical results for
//! identical inputs and seeds.
//!
//! Programs (depth <= 4 recorded steps, each compared): secret generation -> [public-key generation] -> encryption /
//! key generation [compressed + decompression] -> decryption, for the 24 routines of objs.rs, executed on every backend
//! under equal seeds.  After every step the coefficient-domain bytes (clear secrets as the prepared secret decrypts
//! them, serialised public key, serialised ciphertext / key / compressed object, expanded cells, decrypted plaintext,
//! secret tensor) must be identical on FFT64Ref vs FFT64Avx, NTT120Ref vs NTT120Avx and FFT64Ref vs NTT120Ref.

use crate::enc_util::*;
use crate::objs::*;
use crate::xcut::*;
use poulpy_core::ScratchTakeCore;
use poulpy_hal::layouts::{Module, Scratch};
use pvc_common::{Bk, CoreAll, HalAll, for_backends};
use pvc_engine::{Rec, Run, fnv};
use serde::{Deserialize, Serialize};
use serde_json::{Value, json};

#[derive(Clone, Debug, Serialize, Deserialize)]
pub struct PCase {
    pub routine: Routine,
    pub shape: Shape,
    pub seed: usize,
}

struct Per {
    name: &'static str,
    res: Result<Obj, String>,
}

fn run_backend<B: Bk>(c: &PCase, out: &mut Vec<Per>)
where
    Module<B>: HalAll<B> + CoreAll<B>,
    Scratch<B>: ScratchTakeCore<B>,
{
    let case = Case {
        routine: c.routine,
        backend: B::NAME.into(),
        shape: c.shape,
    };
    let inp = Inp {
        p: c.seed,
        s: c.seed,
        a: c.seed,
        e: c.seed,
        g: c.seed % 2,
    };
    let _modes = Modes::set(ScratchPolicy::Slack, true);
    out.push(Per {
        name: B::NAME,
        res: build_case::<B>(&case, &inp),
    });
}

pub const PAIRS: [(&str, &str); 3] = [("fft64-ref", "fft64-avx"), ("ntt120-ref", "ntt120-avx"), ("fft64-ref", "ntt120-ref")];

pub fn exec(c: &PCase, rec: &mut Rec) {
    rec.distinct(fnv(format!("{:?}", c).as_bytes()));
    rec.sample(|| serde_json::to_value(c).unwrap());
    let mut per: Vec<Per> = vec![];
    for_backends!(run_backend(c, &mut per));
    let r = c.routine;
    rec.evals(per.len() as u64);
    for p in &per {
        if let Err(msg) = &p.res {
            let stage = msg.split(':').next().unwrap_or("").to_string();
            let op = if stage == "encrypt" { r.name().to_string() } else { stage };
            rec.fail(json!({"op": op, "backend": p.name, "kind": "panic", "case": c, "inner": {}, "routine": r.name(), "panic": msg}));
        }
    }
    let get = |name: &str| per.iter().find(|p| p.name == name).and_then(|p| p.res.as_ref().ok());
    for (a, b) in PAIRS {
        let (Some(oa), Some(ob)) = (get(a), get(b)) else { continue };
        rec.add(&format!("pairs/{a}~{b}"), 1);
        let sa: Vec<&Step> = oa.steps.iter().filter(|s| s.portable).collect();
        let sb: Vec<&Step> = ob.steps.iter().filter(|s| s.portable).collect();
        rec.add(&format!("program_depth/{}", sa.len()), 1);
        if sa.len() != sb.len() {
            rec.fail(json!({"op": r.name(), "backend": format!("{a}~{b}"), "kind": "backend_mismatch", "case": c, "inner": {"pair": [a, b]}, "differs": "step_count", "routine": r.name()}));
            continue;
        }
        for (i, (x, y)) in sa.iter().zip(sb.iter()).enumerate() {
            if x.name != y.name || x.bytes != y.bytes {
                let at = x.bytes.iter().zip(y.bytes.iter()).position(|(p, q)| p != q);
                rec.fail(json!({"op": op_of_step(r, &x.name), "backend": format!("{a}~{b}"), "kind": "backend_mismatch", "case": c,
                    "inner": {"pair": [a, b]}, "differs": x.name, "step_index": i, "first_differing_byte": at, "routine": r.name(),
                    "cross_family": a.split('-').next() != b.split('-').next()}));
                break;
            }
        }
        if oa.roundtrip != ob.roundtrip {
            rec.fail(json!({"op": r.name(), "backend": format!("{a}~{b}"), "kind": "backend_mismatch", "case": c, "inner": {"pair": [a, b]}, "differs": "roundtrip", "routine": r.name()}));
        }
    }
    if let Some(o) = per.iter().find_map(|p| p.res.as_ref().ok()) {
        rec.outcome(fnv(&o.bytes));
    }
}

pub fn run(run: &mut Run) {
    run.assume("radices 3 and 17 (inside the magnitude domain of both families); secrets ternary (p = 1/2), LWE secrets of the blind-rotation key binary; noise = library default");
    run.assume("prepared / DFT-domain buffers (prepared secrets, prepared public key, prepared keys) are backend-specific representations and are compared only through what they compute (unit-mask decryptions, ciphertexts)");
    if !pvc_common::host_has_avx() {
        run.assume("host lacks AVX2/FMA: only FFT64Ref vs NTT120Ref is compared");
    }
    let seeds = run.tier.pick(2usize, 4);
    let mut cs = vec![];
    for &routine in ALL_ROUTINES.iter() {
        for shape in grid(routine, run.tier) {
            for seed in 0..seeds {
                cs.push(PCase { routine, shape, seed });
            }
        }
    }
    run.family(
        "enc_programs/backend-pairs",
        "outer = (routine (24), shape grid as in the C12 part, seed family 0..2 (thorough 0..4; 0 = all-zero seeds)); each case is one program [secret generation, (public-key generation,) encryption or key generation (compressed: + decompression), decryption of single ciphertexts, (secret tensor)] run on all available backends; inner = the backend pairs FFT64Ref~FFT64Avx, NTT120Ref~NTT120Avx, FFT64Ref~NTT120Ref compared after every step; distinct = outer cases; counters program_depth/<d> give the number of compared steps per program",
        cs,
        |c, rec| exec(c, rec),
    );
    run.note("backend_pairs", json!(PAIRS.iter().map(|(a, b)| format!("{a}~{b}")).collect::<Vec<_>>()));
}

/// false if the descriptor does not belong to this part
pub fn replay(run: &mut Run, d: &Value) -> bool {
    let fam = d["family"].as_str().unwrap_or("").to_string();
    if !fam.starts_with("enc_programs/") {
        return false;
    }
    let c: PCase = match serde_json::from_value(d["case"].clone()) {
        Ok(c) => c,
        Err(_) => return false,
    };
    run.single(&fam, "replay", |rec| exec(&c, rec));
    true
}

//! Helpers shared by C01 / C06 / C19: seeds, garbage-filled scratch and results, secrets with known clear
//! coefficients (replication verified by a noise-free decryption), noise bounds, exact torus helpers.

use poulpy_core::layouts::{
    Base2K, Degree, GLWE, GLWEPlaintext, GLWESecret, GLWESecretPrepared, GLWESecretPreparedFactory, LWE, LWEPlaintext,
    LWESecret, Rank, TorusPrecision,
};
use poulpy_core::{GLWEDecrypt, ScratchTakeCore};
use poulpy_hal::alloc_aligned;
use poulpy_hal::layouts::{DataRef, DeviceBuf, Module, NoiseInfos, Scratch, VecZnx, ZnxInfos, ZnxView, ZnxViewMut};
use poulpy_hal::source::Source;
use pvc_common::phase::{Dist, clear_secret};
use pvc_common::{Bk, CoreAll, HalAll};
use pvc_engine::rng::{Rng, garbage};
use pvc_model::IBig;
use pvc_model::torus;

pub const SIGMA: f64 = 3.2;
pub const BOUND: f64 = 6.0 * 3.2;

/// Noise configurations: 0 = library default (sigma 3.2, bound 6 sigma), 1 = tight truncation (bound = sigma = 3.2, about
/// a third of the raw samples are rejected, so the truncation loop is really exercised), 2 = (sigma 1, bound 1).
pub fn noise_cfg(which: u8, k: usize) -> NoiseInfos {
    match which {
        0 => NoiseInfos::new(k, SIGMA, BOUND).unwrap(),
        1 => NoiseInfos::new(k, SIGMA, SIGMA).unwrap(),
        _ => NoiseInfos::new(k, 1.0, 1.0).unwrap(),
    }
}

/// Position and hard bound of the fresh error: it is an integer e on limb `limb` (value e * 2^-((limb+1)*b)) with
/// |e| <= round(bound * 2^((limb+1)*b - k)) (the truncated real sample is rounded to the nearest integer).
pub fn noise_limb_bound(noise: &NoiseInfos, b: usize) -> (usize, i128) {
    let limb = noise.k.div_ceil(b) - 1;
    let sh = (limb + 1) * b - noise.k;
    let scale = (sh as f64).exp2();
    (limb, (noise.bound * scale).round() as i128)
}

/// The 32-byte seed number `i` of stream `tag`; number 0 is the all-zero seed used by the library's own tests.
pub fn seed_of(tag: u64, i: u64) -> [u8; 32] {
    if i == 0 {
        return [0u8; 32];
    }
    Rng::new(0x5EED_u64.wrapping_add(tag << 48), i).seed32()
}

/// Slack added to every companion scratch query: exact-size scratch is the business of C12; `glwe_decrypt_tmp_bytes`
/// under-reports on NTT120 for one-limb ciphertexts (it budgets vec_znx_normalize_tmp_bytes = 24 N bytes for a call to
/// vec_znx_big_normalize, which needs 48 N there), which would otherwise mask every C01/C06/C19 verdict on that backend.
pub const SCRATCH_SLACK: usize = 4096;

/// SCRATCH_SLACK unless the experiment switch VERIF_ENC_SLACK=<bytes> overrides it (0 = exactly the companion query)
pub fn scratch_slack() -> usize {
    static SLACK: std::sync::OnceLock<usize> = std::sync::OnceLock::new();
    *SLACK.get_or_init(|| std::env::var("VERIF_ENC_SLACK").ok().and_then(|s| s.parse().ok()).unwrap_or(SCRATCH_SLACK))
}

/// How `with_scratch` hands scratch to the library on the current thread.
#[derive(Clone, Copy, Debug, PartialEq, Eq)]
pub enum ScratchPolicy {
    /// query + slack, filled with the caller's garbage pattern (C01 / C06 / C19)
    Slack,
    /// an exact-size window of exactly the queried bytes between canary bytes, filled with pattern `fill`
    /// (pvc_engine::rng::garbage numbering: 0 NaN/huge, 1 big/position, 2 zeros, 3 0x11); no slack, VERIF_ENC_SLACK ignored
    Exact { fill: usize },
    /// query + slack, but filled with pattern `fill` irrespective of the caller's choice (C11)
    SlackFill { fill: usize },
}

/// One scratch hand-over under a non-default policy.
#[derive(Clone, Debug)]
pub struct ScratchEvent {
    pub op: String,
    pub bytes: usize,
    pub canaries_ok: bool,
}

thread_local! {
    static POLICY: std::cell::Cell<ScratchPolicy> = const { std::cell::Cell::new(ScratchPolicy::Slack) };
    static EVENTS: std::cell::RefCell<Vec<ScratchEvent>> = const { std::cell::RefCell::new(Vec::new()) };
    static EXTRAS: std::cell::Cell<bool> = const { std::cell::Cell::new(false) };
    static LENIENT: std::cell::RefCell<Vec<String>> = const { std::cell::RefCell::new(Vec::new()) };
}

/// operations (event-log names) that get query + slack even under the `Exact` policy: after an exact-size failure of one
/// call has been reported, the case is re-run with that call relaxed so that the calls behind it are still reached
pub fn set_lenient_ops(ops: Vec<String>) {
    LENIENT.with(|l| *l.borrow_mut() = ops);
}

fn is_lenient(op: &str) -> bool {
    LENIENT.with(|l| l.borrow().iter().any(|x| x == op))
}

pub fn set_scratch_policy(p: ScratchPolicy) {
    POLICY.with(|c| c.set(p));
    EVENTS.with(|e| e.borrow_mut().clear());
}

pub fn scratch_policy() -> ScratchPolicy {
    POLICY.with(|c| c.get())
}

/// scratch hand-overs since the last `set_scratch_policy`
pub fn take_scratch_events() -> Vec<ScratchEvent> {
    EVENTS.with(|e| std::mem::take(&mut *e.borrow_mut()))
}

/// One recorded step of a driver program (extras mode).
#[derive(Clone, Debug)]
pub struct Step {
    pub name: String,
    pub bytes: Vec<u8>,
    /// comparable across backends (coefficient-domain data); prepared / DFT-domain buffers are not
    pub portable: bool,
}

thread_local! {
    static STEPS: std::cell::RefCell<Vec<Step>> = const { std::cell::RefCell::new(Vec::new()) };
    static ISSUES: std::cell::RefCell<Vec<String>> = const { std::cell::RefCell::new(Vec::new()) };
}

pub fn record_step(name: &str, bytes: &[u8], portable: bool) {
    if extras() {
        STEPS.with(|s| {
            s.borrow_mut().push(Step {
                name: name.to_string(),
                bytes: bytes.to_vec(),
                portable,
            })
        });
    }
}

pub fn take_steps() -> Vec<Step> {
    STEPS.with(|s| std::mem::take(&mut *s.borrow_mut()))
}

pub fn record_issue(msg: String) {
    ISSUES.with(|s| s.borrow_mut().push(msg));
}

pub fn take_issues() -> Vec<String> {
    ISSUES.with(|s| std::mem::take(&mut *s.borrow_mut()))
}

/// digest of a serialisable read-only operand (0 when extras are off)
pub fn operand_digest<T: poulpy_hal::layouts::WriterTo>(t: &T) -> u64 {
    if !extras() {
        return 0;
    }
    let mut v = vec![];
    t.write_to(&mut v).expect("write_to into a Vec");
    pvc_engine::fnv(&v)
}

pub fn operand_verify<T: poulpy_hal::layouts::WriterTo>(name: &str, before: u64, t: &T) {
    if extras() && operand_digest(t) != before {
        record_issue(format!("operand_modified: {name}"));
    }
}

/// Guards a read-only i64 operand (plaintext, LWE secret): its digest at creation must still hold when the guard drops.
pub struct RawGuard<'a> {
    name: &'static str,
    data: &'a [i64],
    digest: u64,
}

impl<'a> RawGuard<'a> {
    pub fn new(name: &'static str, data: &'a [i64]) -> Self {
        RawGuard {
            name,
            data,
            digest: if extras() { pvc_engine::hash_i64s(data) } else { 0 },
        }
    }
}

impl Drop for RawGuard<'_> {
    fn drop(&mut self) {
        if extras() && !std::thread::panicking() && pvc_engine::hash_i64s(self.data) != self.digest {
            record_issue(format!("operand_modified: {}", self.name));
        }
    }
}

/// Guards a GLWE secret (prepared and unprepared form): when the guard drops, both must still decrypt the unit masks
/// to the clear coefficients.
pub struct SkGuard<'a, B: Bk>
where
    Module<B>: HalAll<B> + CoreAll<B>,
    Scratch<B>: ScratchTakeCore<B>,
{
    m: &'a Module<B>,
    sk: &'a Sk<B>,
    name: &'static str,
}

impl<'a, B: Bk> SkGuard<'a, B>
where
    Module<B>: HalAll<B> + CoreAll<B>,
    Scratch<B>: ScratchTakeCore<B>,
{
    pub fn new(name: &'static str, m: &'a Module<B>, sk: &'a Sk<B>) -> Self {
        SkGuard { m, sk, name }
    }
}

impl<B: Bk> Drop for SkGuard<'_, B>
where
    Module<B>: HalAll<B> + CoreAll<B>,
    Scratch<B>: ScratchTakeCore<B>,
{
    fn drop(&mut self) {
        if !extras() || std::thread::panicking() {
            return;
        }
        let rank = self.sk.clear.len();
        if rank == 0 {
            return;
        }
        let n = self.sk.clear[0].len();
        let r = pvc_engine::guarded(|| {
            verify_prepared_secret::<B>(self.m, n, rank, &self.sk.prep, &self.sk.clear)
                .and_then(|_| verify_secret::<B>(self.m, n, rank, &self.sk.sk, &self.sk.clear))
        });
        match r {
            Ok(Ok(())) => {}
            Ok(Err(e)) => record_issue(format!("operand_modified: {} ({e})", self.name)),
            Err(e) => record_issue(format!("operand_modified: {} (verification panicked: {e})", self.name)),
        }
    }
}

/// the drivers also decrypt single ciphertexts, prepare key material, snapshot every step and digest read-only operands
pub fn set_extras(on: bool) {
    EXTRAS.with(|c| c.set(on));
}

pub fn extras() -> bool {
    EXTRAS.with(|c| c.get())
}

const CANARY: u8 = 0xC5;

/// Runs `f` with a scratch arena for a companion query of `bytes` bytes, prepared according to the thread's policy
/// (default: `bytes` + SCRATCH_SLACK pre-filled with garbage pattern `which`); the hand-over is logged as operation "encrypt".
pub fn with_scratch<B: Bk, T>(bytes: usize, which: usize, f: impl FnOnce(&mut Scratch<B>) -> T) -> T {
    with_scratch_op::<B, T>("encrypt", bytes, which, f)
}

/// `with_scratch` with the name of the library operation that receives the scratch (for the event log).
pub fn with_scratch_op<B: Bk, T>(op: &str, bytes: usize, which: usize, f: impl FnOnce(&mut Scratch<B>) -> T) -> T {
    match scratch_policy() {
        ScratchPolicy::Slack => with_scratch_slack::<B, T>(bytes, which, f),
        ScratchPolicy::SlackFill { fill } => {
            EVENTS.with(|e| {
                e.borrow_mut().push(ScratchEvent {
                    op: op.to_string(),
                    bytes,
                    canaries_ok: true,
                })
            });
            with_scratch_slack::<B, T>(bytes, fill, f)
        }
        ScratchPolicy::Exact { fill } if is_lenient(op) => with_scratch_slack::<B, T>(bytes, fill, f),
        ScratchPolicy::Exact { fill } => {
            let pad = 128usize;
            let mut buf = alloc_aligned::<u8>(pad + bytes + pad + 64);
            buf.fill(CANARY);
            garbage(&mut buf[pad..pad + bytes], fill);
            // the event is logged before the call so that a panic escaping `f` still leaves the size behind
            EVENTS.with(|e| {
                e.borrow_mut().push(ScratchEvent {
                    op: op.to_string(),
                    bytes,
                    canaries_ok: true,
                })
            });
            let r = f(B::scratch_from_bytes(&mut buf[pad..pad + bytes]));
            let ok = buf[..pad].iter().all(|x| *x == CANARY) && buf[pad + bytes..].iter().all(|x| *x == CANARY);
            if !ok {
                EVENTS.with(|e| {
                    if let Some(last) = e.borrow_mut().iter_mut().rev().find(|x| x.op == op && x.bytes == bytes) {
                        last.canaries_ok = false;
                    }
                });
            }
            r
        }
    }
}

/// query + slack regardless of the policy (harness-internal calls such as the secret replication check)
pub fn with_scratch_slack<B: Bk, T>(bytes: usize, which: usize, f: impl FnOnce(&mut Scratch<B>) -> T) -> T {
    let bytes = bytes.div_ceil(64) * 64 + scratch_slack();
    let mut buf = alloc_aligned::<u8>(bytes);
    garbage(&mut buf, which);
    f(B::scratch_from_bytes(&mut buf))
}

pub fn deg(n: usize) -> Degree {
    Degree(n as u32)
}
pub fn b2k(b: usize) -> Base2K {
    Base2K(b as u32)
}
pub fn tp(k: usize) -> TorusPrecision {
    TorusPrecision(k as u32)
}
pub fn rk(r: usize) -> Rank {
    Rank(r as u32)
}

pub fn glwe_garbage(n: usize, b: usize, size: usize, rank: usize, which: usize) -> GLWE<Vec<u8>> {
    let mut g = GLWE::alloc(deg(n), b2k(b), tp(size * b), rk(rank));
    garbage(bytemuck_i64(g.data_mut().raw_mut()), which);
    g
}

pub fn pt_garbage(n: usize, b: usize, size: usize, which: usize) -> GLWEPlaintext<Vec<u8>> {
    let mut g = GLWEPlaintext::alloc(deg(n), b2k(b), tp(size * b));
    garbage(bytemuck_i64(g.data_mut().raw_mut()), which);
    g
}

pub fn lwe_garbage(n: usize, b: usize, size: usize, which: usize) -> LWE<Vec<u8>> {
    let mut g = LWE::alloc(deg(n), b2k(b), tp(size * b));
    garbage(bytemuck_i64(g.data_mut().raw_mut()), which);
    g
}

pub fn lwe_pt_garbage(b: usize, size: usize, which: usize) -> LWEPlaintext<Vec<u8>> {
    let mut g = LWEPlaintext::alloc(b2k(b), tp(size * b));
    garbage(bytemuck_i64(g.data_mut().raw_mut()), which);
    g
}

pub fn bytemuck_i64(x: &mut [i64]) -> &mut [u8] {
    // SAFETY: plain reinterpretation of an i64 slice as bytes (no alignment requirement on u8)
    unsafe { std::slice::from_raw_parts_mut(x.as_mut_ptr() as *mut u8, x.len() * 8) }
}

pub fn i64_bytes(x: &[i64]) -> &[u8] {
    // SAFETY: plain reinterpretation of an i64 slice as bytes
    unsafe { std::slice::from_raw_parts(x.as_ptr() as *const u8, x.len() * 8) }
}

/// owned, aligned copy of any VecZnx view
pub fn vec_owned<D: DataRef>(v: &VecZnx<D>) -> VecZnx<Vec<u8>> {
    let mut out = VecZnx::alloc(v.n(), v.cols(), v.size());
    for c in 0..v.cols() {
        for j in 0..v.size() {
            out.at_mut(c, j).copy_from_slice(v.at(c, j));
        }
    }
    out
}

/// all limbs of all columns as one flat vector (column-major, limb, coefficient) - layout independent
pub fn flat<D: DataRef>(v: &VecZnx<D>) -> Vec<i64> {
    let mut out = Vec::with_capacity(v.n() * v.cols() * v.size());
    for c in 0..v.cols() {
        for j in 0..v.size() {
            out.extend_from_slice(v.at(c, j));
        }
    }
    out
}

pub fn flat_col<D: DataRef>(v: &VecZnx<D>, c: usize) -> Vec<i64> {
    let mut out = Vec::with_capacity(v.n() * v.size());
    for j in 0..v.size() {
        out.extend_from_slice(v.at(c, j));
    }
    out
}

pub fn fill_glwe_secret(sk: &mut GLWESecret<Vec<u8>>, n: usize, dist: Dist, src: &mut Source) {
    match dist {
        Dist::TernaryProb => sk.fill_ternary_prob(0.5, src),
        Dist::TernaryHw => sk.fill_ternary_hw((n / 2).max(1), src),
        Dist::BinaryProb => sk.fill_binary_prob(0.5, src),
        Dist::BinaryHw => sk.fill_binary_hw((n / 2).max(1), src),
        Dist::BinaryBlock => sk.fill_binary_block(if n % 4 == 0 { 4 } else { 1 }, src),
        Dist::Zero => sk.fill_zero(),
    }
}

pub fn fill_lwe_secret(sk: &mut LWESecret<Vec<u8>>, n: usize, dist: Dist, src: &mut Source) {
    match dist {
        Dist::TernaryProb => sk.fill_ternary_prob(0.5, src),
        Dist::TernaryHw => sk.fill_ternary_hw((n / 2).max(1), src),
        Dist::BinaryProb => sk.fill_binary_prob(0.5, src),
        Dist::BinaryHw => sk.fill_binary_hw((n / 2).max(1), src),
        Dist::BinaryBlock => sk.fill_binary_block(if n % 4 == 0 { 4 } else { 1 }, src),
        Dist::Zero => sk.fill_zero(),
    }
}

/// worst-case 1-norm of the ephemeral secret `u` public-key encryption draws from the key's distribution
pub fn u_l1_max(n: usize, dist: Dist) -> i128 {
    (match dist {
        Dist::TernaryProb | Dist::BinaryProb => n,
        Dist::TernaryHw | Dist::BinaryHw => (n / 2).max(1),
        Dist::BinaryBlock => n / (if n % 4 == 0 { 4 } else { 1 }),
        Dist::Zero => 0,
    }) as i128
}

pub fn machinery_abort(msg: &str) -> ! {
    eprintln!("MACHINERY ERROR (not a verdict): {msg}");
    std::process::exit(3);
}

/// A GLWE secret with harness-side clear coefficients.
pub struct Sk<B: Bk> {
    pub sk: GLWESecret<Vec<u8>>,
    pub prep: GLWESecretPrepared<DeviceBuf<B>, B>,
    pub clear: Vec<Vec<i64>>,
    pub l1: i128,
}

/// Builds the secret with the library's `fill_*` from `Source::new(seed)`, the harness copy with
/// `clear_secret(.., seed)`, and verifies the replication with noise-free decryptions of the unit masks
/// (phase of (0, .., 2^-8 at mask column i, ..) is s_i * 2^-8): a mismatch is a machinery error.
pub fn make_sk<B: Bk>(m: &Module<B>, n: usize, rank: usize, dist: Dist, seed: [u8; 32]) -> Sk<B>
where
    Module<B>: HalAll<B> + CoreAll<B>,
    Scratch<B>: ScratchTakeCore<B>,
{
    let mut sk = GLWESecret::alloc(deg(n), rk(rank));
    fill_glwe_secret(&mut sk, n, dist, &mut Source::new(seed));
    let mut prep = m.glwe_secret_prepared_alloc(rk(rank));
    m.glwe_secret_prepare(&mut prep, &sk);
    let clear = clear_secret(n, rank, dist, seed);
    if let Err(msg) = verify_prepared_secret::<B>(m, n, rank, &prep, &clear) {
        machinery_abort(&format!(
            "clear_secret does not replicate GLWESecret::fill ({dist:?}, n={n}, rank={rank}, backend {}): {msg}",
            B::NAME
        ));
    }
    let l1: i128 = clear.iter().flat_map(|c| c.iter()).map(|x| x.unsigned_abs() as i128).sum();
    if extras() {
        let flat: Vec<i64> = clear.iter().flatten().cloned().collect();
        record_step("glwe_secret", i64_bytes(&flat), true);
    }
    Sk { sk, prep, clear, l1 }
}

/// noise-free decryptions of the unit masks (phase of (0, .., 2^-8 at mask column i, ..) is s_i * 2^-8) must return the
/// clear coefficients: a functional digest of a prepared secret (the type has no accessor)
pub fn verify_prepared_secret<B: Bk>(
    m: &Module<B>,
    n: usize,
    rank: usize,
    prep: &GLWESecretPrepared<DeviceBuf<B>, B>,
    clear: &[Vec<i64>],
) -> Result<(), String>
where
    Module<B>: HalAll<B> + CoreAll<B>,
    Scratch<B>: ScratchTakeCore<B>,
{
    for i in 0..rank {
        let mut ct = GLWE::alloc(deg(n), b2k(8), tp(8), rk(rank));
        ct.data_mut().at_mut(i + 1, 0)[0] = 1;
        let mut pt = pt_garbage(n, 8, 1, 0);
        let bytes = m.glwe_decrypt_tmp_bytes(&ct);
        with_scratch_slack::<B, _>(bytes, 0, |s| m.glwe_decrypt(&ct, &mut pt, prep, s));
        if pt.data().at(0, 0) != &clear[i][..] {
            return Err(format!("column {i}: library {:?} harness {:?}", pt.data().at(0, 0), clear[i]));
        }
    }
    Ok(())
}

/// the same digest for an unprepared secret (prepares a fresh copy first)
pub fn verify_secret<B: Bk>(m: &Module<B>, n: usize, rank: usize, sk: &GLWESecret<Vec<u8>>, clear: &[Vec<i64>]) -> Result<(), String>
where
    Module<B>: HalAll<B> + CoreAll<B>,
    Scratch<B>: ScratchTakeCore<B>,
{
    let mut prep = m.glwe_secret_prepared_alloc(rk(rank));
    m.glwe_secret_prepare(&mut prep, sk);
    verify_prepared_secret::<B>(m, n, rank, &prep, clear)
}

pub fn make_lwe_sk(n: usize, dist: Dist, seed: [u8; 32]) -> (LWESecret<Vec<u8>>, Vec<i64>) {
    let mut sk = LWESecret::alloc(deg(n));
    fill_lwe_secret(&mut sk, n, dist, &mut Source::new(seed));
    let clear = clear_secret(n, 1, dist, seed).remove(0);
    if sk.raw() != &clear[..] {
        machinery_abort(&format!("clear_secret does not replicate LWESecret::fill ({dist:?}, n={n})"));
    }
    record_step("lwe_secret", i64_bytes(&clear), true);
    (sk, clear)
}

// ---------------------------------------------------------------------------------------------
// exact values
// ---------------------------------------------------------------------------------------------

/// value (scaled by 2^(size*b)) of coefficient i of column col
pub fn coeff_value<D: DataRef>(v: &VecZnx<D>, col: usize, i: usize, b: usize) -> IBig {
    let digits: Vec<i64> = (0..v.size()).map(|j| v.at(col, j)[i]).collect();
    torus::value_scaled(&digits, b)
}

/// value of the first `take` limbs only (scaled by 2^(take*b))
pub fn coeff_value_prefix<D: DataRef>(v: &VecZnx<D>, col: usize, i: usize, b: usize, take: usize) -> IBig {
    let digits: Vec<i64> = (0..take.min(v.size())).map(|j| v.at(col, j)[i]).collect();
    torus::value_scaled(&digits, b)
}

/// floating approximation of x / 2^bits (reporting only)
pub fn approx_units(x: &IBig, bits: usize) -> f64 {
    let q: IBig = if bits >= 10 { x >> (bits - 10) } else { x << (10 - bits) };
    q.to_string().parse::<f64>().unwrap_or(f64::INFINITY) / 1024.0
}

pub fn ibig_to_i128(x: &IBig) -> Option<i128> {
    i128::try_from(x.clone()).ok()
}

/// are all digits of every limb in [-2^(b-1), 2^(b-1)) ?
pub fn digits_normalised<D: DataRef>(v: &VecZnx<D>, col: usize, b: usize) -> bool {
    let h = 1i64 << (b - 1);
    (0..v.size()).all(|j| v.at(col, j).iter().all(|&x| x >= -h && x < h))
}

/// Message alphabet: fills the single column of `v` (any size) with normalised digits of radix b.
/// classes: 0 zero; 1 +1 on the last limb at index 0; 2 -1 on the last limb at the last index; 3 all digits 2^(b-1)-1;
/// 4 all digits -2^(b-1); 5 alternating extremes; 6.. seeded random digits.
pub const MSG_CLASSES: usize = 8;
pub fn fill_message(v: &mut VecZnx<Vec<u8>>, b: usize, class: usize, rng: &mut Rng) {
    let (n, size) = (v.n(), v.size());
    let h = 1i64 << (b - 1);
    for j in 0..size {
        let s = v.at_mut(0, j);
        for (i, x) in s.iter_mut().enumerate() {
            *x = match class {
                0 => 0,
                1 => {
                    if j == size - 1 && i == 0 {
                        if b == 1 { -1 } else { 1 }
                    } else {
                        0
                    }
                }
                2 => {
                    if j == size - 1 && i == n - 1 {
                        -1
                    } else {
                        0
                    }
                }
                3 => h - 1,
                4 => -h,
                5 => {
                    if (i + j) % 2 == 0 {
                        h - 1
                    } else {
                        -h
                    }
                }
                _ => rng.digit(b),
            };
        }
    }
}

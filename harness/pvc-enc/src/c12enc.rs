//! C12 (scheme-level part: encryption, key generation, decryption, key preparation) - the declared scratch size always
//! suffices and scratch contents never matter.
//!
//! Every routine of objs.rs is driven with the thread's scratch policy set to `Exact`: each library call that takes
//! scratch receives a window of exactly the bytes its own companion `*_tmp_bytes` query returned (no rounding, no slack,
//! VERIF_ENC_SLACK does not apply), carved with `scratch_from_bytes` out of a larger allocation whose surroundings are
//! canary bytes, pre-filled with zeros, 0x11 and the NaN/huge garbage.  Calls covered per case (extras mode): the
//! encrypting routine itself, glwe_decrypt / lwe_decrypt of single ciphertexts (and of the public key), the matching
//! `*_prepare` of every key / matrix (gglwe, ggsw, switching, automorphism, tensor, gglwe-to-ggsw, glwe-to-lwe, lwe-to-lwe,
//! lwe-to-glwe), glwe_secret_tensor_prepare.  Oracle: no panic, canaries intact, all observable results (serialised
//! object, expanded cells, decrypted plaintext, GGSW prepared buffer, secret tensor) byte-identical across the three fills.

use crate::enc_util::*;
use crate::objs::*;
use crate::xcut::*;
use poulpy_core::ScratchTakeCore;
use poulpy_hal::layouts::{Module, Scratch};
use pvc_common::{Bk, CoreAll, HalAll, for_backends};
use pvc_engine::{Rec, Run, fnv};
use serde_json::{Value, json};

/// pre-fills in pvc_engine::rng::garbage numbering: zeros, 0x11, NaN/huge
const FILLS: [usize; 3] = [2, 3, 0];

fn fill_name(f: usize) -> &'static str {
    match f {
        2 => "zeros",
        3 => "0x11",
        _ => "nan_huge",
    }
}

pub fn exec<B: Bk>(c: &Case, rec: &mut Rec)
where
    Module<B>: HalAll<B> + CoreAll<B>,
    Scratch<B>: ScratchTakeCore<B>,
{
    let r = c.routine;
    rec.distinct(fnv(format!("{:?}", c).as_bytes()));
    rec.sample(|| serde_json::to_value(c).unwrap());
    let inp = Inp {
        p: 1,
        s: 1,
        a: 1,
        e: 1,
        g: 0,
    };
    let mut outs: Vec<(usize, Obj)> = vec![];
    let mut reported_overrun = false;
    // operations whose exact-size failure has been reported: relaxed on the re-run so that later calls are reached
    let mut lenient: Vec<String> = vec![];
    let mut reported: Vec<(String, String)> = vec![];
    for fill in FILLS {
        let mut attempts = 0;
        loop {
            attempts += 1;
            let (res, events) = {
                let _modes = Modes::set(ScratchPolicy::Exact { fill }, true);
                set_lenient_ops(lenient.clone());
                let res = build_case::<B>(c, &inp);
                (res, take_scratch_events())
            };
            rec.evals(events.len().max(1) as u64);
            for e in &events {
                rec.add(&format!("calls/{}", if e.op == "encrypt" { r.name() } else { &e.op }), 1);
                if e.bytes % 64 != 0 {
                    rec.add("windows_not_multiple_of_64", 1);
                }
            }
            let op_name = |stage: &str| -> String { if stage == "encrypt" { r.name().to_string() } else { stage.to_string() } };
            for e in events.iter().filter(|e| !e.canaries_ok) {
                if !reported_overrun {
                    reported_overrun = true;
                    rec.fail(json!({"op": op_name(&e.op), "backend": B::NAME, "kind": "scratch_overrun", "case": c, "inner": {"fill": fill_name(fill)},
                        "tmp_bytes": e.bytes, "tmp_bytes_multiple_of_64": e.bytes % 64 == 0, "routine": r.name()}));
                }
            }
            match res {
                Ok(o) => {
                    outs.push((fill, o));
                    break;
                }
                Err(msg) => {
                    let stage = msg.split(':').next().unwrap_or("").to_string();
                    let lower = msg.to_lowercase();
                    let kind = if msg.starts_with("operand_modified") {
                        "operand_modified"
                    } else if lower.contains("scratch") || lower.contains("tmp_bytes") {
                        "scratch_too_small"
                    } else {
                        "panic"
                    };
                    // the hand-over the failing stage received (the last one logged under that name)
                    let ev = events.iter().rev().find(|e| e.op == stage).or(events.last());
                    if !reported.contains(&(stage.clone(), kind.to_string())) {
                        reported.push((stage.clone(), kind.to_string()));
                        rec.fail(json!({"op": op_name(&stage), "backend": B::NAME, "kind": kind, "case": c, "inner": {"fill": fill_name(fill)},
                            "tmp_bytes": ev.map(|e| e.bytes), "tmp_bytes_multiple_of_64": ev.map(|e| e.bytes % 64 == 0),
                            "routine": r.name(), "panic": msg}));
                    }
                    let is_scratch_stage = events.iter().any(|e| e.op == stage);
                    if kind == "operand_modified" || !is_scratch_stage || lenient.contains(&stage) || attempts >= 6 {
                        return;
                    }
                    lenient.push(stage);
                }
            }
        }
    }
    let (f0, o0) = &outs[0];
    for (f1, o1) in outs.iter().skip(1) {
        if let Some(step) = first_difference(o0, o1) {
            rec.fail(json!({"op": op_of_step(r, &step), "backend": B::NAME, "kind": "scratch_dependent_result", "case": c,
                "inner": {"fill_a": fill_name(*f0), "fill_b": fill_name(*f1)}, "differs": step, "routine": r.name(),
                "tmp_bytes": Value::Null}));
            break;
        }
    }
    rec.outcome(fnv(&o0.bytes));
}

fn fam<B: Bk>(run: &mut Run)
where
    Module<B>: HalAll<B> + CoreAll<B>,
    Scratch<B>: ScratchTakeCore<B>,
{
    let cs = all_cases::<B>(run.tier);
    run.family(
        &format!("enc_exact_scratch/{}", B::NAME),
        "outer = (routine (24: all encrypting routines of poulpy-core incl. key material and compressed forms, blind-rotation / circuit-bootstrapping keys), shape grid: single ciphertexts ranks 0..3 x 1..3 limbs, LWE dimensions {1,7,8,16}, matrices rank_out 1..3 x rank_in 1..3 x (dnum,dsize) incl. dsize 2,3 x minimal size (+1), radices {3,17}); inner = 3 pre-fills (zeros, 0x11, NaN/huge) of an exact-size scratch window between canaries for every scratch-taking call of the case (encrypt, decrypt, prepare, secret tensor); evaluations = exact-window library calls; distinct = outer cases",
        cs,
        |c, rec| exec::<B>(c, rec),
    );
}

pub fn run(run: &mut Run) {
    run.assume("scratch = exactly the companion query of the call that receives it (the query of the same object / layout the call is made with), window start 64-byte aligned, length not rounded");
    run.assume("glwe_public_key_generate, decompress_* and glwe_secret_prepare / glwe_public_key_prepare take no scratch argument (the first allocates its own): nothing to size; blind-rotation key preparation belongs to the blind-rotation group");
    run.assume("result independence is judged on what the public API exposes: serialised objects, expanded cells, decrypted plaintexts, the GGSW prepared buffer, the secret tensor; the other prepared key types expose no accessor, for them only 'no panic' and 'canaries intact' are decided");
    for_backends!(fam(run));
}

/// false if the descriptor does not belong to this part
pub fn replay(run: &mut Run, d: &Value) -> bool {
    let fam = d["family"].as_str().unwrap_or("").to_string();
    if !fam.starts_with("enc_exact_scratch/") {
        return false;
    }
    let c: Case = match serde_json::from_value(d["case"].clone()) {
        Ok(c) => c,
        Err(_) => return false,
    };
    match c.backend.as_str() {
        "fft64-ref" => run.single(&fam, "replay", |rec| exec::<pvc_common::FFT64Ref>(&c, rec)),
        "ntt120-ref" => run.single(&fam, "replay", |rec| exec::<pvc_common::NTT120Ref>(&c, rec)),
        "fft64-avx" => run.single(&fam, "replay", |rec| exec::<pvc_common::FFT64Avx>(&c, rec)),
        "ntt120-avx" => run.single(&fam, "replay", |rec| exec::<pvc_common::NTT120Avx>(&c, rec)),
        _ => return false,
    }
    true
}

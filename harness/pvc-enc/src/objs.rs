//! Uniform driver for every encrypting routine of poulpy-core (standard and seed-compressed forms): builds the
//! object from (plaintext variant, secret variant, mask seed, error seed), and returns its GLWE/LWE *cells* with
//! body, mask and the exact error of each cell (phase under the clear key minus the cell's plaintext), plus the
//! serialised bytes.  Shared by C06 (randomness) and C19 (compressed forms).
//!
//! Cell plaintexts are written from the definitions: GGLWE row r / column c encrypts P_c * 2^-((r+1)*dsize*b);
//! GGSW row r / column j encrypts P * 2^-((r+1)*dsize*b) (j = 0) or that times s_{j-1} (j >= 1); switching key:
//! P = input secret, key = output secret; automorphism key: P = s, key = s(X^(p^-1)); tensor key: P = s_i*s_j
//! (i <= j, row-major), GGLWE-to-GGSW key i: P_j = s_i*s_j; GLWE->LWE: P = s_glwe, key = s_lwe(X^-1);
//! LWE->LWE: P = s_in(X^-1), key = s_out(X^-1); LWE->GLWE: P = s_lwe(X^-1), key = s_glwe.

use crate::enc_util::*;
use poulpy_core::layouts::{
    GGLWEPreparedFactory, GGLWEToGGSWKeyPreparedFactory, GGSWPreparedFactory, GLWEAutomorphismKeyPreparedFactory, GLWESecretTensor,
    GLWESecretTensorFactory, GLWESwitchingKeyPreparedFactory, GLWETensorKeyPreparedFactory, GLWEToLWEKeyPreparedFactory,
    LWESwitchingKeyPreparedFactory, LWEToGLWEKeyPreparedFactory,
    Dnum, Dsize, GGLWE, GGLWECompressed, GGLWECompressedSeed, GGLWECompressedToRef, GGLWEDecompress, GGLWELayout,
    GGLWEToGGSWKey, GGLWEToGGSWKeyCompressed, GGLWEToGGSWKeyLayout, GGLWEToRef, GGSW, GGSWCompressed,
    GGSWCompressedSeed, GGSWDecompress, GGSWLayout, GLWE, GLWEAutomorphismKey, GLWEAutomorphismKeyCompressed,
    GLWEAutomorphismKeyDecompress, GLWEAutomorphismKeyLayout, GLWECompressed, GLWECompressedSeed, GLWEDecompress, GLWELayout,
    GLWEPlaintext, GLWEPublicKey, GLWEPublicKeyPreparedFactory, GLWESwitchingKey, GLWESwitchingKeyCompressed,
    GLWESwitchingKeyDecompress, GLWESwitchingKeyLayout, GLWETensorKey, GLWETensorKeyCompressed, GLWETensorKeyDecompress,
    GLWETensorKeyLayout, GLWEToLWEKey, GLWEToRef, LWE, LWELayout, LWEPlaintext, LWESwitchingKey, LWEToGLWEKey,
};
use poulpy_core::{
    GLWEDecrypt, LWEDecrypt, EncryptionLayout, GGLWECompressedEncryptSk, GGLWEEncryptSk, GGLWEToGGSWKeyCompressedEncryptSk, GGLWEToGGSWKeyEncryptSk,
    GGSWCompressedEncryptSk, GGSWEncryptSk, GLWEAutomorphismKeyCompressedEncryptSk, GLWEAutomorphismKeyEncryptSk,
    GLWECompressedEncryptSk, GLWEEncryptPk, GLWEEncryptSk, GLWEPublicKeyGenerate, GLWESwitchingKeyCompressedEncryptSk,
    GLWESwitchingKeyEncryptSk, GLWETensorKeyCompressedEncryptSk, GLWETensorKeyEncryptSk, GLWEToLWESwitchingKeyEncryptSk,
    LWEEncryptSk, LWESwitchingKeyEncrypt, LWEToGLWESwitchingKeyEncryptSk, ScratchTakeCore,
};
use poulpy_hal::layouts::{
    DataRef, FillUniform, Module, NoiseInfos, ReaderFrom, ScalarZnx, Scratch, VecZnx, WriterTo, ZnxInfos, ZnxView, ZnxViewMut,
};
use poulpy_hal::source::Source;
use pvc_common::phase::{Dist, clear_secret, glwe_phase, lwe_phase};
use pvc_common::{Bk, CoreAll, HalAll};
use pvc_engine::guarded;
use pvc_engine::rng::Rng;
use pvc_model::IBig;
use pvc_model::{ring, torus};
use serde::{Deserialize, Serialize};

#[derive(Clone, Copy, Debug, PartialEq, Eq, Hash, Serialize, Deserialize)]
pub enum Routine {
    GlweSk,
    GlweZeroSk,
    GlwePkGen,
    GlwePk,
    GlweCompressed,
    LweSk,
    Gglwe,
    GglweCompressed,
    Ggsw,
    GgswCompressed,
    Ksk,
    KskCompressed,
    Atk,
    AtkCompressed,
    Tsk,
    TskCompressed,
    G2g,
    G2gCompressed,
    GlweToLwe,
    LweKsk,
    LweToGlwe,
    /// poulpy-bin-fhe: blind-rotation key (one GGSW per LWE secret bit), its compressed form, circuit-bootstrapping key
    Brk,
    BrkCompressed,
    Cbt,
}

pub const ALL_ROUTINES: [Routine; 24] = [
    Routine::GlweSk,
    Routine::GlweZeroSk,
    Routine::GlwePkGen,
    Routine::GlwePk,
    Routine::GlweCompressed,
    Routine::LweSk,
    Routine::Gglwe,
    Routine::GglweCompressed,
    Routine::Ggsw,
    Routine::GgswCompressed,
    Routine::Ksk,
    Routine::KskCompressed,
    Routine::Atk,
    Routine::AtkCompressed,
    Routine::Tsk,
    Routine::TskCompressed,
    Routine::G2g,
    Routine::G2gCompressed,
    Routine::GlweToLwe,
    Routine::LweKsk,
    Routine::LweToGlwe,
    Routine::Brk,
    Routine::BrkCompressed,
    Routine::Cbt,
];

pub const COMPRESSED_ROUTINES: [Routine; 8] = [
    Routine::GlweCompressed,
    Routine::GglweCompressed,
    Routine::GgswCompressed,
    Routine::KskCompressed,
    Routine::AtkCompressed,
    Routine::TskCompressed,
    Routine::G2gCompressed,
    Routine::BrkCompressed,
];

impl Routine {
    pub fn name(self) -> &'static str {
        match self {
            Routine::GlweSk => "glwe_encrypt_sk",
            Routine::GlweZeroSk => "glwe_encrypt_zero_sk",
            Routine::GlwePkGen => "glwe_public_key_generate",
            Routine::GlwePk => "glwe_encrypt_pk",
            Routine::GlweCompressed => "glwe_compressed_encrypt_sk",
            Routine::LweSk => "lwe_encrypt_sk",
            Routine::Gglwe => "gglwe_encrypt_sk",
            Routine::GglweCompressed => "gglwe_compressed_encrypt_sk",
            Routine::Ggsw => "ggsw_encrypt_sk",
            Routine::GgswCompressed => "ggsw_compressed_encrypt_sk",
            Routine::Ksk => "glwe_switching_key_encrypt_sk",
            Routine::KskCompressed => "glwe_switching_key_compressed_encrypt_sk",
            Routine::Atk => "glwe_automorphism_key_encrypt_sk",
            Routine::AtkCompressed => "glwe_automorphism_key_compressed_encrypt_sk",
            Routine::Tsk => "glwe_tensor_key_encrypt_sk",
            Routine::TskCompressed => "glwe_tensor_key_compressed_encrypt_sk",
            Routine::G2g => "gglwe_to_ggsw_key_encrypt_sk",
            Routine::G2gCompressed => "gglwe_to_ggsw_key_compressed_encrypt_sk",
            Routine::GlweToLwe => "glwe_to_lwe_key_encrypt_sk",
            Routine::LweKsk => "lwe_switching_key_encrypt_sk",
            Routine::LweToGlwe => "lwe_to_glwe_key_encrypt_sk",
            Routine::Brk => "blind_rotation_key_encrypt_sk",
            Routine::BrkCompressed => "blind_rotation_key_compressed_encrypt_sk",
            Routine::Cbt => "circuit_bootstrapping_key_encrypt_sk",
        }
    }
    pub fn compressed(self) -> bool {
        COMPRESSED_ROUTINES.contains(&self)
    }
    /// is it a matrix of GLWE cells (uses dnum / dsize)
    pub fn is_matrix(self) -> bool {
        !matches!(
            self,
            Routine::GlweSk | Routine::GlweZeroSk | Routine::GlwePkGen | Routine::GlwePk | Routine::GlweCompressed | Routine::LweSk
        )
    }
    /// uses a distinct input rank
    pub fn has_rank_in(self) -> bool {
        matches!(self, Routine::Gglwe | Routine::GglweCompressed | Routine::Ksk | Routine::KskCompressed | Routine::GlweToLwe)
    }
    /// output rank fixed to 1
    pub fn rank_out_one(self) -> bool {
        matches!(self, Routine::GlweToLwe | Routine::LweKsk)
    }
    /// dsize fixed to 1
    pub fn dsize_one(self) -> bool {
        matches!(
            self,
            Routine::GlweToLwe | Routine::LweKsk | Routine::LweToGlwe | Routine::Brk | Routine::BrkCompressed | Routine::Cbt
        )
    }
    /// the mask of the produced object is a function of the mask seed only (public-key encryption mixes the
    /// ephemeral secret and fresh errors into the mask columns)
    pub fn mask_from_seed_only(self) -> bool {
        self != Routine::GlwePk
    }
    /// has an independent plaintext input
    pub fn has_plaintext(self) -> bool {
        !matches!(
            self,
            Routine::GlweZeroSk | Routine::GlwePkGen | Routine::Tsk | Routine::TskCompressed | Routine::G2g | Routine::G2gCompressed
        )
    }
    pub fn is_binfhe(self) -> bool {
        matches!(self, Routine::Brk | Routine::BrkCompressed | Routine::Cbt)
    }
}

#[derive(Clone, Copy, Debug, PartialEq, Eq, Serialize, Deserialize)]
pub struct Shape {
    pub n: usize,
    pub b: usize,
    /// encryption precision (NoiseInfos::k); size = ceil(k/b) + extra
    pub k: usize,
    pub rank: usize,
    pub rank_in: usize,
    pub dnum: usize,
    pub dsize: usize,
    pub noise: u8,
    /// limbs beyond ceil(k/b) (the error then sits above the last limb)
    #[serde(default)]
    pub extra: usize,
}

impl Shape {
    pub fn size(&self) -> usize {
        self.k.div_ceil(self.b) + self.extra
    }
    pub fn bits(&self) -> usize {
        self.size() * self.b
    }
    pub fn noise(&self) -> NoiseInfos {
        noise_cfg(self.noise, self.k)
    }
}

#[derive(Clone, Copy, Debug, PartialEq, Eq, Serialize, Deserialize)]
pub struct Inp {
    pub p: usize,
    pub s: usize,
    pub a: usize,
    pub e: usize,
    /// garbage variant for results / scratch
    pub g: usize,
}

#[derive(Clone, Debug)]
pub struct Cell {
    pub key: usize,
    pub row: usize,
    pub col: usize,
    /// body limbs, flat (limb-major)
    pub body: Vec<i64>,
    /// mask columns, flat (column, limb, coefficient)
    pub mask: Vec<i64>,
    /// centered error (phase - plaintext) scaled by 2^bits, one per coefficient
    pub err: Vec<IBig>,
    /// seed stored for this cell (compressed forms)
    pub seed: Option<[u8; 32]>,
    /// number of mask columns
    pub mask_cols: usize,
}

#[derive(Default)]
pub struct Obj {
    /// extras mode: the program's steps (secrets, keys, objects, decryptions, prepared buffers) in execution order
    pub steps: Vec<Step>,
    pub cells: Vec<Cell>,
    /// serialisation of the object as the routine produced it (the compressed form for compressed routines)
    pub bytes: Vec<u8>,
    /// compressed forms: (body, mask) of every cell after write_to -> read_from (fresh receiver) -> decompress
    pub roundtrip: Option<Vec<(Vec<i64>, Vec<i64>)>>,
    /// compressed forms: Some(description) when the round trip changed the object as a whole (re-serialising the
    /// deserialised compressed object, or serialising the object decompressed from it, gives other bytes: metadata
    /// such as the secrets' degrees included)
    pub roundtrip_object: Option<String>,
    pub bits: usize,
    /// 1-norm of the decryption key (for public-key bounds)
    pub key_l1: i128,
}

pub(crate) fn seed_s(i: usize) -> [u8; 32] {
    seed_of(1, i as u64)
}
pub(crate) fn seed_e(i: usize) -> [u8; 32] {
    seed_of(2, i as u64)
}
pub(crate) fn seed_a(i: usize) -> [u8; 32] {
    seed_of(3, i as u64)
}
pub(crate) fn seed_p(i: usize) -> [u8; 32] {
    seed_of(6, i as u64)
}
pub fn mask_seed(i: usize) -> [u8; 32] {
    seed_a(i)
}
pub fn error_seed(i: usize) -> [u8; 32] {
    seed_e(i)
}

/// small plaintext polynomial number `p` for column `c`
fn small_poly(n: usize, p: usize, c: usize) -> Vec<i64> {
    let mut rng = Rng::new(0xA11CE, (p * 16 + c) as u64);
    (0..n).map(|_| rng.range_i64(-1, 1)).collect()
}

pub fn small_mul(a: &[i64], b: &[i64]) -> Vec<i64> {
    let n = a.len();
    let mut out = vec![0i64; n];
    for i in 0..n {
        for j in 0..n {
            let p = a[i] * b[j];
            let k = i + j;
            if k < n {
                out[k] += p;
            } else {
                out[k - n] -= p;
            }
        }
    }
    out
}

pub(crate) fn embed(s: &[i64], n: usize) -> Vec<i64> {
    let mut v = vec![0i64; n];
    v[..s.len()].copy_from_slice(s);
    v
}

pub(crate) fn want_scalar(p: &[i64], bits: usize, pos_bits: usize) -> Vec<IBig> {
    p.iter().map(|&x| IBig::from(x) << (bits - pos_bits)).collect()
}

pub(crate) fn cell_glwe<D: DataRef>(
    data: &VecZnx<D>,
    b: usize,
    key: &[Vec<i64>],
    want: &[IBig],
    id: (usize, usize, usize),
    seed: Option<[u8; 32]>,
) -> Cell {
    let own = vec_owned(data);
    let bits = own.size() * b;
    let ph = glwe_phase(&own, b, key);
    let err = ph.iter().zip(want).map(|(p, w)| torus::centered_mod_pow2(&(p - w), bits)).collect();
    let mut mask = vec![];
    for c in 1..own.cols() {
        mask.extend(flat_col(&own, c));
    }
    Cell {
        key: id.0,
        row: id.1,
        col: id.2,
        body: flat_col(&own, 0),
        mask,
        err,
        seed,
        mask_cols: own.cols() - 1,
    }
}

pub(crate) fn cells_gglwe<K: GGLWEToRef>(
    k: &K,
    key_id: usize,
    sh: &Shape,
    key: &[Vec<i64>],
    pts: &[Vec<i64>],
    seeds: Option<&Vec<[u8; 32]>>,
) -> Vec<Cell> {
    let g: GGLWE<&[u8]> = k.to_ref();
    let rank_in = pts.len();
    let mut out = vec![];
    for row in 0..sh.dnum {
        for col in 0..rank_in {
            let want = want_scalar(&pts[col], sh.bits(), (row + 1) * sh.dsize * sh.b);
            let seed = seeds.map(|s| s[rank_in * row + col]);
            out.push(cell_glwe(g.at(row, col).data(), sh.b, key, &want, (key_id, row, col), seed));
        }
    }
    out
}

pub(crate) fn body_mask(c: &[Cell]) -> Vec<(Vec<i64>, Vec<i64>)> {
    c.iter().map(|x| (x.body.clone(), x.mask.clone())).collect()
}

pub(crate) fn ser<T: WriterTo>(t: &T) -> Vec<u8> {
    let mut v = vec![];
    t.write_to(&mut v).expect("write_to into a Vec cannot fail");
    v
}

pub(crate) fn rt_object(by: &[u8], again: &[u8], key: &[u8], k2: &[u8]) -> Option<String> {
    if by != again {
        Some("write_to(read_from(bytes)) != bytes for the compressed object".into())
    } else if key != k2 {
        Some("serialisation of decompress(read_from(bytes)) differs from that of decompress(original) (cells or metadata)".into())
    } else {
        None
    }
}

pub(crate) fn de<T: ReaderFrom>(t: &mut T, bytes: &[u8]) -> Result<(), String> {
    let mut r: &[u8] = bytes;
    t.read_from(&mut r).map_err(|e| format!("read_from of the routine's own serialisation failed: {e}"))?;
    if !r.is_empty() {
        return Err(format!("read_from left {} unread bytes", r.len()));
    }
    Ok(())
}

pub(crate) fn gsrc(i: usize) -> Source {
    Source::new(seed_of(9, i as u64 + 1))
}

/// Builds the object of routine `r` on backend B. Err(msg) = the library panicked / refused (msg starts with the stage).
pub fn build<B: Bk>(m: &Module<B>, r: Routine, sh: &Shape, inp: &Inp) -> Result<Obj, String>
where
    Module<B>: HalAll<B> + CoreAll<B>,
    Scratch<B>: ScratchTakeCore<B>,
{
    let _ = take_steps();
    let _ = take_issues();
    let res = build_inner::<B>(m, r, sh, inp);
    let steps = take_steps();
    let issues = take_issues();
    let mut o = res?;
    if !issues.is_empty() {
        return Err(issues.join("; "));
    }
    if extras() {
        o.steps = steps;
        o.steps.push(Step {
            name: "object".into(),
            bytes: o.bytes.clone(),
            portable: true,
        });
        let mut cells: Vec<i64> = vec![];
        for c in &o.cells {
            cells.extend_from_slice(&c.body);
            cells.extend_from_slice(&c.mask);
        }
        o.steps.push(Step {
            name: "cells".into(),
            bytes: i64_bytes(&cells).to_vec(),
            portable: true,
        });
    }
    Ok(o)
}

fn build_inner<B: Bk>(m: &Module<B>, r: Routine, sh: &Shape, inp: &Inp) -> Result<Obj, String>
where
    Module<B>: HalAll<B> + CoreAll<B>,
    Scratch<B>: ScratchTakeCore<B>,
{
    let (n, b, rank) = (sh.n, sh.b, sh.rank);
    let (size, bits) = (sh.size(), sh.bits());
    let noise = sh.noise();
    let dist = Dist::TernaryProb;
    let g = inp.g;
    // extras: prepare the produced key material with the routine's own prepare function and companion query
    macro_rules! prep {
        ($op:expr, $alloc:expr, $tmp:expr, |$p:ident, $sc:ident| $call:expr) => {
            if extras() {
                #[allow(unused_mut)]
                let mut $p = $alloc;
                let by = $tmp;
                with_scratch_op::<B, _>($op, by, g, |$sc| guarded(|| $call)).map_err(|e| format!("{}: {}", $op, e))?;
            }
        };
    }
    macro_rules! lib {
        ($stage:expr, $e:expr) => {
            guarded(|| $e).map_err(|m| format!("{}: {}", $stage, m))?
        };
    }
    let gglwe_layout = |rank_in: usize, rank_out: usize| GGLWELayout {
        n: deg(n),
        base2k: b2k(b),
        k: tp(bits),
        rank_in: rk(rank_in),
        rank_out: rk(rank_out),
        dnum: Dnum(sh.dnum as u32),
        dsize: Dsize(sh.dsize as u32),
    };
    match r {
        Routine::Brk | Routine::BrkCompressed | Routine::Cbt => crate::binfhe::build_binfhe::<B>(m, r, sh, inp),
        // -------------------------------------------------------------------------------------
        Routine::GlweSk | Routine::GlweZeroSk | Routine::GlweCompressed | Routine::GlwePkGen | Routine::GlwePk => {
            let enc = EncryptionLayout::new(
                GLWELayout {
                    n: deg(n),
                    base2k: b2k(b),
                    k: tp(bits),
                    rank: rk(rank),
                },
                noise,
            )
            .map_err(|e| format!("layout: {e}"))?;
            let sk = make_sk::<B>(m, n, rank, dist, seed_s(inp.s));
            let _guard_sk = SkGuard::new("glwe secret sk", m, &sk);
            // odd plaintext variants are one limb shorter than the ciphertext (the limbs the plaintext does not
            // cover must come out as if it were zero-extended, whatever the scratch held before)
            let pt_size = if inp.p % 2 == 1 && size >= 2 { size - 1 } else { size };
            let mut pt = GLWEPlaintext::alloc(deg(n), b2k(b), tp(pt_size * b));
            fill_message(pt.data_mut(), b, 5 + inp.p, &mut Rng::new(7, inp.p as u64));
            let _guard_pt = RawGuard::new("plaintext", pt.data().raw());
            let zero: Vec<IBig> = vec![IBig::from(0); n];
            let want_pt: Vec<IBig> = (0..n).map(|i| coeff_value(pt.data(), 0, i, b) << ((size - pt_size) * b)).collect();
            let mut xe = Source::new(seed_e(inp.e));
            let mut xa = Source::new(seed_a(inp.a));
            let mut ct = GLWE::alloc(deg(n), b2k(b), tp(bits), rk(rank));
            ct.fill_uniform(64, &mut gsrc(g));
            let mut seed = None;
            let mut bytes_override = None;
            let mut roundtrip = None;
            let mut roundtrip_object = None;
            let want = match r {
                Routine::GlweSk => {
                    let by = m.glwe_encrypt_sk_tmp_bytes(&enc);
                    with_scratch::<B, _>(by, g, |sc| guarded(|| m.glwe_encrypt_sk(&mut ct, &pt, &sk.prep, &enc, &mut xe, &mut xa, sc)))
                        .map_err(|e| format!("encrypt: {e}"))?;
                    want_pt
                }
                Routine::GlweZeroSk => {
                    let by = m.glwe_encrypt_sk_tmp_bytes(&enc);
                    with_scratch::<B, _>(by, g, |sc| guarded(|| m.glwe_encrypt_zero_sk(&mut ct, &sk.prep, &enc, &mut xe, &mut xa, sc)))
                        .map_err(|e| format!("encrypt: {e}"))?;
                    zero
                }
                Routine::GlweCompressed => {
                    let mut cc = GLWECompressed::alloc_from_infos(&enc);
                    cc.fill_uniform(64, &mut gsrc(g + 2));
                    let by = m.glwe_compressed_encrypt_sk_tmp_bytes(&enc);
                    with_scratch::<B, _>(by, g, |sc| {
                        guarded(|| m.glwe_compressed_encrypt_sk(&mut cc, &pt, &sk.prep, seed_a(inp.a), &enc, &mut xe, sc))
                    })
                    .map_err(|e| format!("encrypt: {e}"))?;
                    let d0 = operand_digest(&cc);
                    lib!("decompress", m.decompress_glwe(&mut ct, &cc));
                    operand_verify("compressed object (decompress)", d0, &cc);
                    seed = Some(*cc.seed());
                    let by = ser(&cc);
                    // round trip
                    let mut c2 = GLWECompressed::alloc_from_infos(&enc);
                    c2.fill_uniform(64, &mut gsrc(g + 4));
                    de(&mut c2, &by)?;
                    let mut ct2 = GLWE::alloc(deg(n), b2k(b), tp(bits), rk(rank));
                    ct2.fill_uniform(64, &mut gsrc(g + 5));
                    let d0 = operand_digest(&c2);
                    lib!("decompress(roundtrip)", m.decompress_glwe(&mut ct2, &c2));
                    operand_verify("compressed object (decompress(roundtrip))", d0, &c2);
                    let c = cell_glwe(ct2.data(), b, &sk.clear, &want_pt, (0, 0, 0), None);
                    roundtrip = Some(vec![(c.body, c.mask)]);
                    roundtrip_object = rt_object(&by, &ser(&c2), &ser(&ct), &ser(&ct2));
                    bytes_override = Some(by);
                    want_pt
                }
                Routine::GlwePkGen | Routine::GlwePk => {
                    let mut pk = GLWEPublicKey::alloc_from_infos(&enc);
                    {
                        use poulpy_core::layouts::GLWEToMut;
                        pk.to_mut().fill_uniform(64, &mut gsrc(g + 2));
                    }
                    if r == Routine::GlwePk {
                        // the public key is an *input* of public-key encryption: it is generated from fixed streams, so that
                        // the seeds (a, e) of the case select the encryption's own randomness (u, errors) only
                        let mut xe_pk = Source::new(seed_e(100));
                        let mut xa_pk = Source::new(seed_a(100));
                        lib!("pk_generate", m.glwe_public_key_generate(&mut pk, &sk.prep, &enc, &mut xe_pk, &mut xa_pk));
                    } else {
                        lib!("pk_generate", m.glwe_public_key_generate(&mut pk, &sk.prep, &enc, &mut xe, &mut xa));
                    }
                    record_step("public_key", &ser(&pk), true);
                    if r == Routine::GlwePkGen {
                        if extras() {
                            let mut po = GLWEPlaintext::alloc(deg(n), b2k(b), tp(bits));
                            po.data_mut().fill_uniform(64, &mut gsrc(g + 7));
                            let by = m.glwe_decrypt_tmp_bytes(&enc);
                            with_scratch_op::<B, _>("glwe_decrypt", by, g, |sc| guarded(|| m.glwe_decrypt(&pk, &mut po, &sk.prep, sc)))
                                .map_err(|e| format!("glwe_decrypt: {e}"))?;
                            record_step("decrypted", i64_bytes(po.data().raw()), true);
                        }
                        let d = vec_owned(pk.to_ref().data());
                        let c = cell_glwe(&d, b, &sk.clear, &zero, (0, 0, 0), None);
                        return Ok(Obj {
                            cells: vec![c],
                            bytes: ser(&pk),
                            roundtrip: None,
                            bits,
                            key_l1: sk.l1,
                            ..Default::default()
                        });
                    }
                    let mut pp = m.glwe_public_key_prepared_alloc_from_infos(&enc);
                    lib!("pk_prepare", m.glwe_public_key_prepare(&mut pp, &pk));
                    // encryption randomness: fresh streams (u from the mask seed stream number a+8, errors from e+8)
                    let mut xu = Source::new(seed_a(inp.a + 8));
                    let mut xe2 = Source::new(seed_e(inp.e + 8));
                    let by = m.glwe_encrypt_pk_tmp_bytes(&enc);
                    with_scratch::<B, _>(by, g, |sc| guarded(|| m.glwe_encrypt_pk(&mut ct, &pt, &pp, &enc, &mut xu, &mut xe2, sc)))
                        .map_err(|e| format!("encrypt: {e}"))?;
                    want_pt
                }
                _ => unreachable!(),
            };
            if extras() {
                let mut po = GLWEPlaintext::alloc(deg(n), b2k(b), tp(bits));
                po.data_mut().fill_uniform(64, &mut gsrc(g + 7));
                let by = m.glwe_decrypt_tmp_bytes(&enc);
                with_scratch_op::<B, _>("glwe_decrypt", by, g, |sc| guarded(|| m.glwe_decrypt(&ct, &mut po, &sk.prep, sc)))
                    .map_err(|e| format!("glwe_decrypt: {e}"))?;
                record_step("decrypted", i64_bytes(po.data().raw()), true);
            }
            let c = cell_glwe(ct.data(), b, &sk.clear, &want, (0, 0, 0), seed);
            Ok(Obj {
                cells: vec![c],
                bytes: bytes_override.unwrap_or_else(|| ser(&ct)),
                roundtrip,
                roundtrip_object,
                bits,
                key_l1: sk.l1,
                ..Default::default()
            })
        }
        // -------------------------------------------------------------------------------------
        Routine::LweSk => {
            let enc = EncryptionLayout::new(
                LWELayout {
                    n: deg(n),
                    k: tp(bits),
                    base2k: b2k(b),
                },
                noise,
            )
            .map_err(|e| format!("layout: {e}"))?;
            let (sk, clear) = make_lwe_sk(n, dist, seed_s(inp.s));
            let _guard_sk = RawGuard::new("lwe secret sk", sk.raw());
            let pt_size = if inp.p % 2 == 1 && size >= 2 { size - 1 } else { size }; // see the GLWE forms
            let mut pt = LWEPlaintext::alloc(b2k(b), tp(pt_size * b));
            fill_message(pt.data_mut(), b, 5 + inp.p, &mut Rng::new(7, inp.p as u64));
            let _guard_pt = RawGuard::new("plaintext", pt.data().raw());
            let mut ct = LWE::alloc(deg(n), b2k(b), tp(bits));
            ct.fill_uniform(64, &mut gsrc(g));
            let mut xe = Source::new(seed_e(inp.e));
            let mut xa = Source::new(seed_a(inp.a));
            let by = m.lwe_encrypt_sk_tmp_bytes(&enc);
            with_scratch::<B, _>(by, g, |sc| guarded(|| m.lwe_encrypt_sk(&mut ct, &pt, &sk, &enc, &mut xe, &mut xa, sc)))
                .map_err(|e| format!("encrypt: {e}"))?;
            if extras() {
                let mut po = LWEPlaintext::alloc(b2k(b), tp(bits));
                po.data_mut().fill_uniform(64, &mut gsrc(g + 7));
                let by = m.lwe_decrypt_tmp_bytes(&enc);
                with_scratch_op::<B, _>("lwe_decrypt", by, g, |sc| guarded(|| m.lwe_decrypt(&ct, &mut po, &sk, sc)))
                    .map_err(|e| format!("lwe_decrypt: {e}"))?;
                record_step("decrypted", i64_bytes(po.data().raw()), true);
            }
            let d = vec_owned(ct.data());
            let ph = lwe_phase(&d, b, &clear);
            let want = coeff_value(pt.data(), 0, 0, b) << ((size - pt_size) * b);
            let err = torus::centered_mod_pow2(&(ph - want), bits);
            let mut body = vec![];
            let mut mask = vec![];
            for j in 0..size {
                body.push(d.at(0, j)[0]);
                mask.extend_from_slice(&d.at(0, j)[1..]);
            }
            Ok(Obj {
                cells: vec![Cell {
                    key: 0,
                    row: 0,
                    col: 0,
                    body,
                    mask,
                    err: vec![err],
                    seed: None,
                    mask_cols: 1,
                }],
                bytes: ser(&ct),
                roundtrip: None,
                bits,
                key_l1: clear.iter().map(|x| x.unsigned_abs() as i128).sum(),
                ..Default::default()
            })
        }
        // -------------------------------------------------------------------------------------
        Routine::Gglwe | Routine::GglweCompressed => {
            let enc = EncryptionLayout::new(gglwe_layout(sh.rank_in, rank), noise).map_err(|e| format!("layout: {e}"))?;
            let sk = make_sk::<B>(m, n, rank, dist, seed_s(inp.s));
            let _guard_sk = SkGuard::new("glwe secret sk", m, &sk);
            let pts: Vec<Vec<i64>> = (0..sh.rank_in).map(|c| small_poly(n, inp.p, c)).collect();
            let mut pt = ScalarZnx::alloc(n, sh.rank_in);
            for (c, p) in pts.iter().enumerate() {
                pt.at_mut(c, 0).copy_from_slice(p);
            }
            let _guard_pt = RawGuard::new("plaintext", pt.raw());
            let mut xe = Source::new(seed_e(inp.e));
            let mut xa = Source::new(seed_a(inp.a));
            let mut key = GGLWE::alloc_from_infos(&enc);
            key.fill_uniform(64, &mut gsrc(g));
            if r == Routine::Gglwe {
                let by = m.gglwe_encrypt_sk_tmp_bytes(&enc);
                with_scratch::<B, _>(by, g, |sc| guarded(|| m.gglwe_encrypt_sk(&mut key, &pt, &sk.prep, &enc, &mut xe, &mut xa, sc)))
                    .map_err(|e| format!("encrypt: {e}"))?;
                prep!("gglwe_prepare", m.gglwe_prepared_alloc_from_infos(&enc), m.gglwe_prepare_tmp_bytes(&enc), |p, sc| m.gglwe_prepare(&mut p, &key, sc));
                Ok(Obj {
                    cells: cells_gglwe(&key, 0, sh, &sk.clear, &pts, None),
                    bytes: ser(&key),
                    roundtrip: None,
                    bits,
                    key_l1: sk.l1,
                    ..Default::default()
                })
            } else {
                let mut cc = GGLWECompressed::alloc_from_infos(&enc);
                cc.fill_uniform(64, &mut gsrc(g + 2));
                let by = m.gglwe_compressed_encrypt_sk_tmp_bytes(&enc);
                with_scratch::<B, _>(by, g, |sc| {
                    guarded(|| m.gglwe_compressed_encrypt_sk(&mut cc, &pt, &sk.prep, seed_a(inp.a), &enc, &mut xe, sc))
                })
                .map_err(|e| format!("encrypt: {e}"))?;
                let d0 = operand_digest(&cc);
                lib!("decompress", m.decompress_gglwe(&mut key, &cc));
                operand_verify("compressed object (decompress)", d0, &cc);
                prep!("gglwe_prepare", m.gglwe_prepared_alloc_from_infos(&enc), m.gglwe_prepare_tmp_bytes(&enc), |p, sc| m.gglwe_prepare(&mut p, &key, sc));
                let seeds = cc.seed().clone();
                let by = ser(&cc);
                let mut c2 = GGLWECompressed::alloc_from_infos(&enc);
                c2.fill_uniform(64, &mut gsrc(g + 4));
                de(&mut c2, &by)?;
                let mut k2 = GGLWE::alloc_from_infos(&enc);
                k2.fill_uniform(64, &mut gsrc(g + 5));
                let d0 = operand_digest(&c2);
                lib!("decompress(roundtrip)", m.decompress_gglwe(&mut k2, &c2));
                operand_verify("compressed object (decompress(roundtrip))", d0, &c2);
                let rt_obj = rt_object(&by, &ser(&c2), &ser(&key), &ser(&k2));
                Ok(Obj {
                    cells: cells_gglwe(&key, 0, sh, &sk.clear, &pts, Some(&seeds)),
                    bytes: by,
                    roundtrip_object: rt_obj,
                    roundtrip: Some(body_mask(&cells_gglwe(&k2, 0, sh, &sk.clear, &pts, None))),
                    bits,
                    key_l1: sk.l1,
                    ..Default::default()
                })
            }
        }
        // -------------------------------------------------------------------------------------
        Routine::Ggsw | Routine::GgswCompressed => {
            let enc = EncryptionLayout::new(
                GGSWLayout {
                    n: deg(n),
                    base2k: b2k(b),
                    k: tp(bits),
                    rank: rk(rank),
                    dnum: Dnum(sh.dnum as u32),
                    dsize: Dsize(sh.dsize as u32),
                },
                noise,
            )
            .map_err(|e| format!("layout: {e}"))?;
            let sk = make_sk::<B>(m, n, rank, dist, seed_s(inp.s));
            let _guard_sk = SkGuard::new("glwe secret sk", m, &sk);
            let p = small_poly(n, inp.p, 0);
            let mut pt = ScalarZnx::alloc(n, 1);
            pt.at_mut(0, 0).copy_from_slice(&p);
            let _guard_pt = RawGuard::new("plaintext", pt.raw());
            let mut xe = Source::new(seed_e(inp.e));
            let mut xa = Source::new(seed_a(inp.a));
            let mut ct = GGSW::alloc_from_infos(&enc);
            ct.fill_uniform(64, &mut gsrc(g));
            let cells_of = |ct: &GGSW<Vec<u8>>, seeds: Option<&Vec<[u8; 32]>>| -> Vec<Cell> {
                let mut out = vec![];
                for row in 0..sh.dnum {
                    for col in 0..=rank {
                        let pc = if col == 0 { p.clone() } else { small_mul(&p, &sk.clear[col - 1]) };
                        let want = want_scalar(&pc, bits, (row + 1) * sh.dsize * b);
                        let seed = seeds.map(|s| s[row * (rank + 1) + col]);
                        out.push(cell_glwe(ct.at(row, col).data(), b, &sk.clear, &want, (0, row, col), seed));
                    }
                }
                out
            };
            if r == Routine::Ggsw {
                let by = m.ggsw_encrypt_sk_tmp_bytes(&enc);
                with_scratch::<B, _>(by, g, |sc| guarded(|| m.ggsw_encrypt_sk(&mut ct, &pt, &sk.prep, &enc, &mut xe, &mut xa, sc)))
                    .map_err(|e| format!("encrypt: {e}"))?;
                if extras() {
                    let mut p = m.ggsw_prepared_alloc_from_infos(&enc);
                    let by = m.ggsw_prepare_tmp_bytes(&enc);
                    with_scratch_op::<B, _>("ggsw_prepare", by, g, |sc| guarded(|| m.ggsw_prepare(&mut p, &ct, sc))).map_err(|e| format!("ggsw_prepare: {e}"))?;
                    record_step("prepared(ggsw)", poulpy_hal::layouts::DataView::data(p.data()).as_ref(), false);
                }
                Ok(Obj {
                    cells: cells_of(&ct, None),
                    bytes: ser(&ct),
                    roundtrip: None,
                    bits,
                    key_l1: sk.l1,
                    ..Default::default()
                })
            } else {
                let mut cc = GGSWCompressed::alloc_from_infos(&enc);
                cc.fill_uniform(64, &mut gsrc(g + 2));
                let by = m.ggsw_compressed_encrypt_sk_tmp_bytes(&enc);
                with_scratch::<B, _>(by, g, |sc| {
                    guarded(|| m.ggsw_compressed_encrypt_sk(&mut cc, &pt, &sk.prep, seed_a(inp.a), &enc, &mut xe, sc))
                })
                .map_err(|e| format!("encrypt: {e}"))?;
                let d0 = operand_digest(&cc);
                lib!("decompress", m.decompress_ggsw(&mut ct, &cc));
                operand_verify("compressed object (decompress)", d0, &cc);
                if extras() {
                    let mut p = m.ggsw_prepared_alloc_from_infos(&enc);
                    let by = m.ggsw_prepare_tmp_bytes(&enc);
                    with_scratch_op::<B, _>("ggsw_prepare", by, g, |sc| guarded(|| m.ggsw_prepare(&mut p, &ct, sc))).map_err(|e| format!("ggsw_prepare: {e}"))?;
                    record_step("prepared(ggsw)", poulpy_hal::layouts::DataView::data(p.data()).as_ref(), false);
                }
                let seeds = cc.seed().clone();
                let by = ser(&cc);
                let mut c2 = GGSWCompressed::alloc_from_infos(&enc);
                c2.fill_uniform(64, &mut gsrc(g + 4));
                de(&mut c2, &by)?;
                let mut k2 = GGSW::alloc_from_infos(&enc);
                k2.fill_uniform(64, &mut gsrc(g + 5));
                let d0 = operand_digest(&c2);
                lib!("decompress(roundtrip)", m.decompress_ggsw(&mut k2, &c2));
                operand_verify("compressed object (decompress(roundtrip))", d0, &c2);
                let rt_obj = rt_object(&by, &ser(&c2), &ser(&ct), &ser(&k2));
                Ok(Obj {
                    cells: cells_of(&ct, Some(&seeds)),
                    bytes: by,
                    roundtrip_object: rt_obj,
                    roundtrip: Some(body_mask(&cells_of(&k2, None))),
                    bits,
                    key_l1: sk.l1,
                    ..Default::default()
                })
            }
        }
        // -------------------------------------------------------------------------------------
        Routine::Ksk | Routine::KskCompressed => {
            let lay = GLWESwitchingKeyLayout {
                n: deg(n),
                base2k: b2k(b),
                k: tp(bits),
                rank_in: rk(sh.rank_in),
                rank_out: rk(rank),
                dnum: Dnum(sh.dnum as u32),
                dsize: Dsize(sh.dsize as u32),
            };
            let enc = EncryptionLayout::new(lay, noise).map_err(|e| format!("layout: {e}"))?;
            let sk_out = make_sk::<B>(m, n, rank, dist, seed_s(inp.s));
            let _guard_sk_out = SkGuard::new("glwe secret sk_out", m, &sk_out);
            // odd variants: input secret of half the ring degree (the library embeds it by ring switching: coefficient i
            // goes to position 2i), so that the key's input and output degrees differ
            let n_in = if inp.p % 2 == 1 && n >= 2 { n / 2 } else { n };
            let sk_in = if n_in == n {
                make_sk::<B>(m, n, sh.rank_in, dist, seed_p(inp.p))
            } else {
                let mut small = poulpy_core::layouts::GLWESecret::alloc(deg(n_in), rk(sh.rank_in));
                fill_glwe_secret(&mut small, n_in, dist, &mut Source::new(seed_p(inp.p)));
                let clear: Vec<Vec<i64>> = clear_secret(n_in, sh.rank_in, dist, seed_p(inp.p))
                    .iter()
                    .map(|c| {
                        let mut v = vec![0i64; n];
                        for (i, &x) in c.iter().enumerate() {
                            v[i * (n / n_in)] = x;
                        }
                        v
                    })
                    .collect();
                let mut full = make_sk::<B>(m, n, sh.rank_in, dist, seed_p(inp.p)); // prepared part unused by the key routines
                full.sk = small;
                full.clear = clear;
                full
            };
            let pts = sk_in.clear.clone();
            let mut xe = Source::new(seed_e(inp.e));
            let mut xa = Source::new(seed_a(inp.a));
            let mut key = GLWESwitchingKey::alloc_from_infos(&enc);
            key.fill_uniform(64, &mut gsrc(g));
            if r == Routine::Ksk {
                let by = m.glwe_switching_key_encrypt_sk_tmp_bytes(&enc);
                with_scratch::<B, _>(by, g, |sc| {
                    guarded(|| m.glwe_switching_key_encrypt_sk(&mut key, &sk_in.sk, &sk_out.sk, &enc, &mut xe, &mut xa, sc))
                })
                .map_err(|e| format!("encrypt: {e}"))?;
                prep!("glwe_switching_key_prepare", m.glwe_switching_key_prepared_alloc_from_infos(&enc), m.glwe_switching_key_prepare_tmp_bytes(&enc), |p, sc| m.glwe_switching_key_prepare(&mut p, &key, sc));
                Ok(Obj {
                    cells: cells_gglwe(&key, 0, sh, &sk_out.clear, &pts, None),
                    bytes: ser(&key),
                    roundtrip: None,
                    bits,
                    key_l1: sk_out.l1,
                    ..Default::default()
                })
            } else {
                let mut cc = GLWESwitchingKeyCompressed::alloc_from_infos(&enc);
                cc.fill_uniform(64, &mut gsrc(g + 2));
                let by = m.glwe_switching_key_compressed_encrypt_sk_tmp_bytes(&enc);
                with_scratch::<B, _>(by, g, |sc| {
                    guarded(|| {
                        m.glwe_switching_key_compressed_encrypt_sk(&mut cc, &sk_in.sk, &sk_out.sk, seed_a(inp.a), &enc, &mut xe, sc)
                    })
                })
                .map_err(|e| format!("encrypt: {e}"))?;
                let d0 = operand_digest(&cc);
                lib!("decompress", m.decompress_glwe_switching_key(&mut key, &cc));
                operand_verify("compressed object (decompress)", d0, &cc);
                prep!("glwe_switching_key_prepare", m.glwe_switching_key_prepared_alloc_from_infos(&enc), m.glwe_switching_key_prepare_tmp_bytes(&enc), |p, sc| m.glwe_switching_key_prepare(&mut p, &key, sc));
                let seeds = cc.to_ref().seed().clone();
                let by = ser(&cc);
                let mut c2 = GLWESwitchingKeyCompressed::alloc_from_infos(&enc);
                c2.fill_uniform(64, &mut gsrc(g + 4));
                de(&mut c2, &by)?;
                let mut k2 = GLWESwitchingKey::alloc_from_infos(&enc);
                k2.fill_uniform(64, &mut gsrc(g + 5));
                let d0 = operand_digest(&c2);
                lib!("decompress(roundtrip)", m.decompress_glwe_switching_key(&mut k2, &c2));
                operand_verify("compressed object (decompress(roundtrip))", d0, &c2);
                let rt_obj = rt_object(&by, &ser(&c2), &ser(&key), &ser(&k2));
                Ok(Obj {
                    cells: cells_gglwe(&key, 0, sh, &sk_out.clear, &pts, Some(&seeds)),
                    bytes: by,
                    roundtrip_object: rt_obj,
                    roundtrip: Some(body_mask(&cells_gglwe(&k2, 0, sh, &sk_out.clear, &pts, None))),
                    bits,
                    key_l1: sk_out.l1,
                    ..Default::default()
                })
            }
        }
        // -------------------------------------------------------------------------------------
        Routine::Atk | Routine::AtkCompressed => {
            let lay = GLWEAutomorphismKeyLayout {
                n: deg(n),
                base2k: b2k(b),
                k: tp(bits),
                rank: rk(rank),
                dnum: Dnum(sh.dnum as u32),
                dsize: Dsize(sh.dsize as u32),
            };
            let enc = EncryptionLayout::new(lay, noise).map_err(|e| format!("layout: {e}"))?;
            let sk = make_sk::<B>(m, n, rank, dist, seed_s(inp.s));
            let _guard_sk = SkGuard::new("glwe secret sk", m, &sk);
            let gal: i64 = [5i64, -3][inp.p % 2];
            let gal_inv = ring::inv_mod_2n(gal, n);
            let key_clear: Vec<Vec<i64>> = sk.clear.iter().map(|s| ring::automorphism(s, gal_inv)).collect();
            let pts = sk.clear.clone();
            let mut xe = Source::new(seed_e(inp.e));
            let mut xa = Source::new(seed_a(inp.a));
            let mut key = GLWEAutomorphismKey::alloc_from_infos(&enc);
            key.fill_uniform(64, &mut gsrc(g));
            let l1 = sk.l1;
            if r == Routine::Atk {
                let by = m.glwe_automorphism_key_encrypt_sk_tmp_bytes(&enc);
                with_scratch::<B, _>(by, g, |sc| {
                    guarded(|| m.glwe_automorphism_key_encrypt_sk(&mut key, gal, &sk.sk, &enc, &mut xe, &mut xa, sc))
                })
                .map_err(|e| format!("encrypt: {e}"))?;
                prep!("glwe_automorphism_key_prepare", m.glwe_automorphism_key_prepared_alloc_from_infos(&enc), m.glwe_automorphism_key_prepare_tmp_bytes(&enc), |p, sc| m.glwe_automorphism_key_prepare(&mut p, &key, sc));
                Ok(Obj {
                    cells: cells_gglwe(&key, 0, sh, &key_clear, &pts, None),
                    bytes: ser(&key),
                    roundtrip: None,
                    bits,
                    key_l1: l1,
                    ..Default::default()
                })
            } else {
                let mut cc = GLWEAutomorphismKeyCompressed::alloc_from_infos(&enc);
                cc.fill_uniform(64, &mut gsrc(g + 2));
                let by = m.glwe_automorphism_key_compressed_encrypt_sk_tmp_bytes(&enc);
                with_scratch::<B, _>(by, g, |sc| {
                    guarded(|| m.glwe_automorphism_key_compressed_encrypt_sk(&mut cc, gal, &sk.sk, seed_a(inp.a), &enc, &mut xe, sc))
                })
                .map_err(|e| format!("encrypt: {e}"))?;
                let d0 = operand_digest(&cc);
                lib!("decompress", m.decompress_automorphism_key(&mut key, &cc));
                operand_verify("compressed object (decompress)", d0, &cc);
                prep!("glwe_automorphism_key_prepare", m.glwe_automorphism_key_prepared_alloc_from_infos(&enc), m.glwe_automorphism_key_prepare_tmp_bytes(&enc), |p, sc| m.glwe_automorphism_key_prepare(&mut p, &key, sc));
                let seeds = cc.to_ref().seed().clone();
                let by = ser(&cc);
                let mut c2 = GLWEAutomorphismKeyCompressed::alloc_from_infos(&enc);
                c2.fill_uniform(64, &mut gsrc(g + 4));
                de(&mut c2, &by)?;
                let mut k2 = GLWEAutomorphismKey::alloc_from_infos(&enc);
                k2.fill_uniform(64, &mut gsrc(g + 5));
                let d0 = operand_digest(&c2);
                lib!("decompress(roundtrip)", m.decompress_automorphism_key(&mut k2, &c2));
                operand_verify("compressed object (decompress(roundtrip))", d0, &c2);
                let rt_obj = rt_object(&by, &ser(&c2), &ser(&key), &ser(&k2));
                Ok(Obj {
                    cells: cells_gglwe(&key, 0, sh, &key_clear, &pts, Some(&seeds)),
                    bytes: by,
                    roundtrip_object: rt_obj,
                    roundtrip: Some(body_mask(&cells_gglwe(&k2, 0, sh, &key_clear, &pts, None))),
                    bits,
                    key_l1: l1,
                    ..Default::default()
                })
            }
        }
        // -------------------------------------------------------------------------------------
        Routine::Tsk | Routine::TskCompressed => {
            let lay = GLWETensorKeyLayout {
                n: deg(n),
                base2k: b2k(b),
                k: tp(bits),
                rank: rk(rank),
                dnum: Dnum(sh.dnum as u32),
                dsize: Dsize(sh.dsize as u32),
            };
            let enc = EncryptionLayout::new(lay, noise).map_err(|e| format!("layout: {e}"))?;
            let sk = make_sk::<B>(m, n, rank, dist, seed_s(inp.s));
            let _guard_sk = SkGuard::new("glwe secret sk", m, &sk);
            let mut pts = vec![];
            for i in 0..rank {
                for j in i..rank {
                    pts.push(small_mul(&sk.clear[i], &sk.clear[j]));
                }
            }
            let mut xe = Source::new(seed_e(inp.e));
            let mut xa = Source::new(seed_a(inp.a));
            let mut key = GLWETensorKey::alloc_from_infos(&enc);
            key.fill_uniform(64, &mut gsrc(g));
            if r == Routine::Tsk {
                let by = m.glwe_tensor_key_encrypt_sk_tmp_bytes(&enc);
                with_scratch::<B, _>(by, g, |sc| guarded(|| m.glwe_tensor_key_encrypt_sk(&mut key, &sk.sk, &enc, &mut xe, &mut xa, sc)))
                    .map_err(|e| format!("encrypt: {e}"))?;
                prep!("prepare_tensor_key", m.alloc_tensor_key_prepared_from_infos(&enc), m.prepare_tensor_key_tmp_bytes(&enc), |p, sc| m.prepare_tensor_key(&mut p, &key, sc));
                if extras() {
                    let mut t = GLWESecretTensor::alloc(deg(n), rk(rank));
                    let by = m.glwe_secret_tensor_prepare_tmp_bytes(rk(rank));
                    with_scratch_op::<B, _>("glwe_secret_tensor_prepare", by, g, |sc| guarded(|| m.glwe_secret_tensor_prepare(&mut t, &sk.sk, sc)))
                        .map_err(|e| format!("glwe_secret_tensor_prepare: {e}"))?;
                    let mut flat: Vec<i64> = vec![];
                    for i in 0..rank {
                        for j in i..rank {
                            flat.extend_from_slice(t.at(i, j).raw());
                        }
                    }
                    record_step("secret_tensor", i64_bytes(&flat), true);
                }
                Ok(Obj {
                    cells: cells_gglwe(&key, 0, sh, &sk.clear, &pts, None),
                    bytes: ser(&key),
                    roundtrip: None,
                    bits,
                    key_l1: sk.l1,
                    ..Default::default()
                })
            } else {
                let mut cc = GLWETensorKeyCompressed::alloc_from_infos(&enc);
                cc.fill_uniform(64, &mut gsrc(g + 2));
                let by = m.glwe_tensor_key_compressed_encrypt_sk_tmp_bytes(&enc);
                with_scratch::<B, _>(by, g, |sc| {
                    guarded(|| m.glwe_tensor_key_compressed_encrypt_sk(&mut cc, &sk.sk, seed_a(inp.a), &enc, &mut xe, sc))
                })
                .map_err(|e| format!("encrypt: {e}"))?;
                let d0 = operand_digest(&cc);
                lib!("decompress", m.decompress_tensor_key(&mut key, &cc));
                operand_verify("compressed object (decompress)", d0, &cc);
                prep!("prepare_tensor_key", m.alloc_tensor_key_prepared_from_infos(&enc), m.prepare_tensor_key_tmp_bytes(&enc), |p, sc| m.prepare_tensor_key(&mut p, &key, sc));
                let seeds = cc.to_ref().seed().clone();
                let by = ser(&cc);
                let mut c2 = GLWETensorKeyCompressed::alloc_from_infos(&enc);
                c2.fill_uniform(64, &mut gsrc(g + 4));
                de(&mut c2, &by)?;
                let mut k2 = GLWETensorKey::alloc_from_infos(&enc);
                k2.fill_uniform(64, &mut gsrc(g + 5));
                let d0 = operand_digest(&c2);
                lib!("decompress(roundtrip)", m.decompress_tensor_key(&mut k2, &c2));
                operand_verify("compressed object (decompress(roundtrip))", d0, &c2);
                let rt_obj = rt_object(&by, &ser(&c2), &ser(&key), &ser(&k2));
                Ok(Obj {
                    cells: cells_gglwe(&key, 0, sh, &sk.clear, &pts, Some(&seeds)),
                    bytes: by,
                    roundtrip_object: rt_obj,
                    roundtrip: Some(body_mask(&cells_gglwe(&k2, 0, sh, &sk.clear, &pts, None))),
                    bits,
                    key_l1: sk.l1,
                    ..Default::default()
                })
            }
        }
        // -------------------------------------------------------------------------------------
        Routine::G2g | Routine::G2gCompressed => {
            let lay = GGLWEToGGSWKeyLayout {
                n: deg(n),
                base2k: b2k(b),
                k: tp(bits),
                rank: rk(rank),
                dnum: Dnum(sh.dnum as u32),
                dsize: Dsize(sh.dsize as u32),
            };
            let enc = EncryptionLayout::new(lay, noise).map_err(|e| format!("layout: {e}"))?;
            let sk = make_sk::<B>(m, n, rank, dist, seed_s(inp.s));
            let _guard_sk = SkGuard::new("glwe secret sk", m, &sk);
            let pts_of = |i: usize| -> Vec<Vec<i64>> { (0..rank).map(|j| small_mul(&sk.clear[i], &sk.clear[j])).collect() };
            let mut xe = Source::new(seed_e(inp.e));
            let mut xa = Source::new(seed_a(inp.a));
            let mut key = GGLWEToGGSWKey::alloc_from_infos(&enc);
            key.fill_uniform(64, &mut gsrc(g));
            let cells_of = |key: &GGLWEToGGSWKey<Vec<u8>>, seeds: Option<&Vec<Vec<[u8; 32]>>>| -> Vec<Cell> {
                let mut out = vec![];
                for i in 0..rank {
                    out.extend(cells_gglwe(key.at(i), i, sh, &sk.clear, &pts_of(i), seeds.map(|s| &s[i])));
                }
                out
            };
            if r == Routine::G2g {
                let by = <Module<B> as GGLWEToGGSWKeyEncryptSk<B>>::gglwe_to_ggsw_key_encrypt_sk_tmp_bytes(m, &enc);
                with_scratch::<B, _>(by, g, |sc| {
                    guarded(|| {
                        <Module<B> as GGLWEToGGSWKeyEncryptSk<B>>::gglwe_to_ggsw_key_encrypt_sk(
                            m, &mut key, &sk.sk, &enc, &mut xe, &mut xa, sc,
                        )
                    })
                })
                .map_err(|e| format!("encrypt: {e}"))?;
                prep!("gglwe_to_ggsw_key_prepare", m.gglwe_to_ggsw_key_prepared_alloc_from_infos(&enc), m.gglwe_to_ggsw_key_prepare_tmp_bytes(&enc), |p, sc| m.gglwe_to_ggsw_key_prepare(&mut p, &key, sc));
                Ok(Obj {
                    cells: cells_of(&key, None),
                    bytes: ser(&key),
                    roundtrip: None,
                    bits,
                    key_l1: sk.l1,
                    ..Default::default()
                })
            } else {
                let mut cc = GGLWEToGGSWKeyCompressed::alloc_from_infos(&enc);
                cc.fill_uniform(64, &mut gsrc(g + 2));
                let by = <Module<B> as GGLWEToGGSWKeyCompressedEncryptSk<B>>::gglwe_to_ggsw_key_encrypt_sk_tmp_bytes(m, &enc);
                with_scratch::<B, _>(by, g, |sc| {
                    guarded(|| {
                        <Module<B> as GGLWEToGGSWKeyCompressedEncryptSk<B>>::gglwe_to_ggsw_key_encrypt_sk(
                            m,
                            &mut cc,
                            &sk.sk,
                            seed_a(inp.a),
                            &enc,
                            &mut xe,
                            sc,
                        )
                    })
                })
                .map_err(|e| format!("encrypt: {e}"))?;
                // GGLWEToGGSWKeyDecompress has no implementor in the library (the trait exists, `impl .. for Module` is missing),
                // so the key is expanded the way that trait's default method would: one decompress_gglwe per entry
                for i in 0..rank {
                    let d0 = operand_digest(cc.at(i));
                    lib!("decompress", m.decompress_gglwe(key.at_mut(i), cc.at(i)));
                    operand_verify("compressed object (decompress)", d0, cc.at(i));
                }
                prep!("gglwe_to_ggsw_key_prepare", m.gglwe_to_ggsw_key_prepared_alloc_from_infos(&enc), m.gglwe_to_ggsw_key_prepare_tmp_bytes(&enc), |p, sc| m.gglwe_to_ggsw_key_prepare(&mut p, &key, sc));
                let seeds: Vec<Vec<[u8; 32]>> = (0..rank).map(|i| cc.at(i).seed().clone()).collect();
                let by = ser(&cc);
                let mut c2 = GGLWEToGGSWKeyCompressed::alloc_from_infos(&enc);
                c2.fill_uniform(64, &mut gsrc(g + 4));
                de(&mut c2, &by)?;
                let mut k2 = GGLWEToGGSWKey::alloc_from_infos(&enc);
                k2.fill_uniform(64, &mut gsrc(g + 5));
                for i in 0..rank {
                    let d0 = operand_digest(c2.at(i));
                    lib!("decompress(roundtrip)", m.decompress_gglwe(k2.at_mut(i), c2.at(i)));
                    operand_verify("compressed object (decompress(roundtrip))", d0, c2.at(i));
                }
                let rt_obj = rt_object(&by, &ser(&c2), &ser(&key), &ser(&k2));
                Ok(Obj {
                    cells: cells_of(&key, Some(&seeds)),
                    bytes: by,
                    roundtrip_object: rt_obj,
                    roundtrip: Some(body_mask(&cells_of(&k2, None))),
                    bits,
                    key_l1: sk.l1,
                    ..Default::default()
                })
            }
        }
        // -------------------------------------------------------------------------------------
        Routine::GlweToLwe | Routine::LweKsk | Routine::LweToGlwe => {
            let n_lwe = n - 1; // a proper sub-dimension: the embedding pads with zeros
            match r {
                Routine::GlweToLwe => {
                    let enc = EncryptionLayout::new(gglwe_layout(sh.rank_in, 1), noise).map_err(|e| format!("layout: {e}"))?;
                    let sk_glwe = make_sk::<B>(m, n, sh.rank_in, dist, seed_p(inp.p));
                    let _guard_sk_glwe = SkGuard::new("glwe secret sk_glwe", m, &sk_glwe);
                    let (sk_lwe, lwe_clear) = make_lwe_sk(n_lwe, dist, seed_of(7, inp.s as u64));
                    let _guard_sk_lwe = RawGuard::new("lwe secret sk_lwe", sk_lwe.raw());
                    let key_clear = vec![ring::automorphism(&embed(&lwe_clear, n), -1)];
                    let mut key = GLWEToLWEKey::alloc(deg(n), b2k(b), tp(bits), rk(sh.rank_in), Dnum(sh.dnum as u32));
                    key.fill_uniform(64, &mut gsrc(g));
                    let mut xe = Source::new(seed_e(inp.e));
                    let mut xa = Source::new(seed_a(inp.a));
                    let by = m.glwe_to_lwe_key_encrypt_sk_tmp_bytes(&enc);
                    with_scratch::<B, _>(by, g, |sc| {
                        guarded(|| m.glwe_to_lwe_key_encrypt_sk(&mut key, &sk_lwe, &sk_glwe.sk, &enc, &mut xe, &mut xa, sc))
                    })
                    .map_err(|e| format!("encrypt: {e}"))?;
                    prep!("glwe_to_lwe_key_prepare", m.glwe_to_lwe_key_prepared_alloc_from_infos(&enc), m.glwe_to_lwe_key_prepare_tmp_bytes(&enc), |p, sc| m.glwe_to_lwe_key_prepare(&mut p, &key, sc));
                    let l1 = key_clear[0].iter().map(|x| x.unsigned_abs() as i128).sum();
                    Ok(Obj {
                        cells: cells_gglwe(&key, 0, sh, &key_clear, &sk_glwe.clear, None),
                        bytes: ser(&key),
                        roundtrip: None,
                        bits,
                        key_l1: l1,
                        ..Default::default()
                    })
                }
                Routine::LweKsk => {
                    let enc = EncryptionLayout::new(gglwe_layout(1, 1), noise).map_err(|e| format!("layout: {e}"))?;
                    let (sk_in, in_clear) = make_lwe_sk(n_lwe, dist, seed_p(inp.p));
                    let _guard_sk_in = RawGuard::new("lwe secret sk_in", sk_in.raw());
                    let (sk_out, out_clear) = make_lwe_sk(n_lwe, dist, seed_of(7, inp.s as u64));
                    let _guard_sk_out = RawGuard::new("lwe secret sk_out", sk_out.raw());
                    let key_clear = vec![ring::automorphism(&embed(&out_clear, n), -1)];
                    let pts = vec![ring::automorphism(&embed(&in_clear, n), -1)];
                    let mut key = LWESwitchingKey::alloc(deg(n), b2k(b), tp(bits), Dnum(sh.dnum as u32));
                    key.fill_uniform(64, &mut gsrc(g));
                    let mut xe = Source::new(seed_e(inp.e));
                    let mut xa = Source::new(seed_a(inp.a));
                    let by = m.lwe_switching_key_encrypt_sk_tmp_bytes(&enc);
                    with_scratch::<B, _>(by, g, |sc| {
                        guarded(|| m.lwe_switching_key_encrypt_sk(&mut key, &sk_in, &sk_out, &enc, &mut xe, &mut xa, sc))
                    })
                    .map_err(|e| format!("encrypt: {e}"))?;
                    prep!("lwe_switching_key_prepare", m.lwe_switching_key_prepared_alloc_from_infos(&enc), m.lwe_switching_key_prepare_tmp_bytes(&enc), |p, sc| m.lwe_switching_key_prepare(&mut p, &key, sc));
                    let l1 = key_clear[0].iter().map(|x| x.unsigned_abs() as i128).sum();
                    Ok(Obj {
                        cells: cells_gglwe(&key, 0, sh, &key_clear, &pts, None),
                        bytes: ser(&key),
                        roundtrip: None,
                        bits,
                        key_l1: l1,
                        ..Default::default()
                    })
                }
                _ => {
                    let enc = EncryptionLayout::new(gglwe_layout(1, rank), noise).map_err(|e| format!("layout: {e}"))?;
                    let (sk_lwe, lwe_clear) = make_lwe_sk(n_lwe, dist, seed_p(inp.p));
                    let _guard_sk_lwe = RawGuard::new("lwe secret sk_lwe", sk_lwe.raw());
                    let sk = make_sk::<B>(m, n, rank, dist, seed_s(inp.s));
                    let _guard_sk = SkGuard::new("glwe secret sk", m, &sk);
                    let pts = vec![ring::automorphism(&embed(&lwe_clear, n), -1)];
                    let mut key = LWEToGLWEKey::alloc(deg(n), b2k(b), tp(bits), rk(rank), Dnum(sh.dnum as u32));
                    key.fill_uniform(64, &mut gsrc(g));
                    let mut xe = Source::new(seed_e(inp.e));
                    let mut xa = Source::new(seed_a(inp.a));
                    let by = m.lwe_to_glwe_key_encrypt_sk_tmp_bytes(&enc);
                    with_scratch::<B, _>(by, g, |sc| {
                        guarded(|| m.lwe_to_glwe_key_encrypt_sk(&mut key, &sk_lwe, &sk.prep, &enc, &mut xe, &mut xa, sc))
                    })
                    .map_err(|e| format!("encrypt: {e}"))?;
                    prep!("lwe_to_glwe_key_prepare", m.lwe_to_glwe_key_prepared_alloc_from_infos(&enc), m.lwe_to_glwe_key_prepare_tmp_bytes(&enc), |p, sc| m.lwe_to_glwe_key_prepare(&mut p, &key, sc));
                    Ok(Obj {
                        cells: cells_gglwe(&key, 0, sh, &sk.clear, &pts, None),
                        bytes: ser(&key),
                        roundtrip: None,
                        bits,
                        key_l1: sk.l1,
                        ..Default::default()
                    })
                }
            }
        }
    }
}

// ---------------------------------------------------------------------------------------------
// sampler model R8
// ---------------------------------------------------------------------------------------------

/// uniform digit stream of radix 2^b drawn from `src`: digit = (next 64-bit word mod 2^b) - 2^(b-1)
pub fn model_uniform_digits(src: &mut Source, b: usize, count: usize) -> Vec<i64> {
    let mask: u64 = (1u64 << b) - 1;
    let half: i64 = 1i64 << (b - 1);
    (0..count).map(|_| ((src.next_i64() as u64) & mask) as i64 - half).collect()
}

/// mask of a GLWE with `cols` mask columns of `size` limbs regenerated from `seed` (column, limb, coefficient order)
pub fn model_glwe_mask(seed: [u8; 32], b: usize, n: usize, cols: usize, size: usize) -> Vec<i64> {
    let mut src = Source::new(seed);
    model_uniform_digits(&mut src, b, n * cols * size)
}

/// mask of an LWE of dimension n: every limb draws n+1 digits, the first of which lands on the body slot
pub fn model_lwe_mask(seed: [u8; 32], b: usize, n: usize, size: usize) -> Vec<i64> {
    let mut src = Source::new(seed);
    let mut out = vec![];
    for _ in 0..size {
        let d = model_uniform_digits(&mut src, b, n + 1);
        out.extend_from_slice(&d[1..]);
    }
    out
}

/// truncated rounded normal stream: x ~ N(0, sigma*scale), redrawn while |x| > bound*scale, rounded to nearest
pub fn model_errors(seed: [u8; 32], noise: &NoiseInfos, b: usize, count: usize) -> Vec<i64> {
    use rand_distr::{Distribution, Normal};
    let limb = noise.k.div_ceil(b) - 1;
    let scale = (((limb + 1) * b - noise.k) as f64).exp2();
    let normal = Normal::new(0.0, noise.sigma * scale).unwrap();
    let bound = noise.bound * scale;
    let mut src = Source::new(seed);
    (0..count)
        .map(|_| {
            let mut x: f64 = normal.sample(&mut src);
            while x.abs() > bound {
                x = normal.sample(&mut src);
            }
            x.round() as i64
        })
        .collect()
}

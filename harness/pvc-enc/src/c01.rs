//! C01 - encrypt-then-decrypt returns the message up to the configured *bounded* error (engine E1).
//!
//! Oracle: the harness recomputes the phase body + sum_i mask_i * s_i exactly (pvc_common::phase, big integers, clear
//! secret) from the ciphertext limbs, subtracts the exact message placed at its declared position and requires for
//! every coefficient  |phase - m| <= E * 2^-((limb+1)*b)  with  E = round(bound * 2^((limb+1)*b-k))  for secret-key
//! encryption (GLWE, seed-compressed GLWE after decompression, LWE) and  E * (1 + |u|_1 + |s|_1)  for public-key
//! encryption (u*e_pk + e_0 + sum e_i*s_i), plus one unit of the ciphertext's last limb when the plaintext is longer
//! than the ciphertext (its extra limbs cannot be represented).  The error must also be an integer at the declared
//! limb.  Independently the library's own decryption into plaintexts of several (radix, precision) pairs must
//! equal the phase: exactly when the plaintext is long enough, else within one unit of its last limb, digits normalised.

use crate::enc_util::*;
use poulpy_core::layouts::{
    GLWECompressed, GLWEDecompress, GLWELayout, GLWEPublicKey, GLWEPublicKeyPreparedFactory, GLWEToRef, LWEInfos,
    LWELayout,
};
use poulpy_core::{
    EncryptionLayout, GLWECompressedEncryptSk, GLWEDecrypt, GLWEEncryptPk, GLWEEncryptSk, GLWEPublicKeyGenerate, LWEDecrypt,
    LWEEncryptSk, ScratchTakeCore,
};
use poulpy_hal::layouts::{FillUniform, Module, Scratch, VecZnx};
use poulpy_hal::source::Source;
use pvc_common::phase::{ALL_DISTS, Dist, glwe_phase, lwe_phase, torus_err};
use pvc_common::{Bk, CoreAll, Family, HalAll, for_backends};
use pvc_engine::rng::Rng;
use pvc_engine::{Rec, Run, Tier, fnv, guarded};
use pvc_model::IBig;
use pvc_model::torus;
use serde::{Deserialize, Serialize};
use serde_json::{Value, json};
use std::collections::HashSet;

#[derive(Clone, Copy, Debug, PartialEq, Eq, Serialize, Deserialize)]
pub enum Path {
    GlweSk,
    GlwePk,
    GlweCompressed,
    LweSk,
    /// secret-key encryption of a plaintext whose radix differs from the ciphertext's: accepted only if the message
    /// lands at its declared position (or the call is rejected)
    GlweSkCrossRadix,
}

impl Path {
    fn name(self) -> &'static str {
        match self {
            Path::GlweSk => "glwe_sk",
            Path::GlwePk => "glwe_pk",
            Path::GlweCompressed => "glwe_compressed",
            Path::LweSk => "lwe_sk",
            Path::GlweSkCrossRadix => "glwe_sk_cross_radix_pt",
        }
    }
}

#[derive(Clone, Debug, Serialize, Deserialize)]
pub struct Case {
    pub path: Path,
    pub backend: String,
    pub n: usize,
    pub rank: usize,
    pub b: usize,
    /// encryption precision (NoiseInfos::k)
    pub k: usize,
    /// ciphertext limbs beyond ceil(k/b)
    pub extra: usize,
    pub dist: Dist,
    pub noise: u8,
    /// plaintext radix (only differs from b on the cross-radix path)
    pub b_pt: usize,
}

#[derive(Clone, Copy, Debug, Default)]
pub struct Inner {
    pub s: Option<usize>,
    pub pv: Option<usize>,
    pub mc: Option<usize>,
}

#[derive(Clone)]
pub struct Knobs {
    /// seed triples 0..full_seeds run the whole (plaintext size x message) grid, the remaining ones only the
    /// equal-size plaintext with messages {all-max, alternating, random}
    full_seeds: usize,
    seeds: usize,
    msgs: Vec<usize>,
    /// decrypt variants are run when (s + pv + mc) % dec_mod == 0
    dec_mod: usize,
}

/// replays enable every inner selector
pub fn replay_knobs() -> Knobs {
    Knobs {
        full_seeds: 8,
        seeds: 8,
        msgs: (0..MSG_CLASSES).collect(),
        dec_mod: 1,
    }
}

pub fn knobs(tier: Tier) -> Knobs {
    match tier {
        Tier::Quick => Knobs {
            full_seeds: 2,
            seeds: 4,
            msgs: vec![0, 3, 4, 5, 6],
            dec_mod: 2,
        },
        Tier::Thorough => Knobs {
            full_seeds: 4,
            seeds: 8,
            msgs: (0..MSG_CLASSES).collect(),
            dec_mod: 3,
        },
    }
}

/// message class index meaning "call the *_zero_* API" (no plaintext)
const MC_ZERO_API: usize = 100;

fn fail_once(
    rec: &mut Rec,
    seen: &mut HashSet<(String, String)>,
    op: &str,
    kind: &str,
    backend: &str,
    c: &Case,
    inner: Value,
    extra: Value,
) {
    if !seen.insert((op.to_string(), kind.to_string())) {
        return;
    }
    let mut d = json!({"op": op, "backend": backend, "kind": kind, "case": c, "inner": inner});
    if let (Value::Object(m), Value::Object(e)) = (&mut d, extra) {
        for (k, v) in e {
            m.insert(k, v);
        }
    }
    rec.fail(d);
}

/// plaintext layouts the library's decryption is asked to fill: (radix, size)
fn out_layouts(b: usize, size: usize) -> Vec<(usize, usize)> {
    let bits = b * size;
    let mut out = vec![(b, size)];
    if size > 1 {
        out.push((b, size - 1));
    }
    out.push((b, size + 1));
    let mut seen = vec![b];
    for bo in [b + 1, b.saturating_sub(1), 2 * b, 7] {
        if bo == 0 || bo > 50 || seen.contains(&bo) {
            continue;
        }
        seen.push(bo);
        let so = bits.div_ceil(bo);
        out.push((bo, so));
        if so > 1 {
            out.push((bo, so - 1));
        }
    }
    out
}

/// judges a decrypted value against the exact phase; Ok or (kind, detail)
fn judge_decrypt(got: &IBig, gbits: usize, phase: &IBig, pbits: usize) -> Result<(), (String, String)> {
    let (d, l) = torus_err(got, gbits, phase, pbits);
    let ad = torus::abs(&d);
    if gbits >= pbits {
        if ad != IBig::from(0) {
            return Err(("wrong_value".into(), format!("inexact although the plaintext holds {gbits} >= {pbits} bits: {d} / 2^{l}")));
        }
    } else if ad > torus::pow2(l - gbits) {
        return Err((
            "wrong_value".into(),
            format!("decrypted value differs from the phase by {d} / 2^{l} > one unit 2^-{gbits} of the plaintext's last limb"),
        ));
    }
    Ok(())
}

pub fn exec<B: Bk>(c: &Case, kn: &Knobs, sel: Inner, seed: u64, rec: &mut Rec)
where
    Module<B>: HalAll<B> + CoreAll<B>,
    Scratch<B>: ScratchTakeCore<B>,
{
    match c.path {
        Path::LweSk => exec_lwe::<B>(c, kn, sel, seed, rec),
        _ => exec_glwe::<B>(c, kn, sel, seed, rec),
    }
}

fn exec_glwe<B: Bk>(c: &Case, kn: &Knobs, sel: Inner, seed: u64, rec: &mut Rec)
where
    Module<B>: HalAll<B> + CoreAll<B>,
    Scratch<B>: ScratchTakeCore<B>,
{
    let (n, rank, b) = (c.n, c.rank, c.b);
    let m = B::module(n);
    let size = c.k.div_ceil(b) + c.extra;
    let bits = size * b;
    let noise = noise_cfg(c.noise, c.k);
    let layout = GLWELayout {
        n: deg(n),
        base2k: b2k(b),
        k: tp(bits),
        rank: rk(rank),
    };
    let enc = EncryptionLayout::new(layout, noise).expect("admissible encryption layout");
    let (limb, emax) = noise_limb_bound(&noise, b);
    let unit_sh = bits - (limb + 1) * b; // error unit 2^-((limb+1)b) in units of 2^-bits
    let case_hash = fnv(format!("{:?}", c).as_bytes());
    rec.distinct(case_hash);
    rec.sample(|| serde_json::to_value(c).unwrap());
    let mut seen: HashSet<(String, String)> = HashSet::new();
    let op_enc = match c.path {
        Path::GlweSk | Path::GlweSkCrossRadix => "glwe_encrypt_sk",
        Path::GlwePk => "glwe_encrypt_pk",
        Path::GlweCompressed => "glwe_compressed_encrypt_sk+decompress_glwe",
        Path::LweSk => unreachable!(),
    };
    let sk_bytes = m.glwe_encrypt_sk_tmp_bytes(&enc);
    let pk_bytes = m.glwe_encrypt_pk_tmp_bytes(&enc);
    let cmp_bytes = m.glwe_compressed_encrypt_sk_tmp_bytes(&enc);
    let dec_bytes = m.glwe_decrypt_tmp_bytes(&enc);

    for s in 0..kn.seeds {
        if sel.s.is_some_and(|x| x != s) {
            continue;
        }
        let sk = make_sk::<B>(&m, n, rank, c.dist, seed_of(1, s as u64));
        let emax_total: i128 = match c.path {
            Path::GlwePk => emax * (1 + u_l1_max(n, c.dist) + sk.l1),
            _ => emax,
        };
        // ---- public key ----
        let mut pk_prep = None;
        if c.path == Path::GlwePk {
            let mut pk = GLWEPublicKey::alloc_from_infos(&enc);
            pk.fill_uniform_garbage();
            let mut xe = Source::new(seed_of(4, s as u64));
            let mut xa = Source::new(seed_of(5, s as u64));
            let r = guarded(|| m.glwe_public_key_generate(&mut pk, &sk.prep, &enc, &mut xe, &mut xa));
            rec.evals(1);
            if let Err(msg) = r {
                fail_once(rec, &mut seen, "glwe_public_key_generate", "panic", B::NAME, c, json!({"s": s}), json!({"panic": msg}));
                continue;
            }
            // the public key is an encryption of zero: its phase is the key error
            let pkd = vec_owned(pk.to_ref().data());
            let ph = glwe_phase(&pkd, b, &sk.clear);
            for (i, p) in ph.iter().enumerate() {
                let d = torus::centered_mod_pow2(p, bits);
                let tol: IBig = IBig::from(emax) << unit_sh;
                if torus::abs(&d) > tol {
                    fail_once(
                        rec,
                        &mut seen,
                        "glwe_public_key_generate",
                        "noise_too_large",
                        B::NAME,
                        c,
                        json!({"s": s}),
                        json!({"index": i, "err": d.to_string(), "tol": tol.to_string(), "scaled_bits": bits}),
                    );
                    break;
                }
            }
            let mut pp = m.glwe_public_key_prepared_alloc_from_infos(&enc);
            let r = guarded(|| m.glwe_public_key_prepare(&mut pp, &pk));
            if let Err(msg) = r {
                fail_once(rec, &mut seen, "glwe_public_key_prepare", "panic", B::NAME, c, json!({"s": s}), json!({"panic": msg}));
                continue;
            }
            pk_prep = Some(pp);
        }

        let pt_sizes: Vec<usize> = if c.path == Path::GlweSkCrossRadix {
            // plaintext of radix b_pt with about the ciphertext's precision
            vec![bits.div_ceil(c.b_pt).max(1)]
        } else {
            let mut v = vec![];
            if size > 1 {
                v.push(size - 1);
            }
            v.push(size);
            v.push(size + 1);
            v
        };
        for (pv, &psize) in pt_sizes.iter().enumerate() {
            if sel.pv.is_some_and(|x| x != pv) {
                continue;
            }
            let light = s >= kn.full_seeds;
            if light && psize != size {
                continue;
            }
            let mut msgs = kn.msgs.clone();
            if light {
                msgs.retain(|x| [3usize, 5, 6].contains(x));
            }
            if psize == size && matches!(c.path, Path::GlweSk | Path::GlwePk) {
                msgs.push(MC_ZERO_API);
            }
            for &mc in &msgs {
                if sel.mc.is_some_and(|x| x != mc) {
                    continue;
                }
                let inner = json!({"s": s, "pv": pv, "mc": mc, "pt_size": psize});
                let mut rng = Rng::new(seed, case_hash ^ ((s * 64 + pv * 16) as u64 + mc as u64));
                let mut pt = pt_garbage(n, c.b_pt, psize, 2);
                if mc != MC_ZERO_API {
                    fill_message(pt.data_mut(), c.b_pt, mc, &mut rng);
                }
                let mut xe = Source::new(seed_of(2, s as u64));
                let mut xa = Source::new(seed_of(3, s as u64));
                let mut ct = glwe_garbage(n, b, size, rank, (s + mc) % 2);
                let r = match c.path {
                    Path::GlweSk | Path::GlweSkCrossRadix => with_scratch::<B, _>(sk_bytes, mc % 2, |sc| {
                        guarded(|| {
                            if mc == MC_ZERO_API {
                                m.glwe_encrypt_zero_sk(&mut ct, &sk.prep, &enc, &mut xe, &mut xa, sc)
                            } else {
                                m.glwe_encrypt_sk(&mut ct, &pt, &sk.prep, &enc, &mut xe, &mut xa, sc)
                            }
                        })
                    }),
                    Path::GlwePk => with_scratch::<B, _>(pk_bytes, mc % 2, |sc| {
                        let pp = pk_prep.as_ref().unwrap();
                        guarded(|| {
                            if mc == MC_ZERO_API {
                                m.glwe_encrypt_zero_pk(&mut ct, pp, &enc, &mut xa, &mut xe, sc)
                            } else {
                                m.glwe_encrypt_pk(&mut ct, &pt, pp, &enc, &mut xa, &mut xe, sc)
                            }
                        })
                    }),
                    Path::GlweCompressed => {
                        let mut cc = GLWECompressed::alloc_from_infos(&enc);
                        cc.fill_uniform(64, &mut Source::new(seed_of(9, mc as u64 + 1)));
                        let r = with_scratch::<B, _>(cmp_bytes, mc % 2, |sc| {
                            guarded(|| m.glwe_compressed_encrypt_sk(&mut cc, &pt, &sk.prep, seed_of(3, s as u64), &enc, &mut xe, sc))
                        });
                        match r {
                            Ok(()) => guarded(|| m.decompress_glwe(&mut ct, &cc)),
                            e => e,
                        }
                    }
                    Path::LweSk => unreachable!(),
                };
                rec.evals(1);
                if let Err(msg) = r {
                    if c.path == Path::GlweSkCrossRadix {
                        // rejecting a plaintext of another radix is an acceptable answer
                        rec.add("cross_radix_rejected", 1);
                        continue;
                    }
                    fail_once(rec, &mut seen, op_enc, "panic", B::NAME, c, inner, json!({"panic": msg}));
                    continue;
                }
                // ---- exact phase against the exact message ----
                let ph = glwe_phase(ct.data(), b, &sk.clear);
                let take = if c.path == Path::GlweSkCrossRadix { psize } else { psize.min(size) };
                let mbits = take * c.b_pt;
                let trunc: i128 = if c.path != Path::GlweSkCrossRadix && psize > size { 1 } else { 0 };
                let l = bits.max(mbits);
                let tol: IBig = ((IBig::from(emax_total) << unit_sh) + IBig::from(trunc)) << (l - bits);
                let mut worst = IBig::from(0);
                let mut hash_acc: Vec<i64> = Vec::with_capacity(n);
                for (i, p) in ph.iter().enumerate() {
                    let mval = if mc == MC_ZERO_API { IBig::from(0) } else { coeff_value_prefix(pt.data(), 0, i, c.b_pt, take) };
                    let (d, ll) = torus_err(p, bits, &mval, mbits);
                    debug_assert_eq!(ll, l);
                    let ad = torus::abs(&d);
                    hash_acc.push(ibig_to_i128(&d).map(|x| x as i64).unwrap_or(i64::MAX));
                    if ad > tol {
                        let kind = if c.path == Path::GlweSkCrossRadix { "message_misplaced_cross_radix" } else { "noise_too_large" };
                        fail_once(
                            rec,
                            &mut seen,
                            op_enc,
                            kind,
                            B::NAME,
                            c,
                            inner.clone(),
                            json!({"index": i, "err": d.to_string(), "tol": tol.to_string(), "scaled_bits": l,
                                   "err_over_tol": approx_units(&ad, 0) / approx_units(&tol, 0).max(1e-300),
                                   "noise_limb": limb, "emax": emax.to_string(), "emax_total": emax_total.to_string()}),
                        );
                        break;
                    }
                    // error is an integer at the declared limb (message exactly representable)
                    if trunc == 0 && c.path != Path::GlweSkCrossRadix && l == bits && unit_sh > 0 {
                        let low = torus::centered_mod_pow2(&d, unit_sh);
                        if low != IBig::from(0) {
                            fail_once(
                                rec,
                                &mut seen,
                                op_enc,
                                "error_below_declared_limb",
                                B::NAME,
                                c,
                                inner.clone(),
                                json!({"index": i, "err": d.to_string(), "scaled_bits": l, "noise_limb": limb}),
                            );
                            break;
                        }
                    }
                    if ad > worst {
                        worst = ad;
                    }
                }
                rec.outcome(pvc_engine::hash_i64s(&hash_acc));
                // ---- library decryption against the phase ----
                if c.path == Path::GlweSkCrossRadix || (s + pv + (mc % 16)) % kn.dec_mod != 0 {
                    continue;
                }
                for (bo, so) in out_layouts(b, size) {
                    if B::FAMILY == Family::Fft64 && bo > 50 {
                        continue;
                    }
                    let mut po = pt_garbage(n, bo, so, (so + mc) % 2);
                    let r = with_scratch::<B, _>(dec_bytes, so % 2, |sc| guarded(|| m.glwe_decrypt(&ct, &mut po, &sk.prep, sc)));
                    rec.evals(1);
                    let inner_d = json!({"s": s, "pv": pv, "mc": mc, "pt_size": psize, "out_b": bo, "out_size": so});
                    if let Err(msg) = r {
                        fail_once(rec, &mut seen, "glwe_decrypt", "panic", B::NAME, c, inner_d, json!({"panic": msg, "cross_radix": bo != b}));
                        continue;
                    }
                    if po.base2k().0 as usize != bo || po.size() != so {
                        fail_once(rec, &mut seen, "glwe_decrypt", "metadata_changed", B::NAME, c, inner_d.clone(), json!({}));
                    }
                    if !digits_normalised(po.data(), 0, bo) {
                        // the digit range is part of the normalisation contract for equal radices only (C08)
                        if bo == b {
                            fail_once(rec, &mut seen, "glwe_decrypt", "digits_not_normalised", B::NAME, c, inner_d.clone(), json!({}));
                        } else {
                            rec.add("cross_radix_decrypt_with_unnormalised_digits", 1);
                        }
                    }
                    for (i, p) in ph.iter().enumerate() {
                        let got = coeff_value(po.data(), 0, i, bo);
                        if let Err((kind, detail)) = judge_decrypt(&got, bo * so, p, bits) {
                            fail_once(
                                rec,
                                &mut seen,
                                "glwe_decrypt",
                                &kind,
                                B::NAME,
                                c,
                                inner_d.clone(),
                                json!({"index": i, "detail": detail, "cross_radix": bo != b, "truncating": bo * so < bits}),
                            );
                            break;
                        }
                    }
                }
            }
        }
    }
}

trait GarbageFill {
    fn fill_uniform_garbage(&mut self);
}

impl GarbageFill for GLWEPublicKey<Vec<u8>> {
    fn fill_uniform_garbage(&mut self) {
        use poulpy_core::layouts::GLWEToMut;
        let mut g = self.to_mut();
        pvc_engine::rng::garbage(bytemuck_i64(poulpy_hal::layouts::ZnxViewMut::raw_mut(g.data_mut())), 0);
    }
}

fn exec_lwe<B: Bk>(c: &Case, kn: &Knobs, sel: Inner, seed: u64, rec: &mut Rec)
where
    Module<B>: HalAll<B> + CoreAll<B>,
    Scratch<B>: ScratchTakeCore<B>,
{
    let (n, b) = (c.n, c.b);
    let m = B::module(8);
    let size = c.k.div_ceil(b) + c.extra;
    let bits = size * b;
    let noise = noise_cfg(c.noise, c.k);
    let layout = LWELayout {
        n: deg(n),
        k: tp(bits),
        base2k: b2k(b),
    };
    let enc = EncryptionLayout::new(layout, noise).expect("admissible encryption layout");
    let (limb, emax) = noise_limb_bound(&noise, b);
    let unit_sh = bits - (limb + 1) * b;
    let case_hash = fnv(format!("{:?}", c).as_bytes());
    rec.distinct(case_hash);
    rec.sample(|| serde_json::to_value(c).unwrap());
    let mut seen: HashSet<(String, String)> = HashSet::new();
    let enc_bytes = m.lwe_encrypt_sk_tmp_bytes(&enc);
    let dec_bytes = m.lwe_decrypt_tmp_bytes(&enc);
    for s in 0..kn.seeds {
        if sel.s.is_some_and(|x| x != s) {
            continue;
        }
        let (sk, clear) = make_lwe_sk(n, c.dist, seed_of(1, s as u64));
        let mut pt_sizes = vec![];
        if size > 1 {
            pt_sizes.push(size - 1);
        }
        pt_sizes.push(size);
        pt_sizes.push(size + 1);
        for (pv, &psize) in pt_sizes.iter().enumerate() {
            if sel.pv.is_some_and(|x| x != pv) {
                continue;
            }
            let light = s >= kn.full_seeds;
            if light && psize != size {
                continue;
            }
            for &mc in &kn.msgs {
                if light && ![3usize, 5, 6].contains(&mc) {
                    continue;
                }
                if sel.mc.is_some_and(|x| x != mc) {
                    continue;
                }
                let inner = json!({"s": s, "pv": pv, "mc": mc, "pt_size": psize});
                let mut rng = Rng::new(seed, case_hash ^ ((s * 64 + pv * 16) as u64 + mc as u64));
                let mut pt = lwe_pt_garbage(b, psize, 2);
                fill_message(pt.data_mut(), b, mc, &mut rng);
                let mut xe = Source::new(seed_of(2, s as u64));
                let mut xa = Source::new(seed_of(3, s as u64));
                let mut ct = lwe_garbage(n, b, size, (s + mc) % 2);
                let r = with_scratch::<B, _>(enc_bytes, mc % 2, |sc| {
                    guarded(|| m.lwe_encrypt_sk(&mut ct, &pt, &sk, &enc, &mut xe, &mut xa, sc))
                });
                rec.evals(1);
                if let Err(msg) = r {
                    fail_once(rec, &mut seen, "lwe_encrypt_sk", "panic", B::NAME, c, inner, json!({"panic": msg}));
                    continue;
                }
                let ctd: VecZnx<Vec<u8>> = vec_owned(ct.data());
                let p = lwe_phase(&ctd, b, &clear);
                let take = psize.min(size);
                let mbits = take * b;
                let trunc: i128 = if psize > size { 1 } else { 0 };
                let tol: IBig = (IBig::from(emax) << unit_sh) + IBig::from(trunc);
                let mval = coeff_value_prefix(pt.data(), 0, 0, b, take);
                let (d, l) = torus_err(&p, bits, &mval, mbits);
                let ad = torus::abs(&d);
                rec.outcome(ibig_to_i128(&d).map(|x| x as u64).unwrap_or(u64::MAX));
                if ad > tol {
                    fail_once(
                        rec,
                        &mut seen,
                        "lwe_encrypt_sk",
                        "noise_too_large",
                        B::NAME,
                        c,
                        inner.clone(),
                        json!({"err": d.to_string(), "tol": tol.to_string(), "scaled_bits": l, "noise_limb": limb, "emax": emax.to_string()}),
                    );
                } else if trunc == 0 && unit_sh > 0 && torus::centered_mod_pow2(&d, unit_sh) != IBig::from(0) {
                    fail_once(
                        rec,
                        &mut seen,
                        "lwe_encrypt_sk",
                        "error_below_declared_limb",
                        B::NAME,
                        c,
                        inner.clone(),
                        json!({"err": d.to_string(), "scaled_bits": l, "noise_limb": limb}),
                    );
                }
                if (s + pv + mc) % kn.dec_mod != 0 {
                    continue;
                }
                for (bo, so) in out_layouts(b, size) {
                    if B::FAMILY == Family::Fft64 && bo > 50 {
                        continue;
                    }
                    let mut po = lwe_pt_garbage(bo, so, (so + mc) % 2);
                    let r = with_scratch::<B, _>(dec_bytes, so % 2, |sc| guarded(|| m.lwe_decrypt(&ct, &mut po, &sk, sc)));
                    rec.evals(1);
                    let inner_d = json!({"s": s, "pv": pv, "mc": mc, "pt_size": psize, "out_b": bo, "out_size": so});
                    if let Err(msg) = r {
                        fail_once(rec, &mut seen, "lwe_decrypt", "panic", B::NAME, c, inner_d, json!({"panic": msg, "cross_radix": bo != b}));
                        continue;
                    }
                    if po.base2k().0 as usize != bo || po.size() != so {
                        fail_once(rec, &mut seen, "lwe_decrypt", "metadata_changed", B::NAME, c, inner_d.clone(), json!({}));
                    }
                    if !digits_normalised(po.data(), 0, bo) {
                        if bo == b {
                            fail_once(rec, &mut seen, "lwe_decrypt", "digits_not_normalised", B::NAME, c, inner_d.clone(), json!({}));
                        } else {
                            rec.add("cross_radix_decrypt_with_unnormalised_digits", 1);
                        }
                    }
                    let got = coeff_value(po.data(), 0, 0, bo);
                    if let Err((kind, detail)) = judge_decrypt(&got, bo * so, &p, bits) {
                        fail_once(
                            rec,
                            &mut seen,
                            "lwe_decrypt",
                            &kind,
                            B::NAME,
                            c,
                            inner_d,
                            json!({"detail": detail, "cross_radix": bo != b, "truncating": bo * so < bits}),
                        );
                    }
                }
            }
        }
    }
}

// ---------------------------------------------------------------------------------------------
// enumeration
// ---------------------------------------------------------------------------------------------

/// largest radix the backend's magnitude domain admits for mask * secret products at ring degree n
/// (FFT64: n * 2^(b-1) must stay well inside the 53-bit significand; NTT120: 52)
pub fn bmax<B: Bk>(n: usize) -> usize {
    match B::FAMILY {
        // VERIF_C01_FFT64_BMAX=<b> is an experiment switch (probing the domain boundary), never used by the registered check
        Family::Fft64 => std::env::var("VERIF_C01_FFT64_BMAX").ok().and_then(|s| s.parse().ok()).unwrap_or(50 - n.trailing_zeros() as usize),
        Family::Ntt120 => 52,
    }
}

pub fn radices<B: Bk>(n: usize, tier: Tier) -> Vec<usize> {
    let mut v: Vec<usize> = tier.pick(vec![1, 2, 3, 4, 17], vec![1, 2, 3, 4, 5, 6, 12, 17]);
    v.push(bmax::<B>(n));
    v
}

pub fn precisions(b: usize, tier: Tier) -> Vec<usize> {
    let mut v: Vec<usize> = match tier {
        Tier::Quick => {
            if b <= 4 {
                (1..=3 * b).collect()
            } else {
                vec![1, b, b + 1, 2 * b - 1, 3 * b]
            }
        }
        Tier::Thorough => {
            if b <= 6 {
                (1..=4 * b).collect()
            } else {
                let mut v = vec![1, 2, b - 1, b, b + 1];
                v.extend(2 * b..=3 * b); // every residue k mod b
                v.push(4 * b - 1);
                v.push(4 * b);
                v
            }
        }
    };
    v.sort();
    v.dedup();
    v
}

fn cases<B: Bk>(path: Path, tier: Tier) -> Vec<Case> {
    let mut out = vec![];
    let ns: Vec<usize> = match path {
        Path::LweSk => tier.pick(vec![8], vec![1, 7, 8, 16]),
        _ => tier.pick(vec![8], vec![8, 16]),
    };
    let dists: Vec<Dist> = tier.pick(vec![Dist::TernaryProb, Dist::TernaryHw, Dist::BinaryBlock, Dist::Zero], ALL_DISTS.to_vec());
    for &n in &ns {
        let ranks: Vec<usize> = match path {
            Path::LweSk => vec![0],
            _ => tier.pick(vec![0, 1, 2], vec![0, 1, 2, 3]),
        };
        for &rank in &ranks {
            for b in radices::<B>(n.next_power_of_two().max(8), tier) {
                for k in precisions(b, tier) {
                    for extra in 0..=1usize {
                        for &dist in &dists {
                            for noise in 0..=1u8 {
                                // the tight-truncation configuration on a sub-grid only
                                if noise == 1 && (extra == 1 || (tier == Tier::Quick && dist != Dist::TernaryProb)) {
                                    continue;
                                }
                                if path == Path::GlweSkCrossRadix {
                                    if noise != 0 || extra != 0 || dist != Dist::TernaryProb || rank > 1 || k < b {
                                        continue;
                                    }
                                    for b_pt in [b + 1, b.saturating_sub(1)] {
                                        if b_pt == 0 || b_pt > bmax::<B>(n) {
                                            continue;
                                        }
                                        out.push(Case {
                                            path,
                                            backend: B::NAME.into(),
                                            n,
                                            rank,
                                            b,
                                            k,
                                            extra,
                                            dist,
                                            noise,
                                            b_pt,
                                        });
                                    }
                                    continue;
                                }
                                out.push(Case {
                                    path,
                                    backend: B::NAME.into(),
                                    n,
                                    rank,
                                    b,
                                    k,
                                    extra,
                                    dist,
                                    noise,
                                    b_pt: b,
                                });
                            }
                        }
                    }
                }
            }
        }
    }
    out
}

const RULE: &str = "outer = (N, rank, radix b, encryption precision k incl. every residue k mod b, extra ciphertext limbs, secret distribution, noise configuration); inner = 8 seed triples (secret, mask, error; number 0 is the suite's all-zero seed; the first four (quick: both) run the full inner grid, the others the equal-size plaintext with 3 messages) x plaintext sizes (shorter / equal / longer than the ciphertext) x message alphabet (zero, +-1 unit, all digits at either extreme, alternating extremes, seeded random, the *_zero_* API) and, on a fixed sub-grid, the library's decryption into plaintexts of equal and different radix / precision; distinct = outer cases; oracle = exact phase from limbs and clear secret, coefficient-wise hard bound";

fn fam<B: Bk>(run: &mut Run, path: Path)
where
    Module<B>: HalAll<B> + CoreAll<B>,
    Scratch<B>: ScratchTakeCore<B>,
{
    let (tier, seed) = (run.tier, run.seed);
    let cs = cases::<B>(path, tier);
    let kn = knobs(tier);
    run.family(&format!("{}/{}", path.name(), B::NAME), RULE, cs, |c, rec| {
        exec::<B>(c, &kn, Inner::default(), seed, rec)
    });
}

pub fn run(run: &mut Run) {
    run.assume("ring degrees N in {8,16} (LWE dimensions {1,7,8,16}); radices 1..6, 12, 17 and the backend's boundary radix: 52 on NTT120, 50-log2(N) on FFT64 (mask digit * ternary secret sums N*2^(b-1) must stay inside the f64 significand with margin)");
    run.assume("noise: NoiseInfos{k, sigma, bound} with k <= size*b; the sampler rounds the truncated real sample to the nearest integer at the limb scale, so the integer error bound is round(bound*2^((limb+1)b-k)); configurations: library default (3.2, 19.2) and tight truncation (3.2, 3.2)");
    run.assume("encryption adds the plaintext limb-wise: plaintext radix = ciphertext radix (public-key encryption asserts it); the family glwe_sk_cross_radix_pt demands only 'rejected or message at its declared position' for secret-key encryption of a plaintext of another radix");
    run.assume("plaintext digits are normalised (in [-2^(b-1), 2^(b-1))); a plaintext longer than the ciphertext loses its extra limbs (tolerance: one unit of the ciphertext's last limb)");
    run.assume("decryption: plaintext radix <= 50, any size; exact when plaintext bits >= ciphertext bits, else within one unit of the plaintext's last limb (the normalisation contract of C08)");
    run.assume("scratch = the companion *_tmp_bytes query + 4096 bytes slack (exact-size scratch belongs to C12; glwe_decrypt_tmp_bytes under-reports on NTT120 for one-limb ciphertexts), garbage-filled; results garbage-filled");
    for path in [Path::GlweSk, Path::GlwePk, Path::GlweCompressed, Path::LweSk, Path::GlweSkCrossRadix] {
        for_backends!(fam(run, path));
    }
    run.note(
        "secret_replication",
        json!("every GLWE secret used was verified against the harness copy by noise-free decryptions of unit masks; LWE secrets via LWESecret::raw"),
    );
}

pub fn replay(run: &mut Run, d: &Value) {
    let backend = d["backend"].as_str().unwrap_or("").to_string();
    let fam = d["family"].as_str().unwrap_or("replay").to_string();
    let seed = d["seed"].as_u64().unwrap_or(0);
    let c: Case = serde_json::from_value(d["case"].clone()).expect("case");
    let g = |k: &str| d.get("inner").and_then(|i| i.get(k)).and_then(|v| v.as_u64()).map(|v| v as usize);
    let sel = Inner {
        s: g("s"),
        pv: g("pv"),
        mc: g("mc"),
    };
    macro_rules! go {
        ($B:ty) => {
            run.single(&fam, "replay", |rec| exec::<$B>(&c, &replay_knobs(), sel, seed, rec))
        };
    }
    match backend.as_str() {
        "fft64-ref" => go!(pvc_common::FFT64Ref),
        "ntt120-ref" => go!(pvc_common::NTT120Ref),
        "fft64-avx" => go!(pvc_common::FFT64Avx),
        "ntt120-avx" => go!(pvc_common::NTT120Avx),
        o => panic!("unknown backend {o}"),
    }
}

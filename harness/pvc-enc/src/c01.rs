//! C01 - (to be written)

use pvc_engine::Run;
use serde_json::Value;

pub fn run(_run: &mut Run) {
    panic!("C01: not implemented yet");
}

pub fn replay(_run: &mut Run, _d: &Value) {
    panic!("C01: not implemented yet");
}

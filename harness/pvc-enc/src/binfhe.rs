//! poulpy-bin-fhe key generators driven through the same cell interface as the core routines: blind-rotation key
//! (one GGSW per LWE secret bit), its seed-compressed form, and the circuit-bootstrapping key (blind-rotation key +
//! one automorphism key per trace Galois element + GGLWE-to-GGSW key).  The key structs expose no accessor, so the
//! cells are read back from the public serialisation (header words, then the standard serialisation of each member).

use crate::enc_util::*;
use crate::objs::*;
use poulpy_bin_fhe::blind_rotation::{
    BlindRotationKey, BlindRotationKeyCompressed, BlindRotationKeyCompressedEncryptSk, BlindRotationKeyEncryptSk,
    BlindRotationKeyLayout, CGGI,
};
use poulpy_bin_fhe::circuit_bootstrapping::{
    CircuitBootstrappingEncryptionInfos, CircuitBootstrappingKey, CircuitBootstrappingKeyEncryptSk, CircuitBootstrappingKeyLayout,
};
use poulpy_core::layouts::{
    Dnum, Dsize, GGLWEToGGSWKey, GGLWEToGGSWKeyLayout, GGSW, GGSWCompressed, GGSWCompressedSeed, GGSWDecompress, GGSWLayout,
    GLWEAutomorphismKey, GLWEAutomorphismKeyLayout,
};
use poulpy_core::{EncryptionLayout, ScratchTakeCore, trace_galois_elements};
use poulpy_hal::layouts::{FillUniform, Module, ReaderFrom, Scratch};
use poulpy_hal::source::Source;
use pvc_common::phase::Dist;
use pvc_common::{Bk, CoreAll, HalAll};
use pvc_engine::guarded;
use pvc_model::ring;

/// number of LWE secret bits (= GGSW members of the blind-rotation key)
pub const N_LWE: usize = 3;

fn ggsw_cells(ct: &GGSW<Vec<u8>>, key_id: usize, sh: &Shape, sk: &[Vec<i64>], bit: i64, seeds: Option<&Vec<[u8; 32]>>) -> Vec<Cell> {
    let mut out = vec![];
    let mut p = vec![0i64; sh.n];
    p[0] = bit;
    for row in 0..sh.dnum {
        for col in 0..=sh.rank {
            let pc = if col == 0 { p.clone() } else { small_mul(&p, &sk[col - 1]) };
            let want = want_scalar(&pc, sh.bits(), (row + 1) * sh.b);
            let seed = seeds.map(|s| s[row * (sh.rank + 1) + col]);
            out.push(cell_glwe(ct.at(row, col).data(), sh.b, sk, &want, (key_id, row, col), seed));
        }
    }
    out
}

fn read_u64(r: &mut &[u8]) -> Result<u64, String> {
    if r.len() < 8 {
        return Err("serialisation too short".into());
    }
    let (h, t) = r.split_at(8);
    *r = t;
    Ok(u64::from_le_bytes(h.try_into().unwrap()))
}

pub fn build_binfhe<B: Bk>(m: &Module<B>, r: Routine, sh: &Shape, inp: &Inp) -> Result<Obj, String>
where
    Module<B>: HalAll<B> + CoreAll<B>,
    Scratch<B>: ScratchTakeCore<B>,
{
    let (n, b, rank) = (sh.n, sh.b, sh.rank);
    let bits = sh.bits();
    let noise = sh.noise();
    let g = inp.g;
    let brk_layout = BlindRotationKeyLayout {
        n_glwe: deg(n),
        n_lwe: deg(N_LWE),
        base2k: b2k(b),
        k: tp(bits),
        dnum: Dnum(sh.dnum as u32),
        rank: rk(rank),
    };
    let ggsw_layout = GGSWLayout {
        n: deg(n),
        base2k: b2k(b),
        k: tp(bits),
        rank: rk(rank),
        dnum: Dnum(sh.dnum as u32),
        dsize: Dsize(1),
    };
    let sk = make_sk::<B>(m, n, rank, Dist::TernaryProb, seed_s(inp.s));
    let _guard_sk = SkGuard::new("glwe secret", m, &sk);
    let (sk_lwe, bits_lwe) = make_lwe_sk(N_LWE, Dist::BinaryProb, seed_p(inp.p));
    let _guard_lwe = RawGuard::new("lwe secret", sk_lwe.raw());
    let mut xe = Source::new(seed_e(inp.e));
    let mut xa = Source::new(seed_a(inp.a));
    let parse_brk = |mut rd: &[u8]| -> Result<(Vec<Cell>, usize), String> {
        let total = rd.len();
        read_u64(&mut rd)?; // distribution word
        let len = read_u64(&mut rd)? as usize;
        if len != N_LWE {
            return Err(format!("blind rotation key serialises {len} members, expected {N_LWE}"));
        }
        let mut cells = vec![];
        for i in 0..N_LWE {
            let mut ct = GGSW::alloc_from_infos(&ggsw_layout);
            ct.read_from(&mut rd).map_err(|e| format!("member {i}: {e}"))?;
            cells.extend(ggsw_cells(&ct, i, sh, &sk.clear, bits_lwe[i], None));
        }
        Ok((cells, total - rd.len()))
    };
    match r {
        Routine::Brk => {
            let enc = EncryptionLayout::new(brk_layout, noise).map_err(|e| format!("layout: {e}"))?;
            let mut key = BlindRotationKey::<Vec<u8>, CGGI>::alloc(&enc);
            key.fill_uniform(64, &mut gsrc(g));
            let by = <Module<B> as BlindRotationKeyEncryptSk<CGGI, B>>::blind_rotation_key_encrypt_sk_tmp_bytes(m, &enc);
            with_scratch::<B, _>(by, g, |sc| {
                guarded(|| m.blind_rotation_key_encrypt_sk(&mut key, &sk.prep, &sk_lwe, &enc, &mut xe, &mut xa, sc))
            })
            .map_err(|e| format!("encrypt: {e}"))?;
            let bytes = ser(&key);
            let (cells, used) = parse_brk(&bytes)?;
            if used != bytes.len() {
                return Err("parse: trailing bytes in the blind rotation key serialisation".into());
            }
            Ok(Obj {
                cells,
                bytes,
                roundtrip: None,
                bits,
                key_l1: sk.l1,
                ..Default::default()
            })
        }
        Routine::BrkCompressed => {
            let enc = EncryptionLayout::new(brk_layout, noise).map_err(|e| format!("layout: {e}"))?;
            let mut key = BlindRotationKeyCompressed::<Vec<u8>, CGGI>::alloc(&enc);
            key.fill_uniform(64, &mut gsrc(g));
            let by = <Module<B> as BlindRotationKeyCompressedEncryptSk<B, CGGI>>::blind_rotation_key_compressed_encrypt_sk_tmp_bytes(m, &enc);
            with_scratch::<B, _>(by, g, |sc| {
                guarded(|| m.blind_rotation_key_compressed_encrypt_sk(&mut key, &sk.prep, &sk_lwe, seed_a(inp.a), &enc, &mut xe, sc))
            })
            .map_err(|e| format!("encrypt: {e}"))?;
            let bytes = ser(&key);
            let expand = |bytes: &[u8], gi: usize| -> Result<Vec<Cell>, String> {
                let mut rd: &[u8] = bytes;
                read_u64(&mut rd)?;
                let len = read_u64(&mut rd)? as usize;
                if len != N_LWE {
                    return Err(format!("compressed blind rotation key serialises {len} members, expected {N_LWE}"));
                }
                let mut cells = vec![];
                for i in 0..N_LWE {
                    let mut cc = GGSWCompressed::alloc_from_infos(&ggsw_layout);
                    cc.fill_uniform(64, &mut gsrc(gi + i));
                    cc.read_from(&mut rd).map_err(|e| format!("member {i}: {e}"))?;
                    let mut ct = GGSW::alloc_from_infos(&ggsw_layout);
                    ct.fill_uniform(64, &mut gsrc(gi + 3 + i));
                    guarded(|| m.decompress_ggsw(&mut ct, &cc)).map_err(|e| format!("decompress: {e}"))?;
                    let seeds = cc.seed().clone();
                    cells.extend(ggsw_cells(&ct, i, sh, &sk.clear, bits_lwe[i], Some(&seeds)));
                }
                if !rd.is_empty() {
                    return Err("parse: trailing bytes".into());
                }
                Ok(cells)
            };
            let cells = expand(&bytes, g + 2)?;
            // write_to -> read_from (fresh receiver) -> write_to -> expand
            let mut k2 = BlindRotationKeyCompressed::<Vec<u8>, CGGI>::alloc(&enc);
            k2.fill_uniform(64, &mut gsrc(g + 9));
            {
                let mut rd: &[u8] = &bytes;
                k2.read_from(&mut rd).map_err(|e| format!("read_from of the routine's own serialisation failed: {e}"))?;
                if !rd.is_empty() {
                    return Err("read_from left unread bytes".into());
                }
            }
            let bytes2 = ser(&k2);
            let rt = expand(&bytes2, g + 10)?;
            Ok(Obj {
                cells,
                bytes,
                roundtrip: Some(rt.iter().map(|x| (x.body.clone(), x.mask.clone())).collect()),
                bits,
                key_l1: sk.l1,
                ..Default::default()
            })
        }
        Routine::Cbt => {
            let atk_layout = GLWEAutomorphismKeyLayout {
                n: deg(n),
                base2k: b2k(b),
                k: tp(bits),
                rank: rk(rank),
                dnum: Dnum(sh.dnum as u32),
                dsize: Dsize(1),
            };
            let tsk_layout = GGLWEToGGSWKeyLayout {
                n: deg(n),
                base2k: b2k(b),
                k: tp(bits),
                rank: rk(rank),
                dnum: Dnum(sh.dnum as u32),
                dsize: Dsize(1),
            };
            let layout = CircuitBootstrappingKeyLayout {
                brk_layout,
                atk_layout,
                tsk_layout,
            };
            let infos = CircuitBootstrappingEncryptionInfos {
                brk: noise,
                atk: noise,
                tsk: noise,
            };
            let mut key = CircuitBootstrappingKey::<Vec<u8>, CGGI>::alloc_from_infos(&layout);
            let by = <Module<B> as CircuitBootstrappingKeyEncryptSk<CGGI, B>>::circuit_bootstrapping_key_encrypt_sk_tmp_bytes(m, &layout);
            with_scratch::<B, _>(by, g, |sc| {
                guarded(|| m.circuit_bootstrapping_key_encrypt_sk(&mut key, &sk_lwe, &sk.sk, &infos, &mut xe, &mut xa, sc))
            })
            .map_err(|e| format!("encrypt: {e}"))?;
            let bytes = ser(&key);
            let (mut cells, used) = parse_brk(&bytes)?;
            let mut rd: &[u8] = &bytes[used..];
            let natk = read_u64(&mut rd)? as usize;
            let gals = trace_galois_elements(n.trailing_zeros() as usize, 2 * n as i64);
            if natk != gals.len() {
                return Err(format!("circuit bootstrapping key holds {natk} automorphism keys, expected {}", gals.len()));
            }
            let one = Shape { dsize: 1, ..*sh };
            for j in 0..natk {
                let gal = read_u64(&mut rd)? as i64;
                if !gals.contains(&gal) {
                    return Err(format!("unexpected Galois element {gal}"));
                }
                let mut atk = GLWEAutomorphismKey::alloc_from_infos(&atk_layout);
                atk.read_from(&mut rd).map_err(|e| format!("automorphism key {gal}: {e}"))?;
                let gal_inv = ring::inv_mod_2n(gal, n);
                let key_clear: Vec<Vec<i64>> = sk.clear.iter().map(|s| ring::automorphism(s, gal_inv)).collect();
                cells.extend(cells_gglwe(&atk, 1000 + j, &one, &key_clear, &sk.clear, None));
            }
            let mut tsk = GGLWEToGGSWKey::alloc_from_infos(&tsk_layout);
            tsk.read_from(&mut rd).map_err(|e| format!("gglwe-to-ggsw key: {e}"))?;
            if !rd.is_empty() {
                return Err("parse: trailing bytes in the circuit bootstrapping key serialisation".into());
            }
            for i in 0..rank {
                let pts: Vec<Vec<i64>> = (0..rank).map(|j| small_mul(&sk.clear[i], &sk.clear[j])).collect();
                cells.extend(cells_gglwe(tsk.at(i), 2000 + i, &one, &sk.clear, &pts, None));
            }
            Ok(Obj {
                cells,
                bytes,
                roundtrip: None,
                bits,
                key_l1: sk.l1,
                ..Default::default()
            })
        }
        _ => unreachable!(),
    }
}

//! C06 - fresh ciphertexts carry the configured randomness: full noise, uniform mask (engine E1; conformance to R8).
//!
//! Three parts, all on every encrypting routine of poulpy-core that the public API reaches (GLWE sk / zero / pk /
//! public-key generation / compressed, LWE, GGLWE, GGSW, switching / automorphism / tensor / GGLWE-to-GGSW keys with
//! their compressed forms, GLWE->LWE, LWE->LWE, LWE->GLWE keys) and the poulpy-bin-fhe blind-rotation (standard and
//! compressed) and circuit-bootstrapping keys:
//!  * non-interference (exhaustive over {2 plaintexts} x {2 secrets} x {2 mask seeds} x {2 error seeds}): same inputs ->
//!    byte-identical output (under different garbage in results and scratch); flipping the plaintext, the secret or the
//!    error seed never changes any mask column; flipping the error seed changes the body of every cell; flipping the
//!    mask seed changes the mask of every cell.
//!  * conformance: the error of every cell, extracted exactly with the clear key against the plaintext the routine's
//!    definition prescribes, is an integer at the declared limb, within the truncation bound, not identically zero;
//!    mask digits and body digits lie in [-2^(b-1), 2^(b-1)); no mask column repeats inside one object (across cells, rows,
//!    columns, entries of composite keys, or inside a cell); for GLWE / LWE forms (no ordering freedom) mask and
//!    error are *equal* to the sampler model R8 run on the same seeds.
//!  * an AGGREGATE two-sided band test over the enumerated executions (fixed seeds -> a constant of the code): pooled
//!    error variance and mean per routine, chi-square of mask digit frequencies for radices <= 4.

use crate::enc_util::*;
use crate::objs::*;
use poulpy_core::ScratchTakeCore;
use poulpy_hal::layouts::{Module, Scratch};
use pvc_common::phase::Dist;
use pvc_common::{Bk, CoreAll, Family, HalAll, for_backends};
use pvc_engine::{Rec, Run, Tier, fnv, hash_i64s};
use pvc_model::IBig;
use pvc_model::torus;
use serde::{Deserialize, Serialize};
use serde_json::{Value, json};
use std::collections::{BTreeMap, HashSet};

#[derive(Clone, Debug, Serialize, Deserialize)]
pub struct Case {
    pub routine: Routine,
    pub backend: String,
    pub shape: Shape,
}

fn mk_fail<'a>(
    op: &'a str,
    backend: &'a str,
    c: &'a Case,
    seen: &'a mut HashSet<String>,
) -> impl FnMut(&mut Rec, &str, Value, Value) + 'a {
    move |rec: &mut Rec, kind: &str, inner: Value, extra: Value| {
        if !seen.insert(kind.to_string()) {
            return;
        }
        let mut d = json!({"op": op, "backend": backend, "kind": kind, "case": c, "inner": inner});
        if let (Value::Object(m), Value::Object(e)) = (&mut d, extra) {
            for (k, v) in e {
                m.insert(k, v);
            }
        }
        rec.fail(d);
    }
}

// ---------------------------------------------------------------------------------------------
// non-interference
// ---------------------------------------------------------------------------------------------

pub fn exec_ni<B: Bk>(c: &Case, rec: &mut Rec)
where
    Module<B>: HalAll<B> + CoreAll<B>,
    Scratch<B>: ScratchTakeCore<B>,
{
    let r = c.routine;
    let m = B::module(c.shape.n);
    rec.distinct(fnv(format!("{:?}", c).as_bytes()));
    rec.sample(|| serde_json::to_value(c).unwrap());
    let mut seen = HashSet::new();
    let mut fail = mk_fail(r.name(), B::NAME, c, &mut seen);
    let np = if r.has_plaintext() { 2 } else { 1 };
    // all combinations
    let mut objs: BTreeMap<(usize, usize, usize, usize), Obj> = BTreeMap::new();
    for p in 0..np {
        for s in 0..2 {
            for a in 0..2 {
                for e in 0..2 {
                    let inp = Inp { p, s, a, e, g: 0 };
                    rec.evals(1);
                    match build::<B>(&m, r, &c.shape, &inp) {
                        Ok(o) => {
                            rec.outcome(fnv(&o.bytes));
                            objs.insert((p, s, a, e), o);
                        }
                        Err(msg) => {
                            fail(rec, "panic", json!({"p": p, "s": s, "a": a, "e": e}), json!({"panic": msg}));
                            return;
                        }
                    }
                }
            }
        }
    }
    // determinism under different garbage
    for (&(p, s, a, e), o) in objs.iter() {
        if (p + s + a + e) % 2 == 1 && (p, s, a, e) != (np - 1, 1, 1, 1) {
            continue; // half of the corners plus the last one are rebuilt
        }
        rec.evals(1);
        match build::<B>(&m, r, &c.shape, &Inp { p, s, a, e, g: 1 }) {
            Ok(o2) => {
                let same_cells = o.cells.len() == o2.cells.len()
                    && o.cells.iter().zip(o2.cells.iter()).all(|(x, y)| x.body == y.body && x.mask == y.mask);
                if o.bytes != o2.bytes || !same_cells {
                    fail(
                        rec,
                        "not_deterministic",
                        json!({"p": p, "s": s, "a": a, "e": e}),
                        json!({"bytes_equal": o.bytes == o2.bytes, "cells_equal": same_cells,
                               "detail": "same inputs, different garbage in result / scratch buffers"}),
                    );
                }
            }
            Err(msg) => fail(rec, "panic", json!({"p": p, "s": s, "a": a, "e": e, "g": 1}), json!({"panic": msg})),
        }
    }
    // single-coordinate flips
    let keys: Vec<(usize, usize, usize, usize)> = objs.keys().cloned().collect();
    for &(p, s, a, e) in &keys {
        let x = &objs[&(p, s, a, e)];
        let at = json!({"p": p, "s": s, "a": a, "e": e});
        // plaintext flip
        if p == 0 && np == 2 {
            let y = &objs[&(1, s, a, e)];
            if let Some(cell) = first_mask_diff(x, y) {
                fail(rec, "mask_changed_by_plaintext", at.clone(), json!({"cell": cell}));
            }
        }
        if s == 0 {
            let y = &objs[&(p, 1, a, e)];
            if let Some(cell) = first_mask_diff(x, y) {
                fail(rec, "mask_changed_by_secret", at.clone(), json!({"cell": cell}));
            }
        }
        if e == 0 {
            let y = &objs[&(p, s, a, 1)];
            if r.mask_from_seed_only() {
                if let Some(cell) = first_mask_diff(x, y) {
                    fail(rec, "mask_changed_by_error_seed", at.clone(), json!({"cell": cell}));
                }
                for (cx, cy) in x.cells.iter().zip(y.cells.iter()) {
                    if cx.body == cy.body {
                        fail(rec, "body_ignores_error_seed", at.clone(), json!({"cell": [cx.key, cx.row, cx.col]}));
                        break;
                    }
                }
            } else if x.bytes == y.bytes {
                fail(rec, "output_ignores_error_seed", at.clone(), json!({}));
            } else if r == Routine::GlwePk {
                // Public-key encryption: same plaintext, key and ephemeral stream, two error streams. u * pk cancels in the
                // difference of the two ciphertexts, which must therefore be, column by column, the difference of the
                // two error vectors the sampler model R8 draws from the two streams (one block of N draws per column;
                // the order of the columns is left free), sitting on the limb that holds the declared precision.
                if let Some(why) = pk_error_differential(c, x, y, e) {
                    fail(rec, "pk_error_differs_from_sampler_model", at.clone(), json!({"why": why}));
                }
            }
        }
        if a == 0 {
            let y = &objs[&(p, s, 1, e)];
            for (cx, cy) in x.cells.iter().zip(y.cells.iter()) {
                if cx.mask_cols > 0 && cx.mask == cy.mask {
                    fail(rec, "mask_ignores_mask_seed", at.clone(), json!({"cell": [cx.key, cx.row, cx.col]}));
                    break;
                }
            }
        }
    }
}

/// see the call site; `x` was built with error stream `e0 + 8`, `y` with `e0 + 9`
fn pk_error_differential(c: &Case, x: &Obj, y: &Obj, e0: usize) -> Option<String> {
    let sh = &c.shape;
    let (n, b, size, cols) = (sh.n, sh.b, sh.size(), sh.rank + 1);
    let noise = sh.noise();
    let (limb, _) = noise_limb_bound(&noise, b);
    let bits = size * b;
    let (cx, cy) = (x.cells.first()?, y.cells.first()?);
    // torus difference of column `col` (0 = body), scaled by 2^bits, centred
    let col_diff = |col: usize| -> Vec<IBig> {
        (0..n)
            .map(|i| {
                let mut acc = IBig::from(0);
                for j in 0..size {
                    let (vx, vy) = if col == 0 {
                        (cx.body[j * n + i], cy.body[j * n + i])
                    } else {
                        (cx.mask[((col - 1) * size + j) * n + i], cy.mask[((col - 1) * size + j) * n + i])
                    };
                    acc += IBig::from(vx as i128 - vy as i128) << (bits - (j + 1) * b);
                }
                torus::centered_mod_pow2(&acc, bits)
            })
            .collect()
    };
    let m1 = model_errors(error_seed(e0 + 8), &noise, b, cols * n);
    let m2 = model_errors(error_seed(e0 + 9), &noise, b, cols * n);
    let sh_bits = bits - (limb + 1) * b;
    // (the difference lives on the torus: for tiny precisions it wraps modulo 2^bits)
    let block = |k: usize| -> Vec<IBig> {
        (0..n).map(|i| torus::centered_mod_pow2(&(IBig::from(m1[k * n + i] as i128 - m2[k * n + i] as i128) << sh_bits), bits)).collect()
    };
    let blocks: Vec<Vec<IBig>> = (0..cols).map(block).collect();
    let mut used = vec![false; cols];
    for col in 0..cols {
        let d = col_diff(col);
        match (0..cols).find(|&k| !used[k] && blocks[k] == d) {
            Some(k) => used[k] = true,
            None => {
                let units: Vec<String> = d.iter().take(4).map(|v| (v >> sh_bits).to_string()).collect();
                let want: Vec<String> = blocks[col].iter().take(4).map(|v| (v >> sh_bits).to_string()).collect();
                return Some(format!(
                    "column {col}: difference of the two ciphertexts (first coefficients, in units of limb {limb}: {units:?}) is not the difference of any block of model errors (block {col}: {want:?})"
                ));
            }
        }
    }
    None
}

fn first_mask_diff(x: &Obj, y: &Obj) -> Option<Value> {
    for (cx, cy) in x.cells.iter().zip(y.cells.iter()) {
        if cx.mask != cy.mask {
            return Some(json!([cx.key, cx.row, cx.col]));
        }
    }
    None
}

// ---------------------------------------------------------------------------------------------
// conformance
// ---------------------------------------------------------------------------------------------

fn stream_model_applies(r: Routine) -> bool {
    matches!(
        r,
        Routine::GlweSk | Routine::GlweZeroSk | Routine::GlwePkGen | Routine::GlweCompressed | Routine::LweSk
    )
}

pub fn exec_cf<B: Bk>(c: &Case, nseeds: usize, only_seed: Option<usize>, rec: &mut Rec)
where
    Module<B>: HalAll<B> + CoreAll<B>,
    Scratch<B>: ScratchTakeCore<B>,
{
    let r = c.routine;
    let sh = &c.shape;
    let m = B::module(sh.n);
    let case_hash = fnv(format!("{:?}", c).as_bytes());
    rec.distinct(case_hash);
    rec.sample(|| serde_json::to_value(c).unwrap());
    let mut seen = HashSet::new();
    let mut fail = mk_fail(r.name(), B::NAME, c, &mut seen);
    let noise = sh.noise();
    let (limb, emax) = noise_limb_bound(&noise, sh.b);
    let bits = sh.bits();
    let unit_sh = bits - (limb + 1) * sh.b;
    let size = sh.size();
    let half = 1i64 << (sh.b - 1);
    let scale_log = (limb + 1) * sh.b - noise.k;
    // aggregate counters (errors that cannot wrap around the torus only)
    let pool = sh.noise == 0 && scale_log <= 1 && noise.k >= 8 && r != Routine::GlwePk;
    let (mut cnt, mut sumsq, mut pos, mut neg) = (0u64, 0u64, 0u64, 0u64);
    let mut hist = vec![0u64; if sh.b <= 4 { 1 << sh.b } else { 0 }];
    // one coefficient per LWE ciphertext: more seeds so that the aggregate band sees enough samples
    let nseeds = if r == Routine::LweSk { nseeds * 32 } else { nseeds };
    for seed in 0..nseeds {
        if only_seed.is_some_and(|x| x != seed) {
            continue;
        }
        // seed streams are unique per (outer case, seed index), so that the executions pooled by the aggregate band
        // are distinct draws (a function of the case only: replays reproduce them)
        let sidx = 1 + (case_hash % (1 << 40)) as usize * 64 + seed;
        let inp = Inp {
            p: seed % 2,
            s: sidx,
            a: sidx,
            e: sidx,
            g: seed % 2,
        };
        rec.evals(1);
        let o = match build::<B>(&m, r, sh, &inp) {
            Ok(o) => o,
            Err(msg) => {
                fail(rec, "panic", json!({"seed": seed}), json!({"panic": msg}));
                continue;
            }
        };
        let factor: i128 = if r == Routine::GlwePk { 1 + u_l1_max(sh.n, Dist::TernaryProb) + o.key_l1 } else { 1 };
        let tol: IBig = IBig::from(emax * factor) << unit_sh;
        let mut all_zero = true;
        let mut ncoeff = 0usize;
        for cell in &o.cells {
            let id = json!({"seed": seed, "key": cell.key, "row": cell.row, "col": cell.col});
            if cell.mask.iter().any(|&x| x < -half || x >= half) {
                fail(rec, "mask_digit_out_of_range", id.clone(), json!({}));
            }
            if cell.body.iter().any(|&x| x < -half || x >= half) {
                fail(rec, "digits_not_normalised", id.clone(), json!({}));
            }
            for &d in &cell.mask {
                if !hist.is_empty() && r.mask_from_seed_only() && d >= -half && d < half {
                    hist[(d + half) as usize] += 1;
                }
            }
            for (i, e) in cell.err.iter().enumerate() {
                ncoeff += 1;
                if *e != IBig::from(0) {
                    all_zero = false;
                }
                if torus::abs(e) > tol {
                    fail(
                        rec,
                        "noise_too_large",
                        id.clone(),
                        json!({"index": i, "err": e.to_string(), "tol": tol.to_string(), "scaled_bits": bits,
                               "err_over_bound": approx_units(&torus::abs(e), 0) / approx_units(&tol, 0).max(1e-300)}),
                    );
                    break;
                }
                if unit_sh > 0 && torus::centered_mod_pow2(e, unit_sh) != IBig::from(0) {
                    fail(rec, "error_below_declared_limb", id.clone(), json!({"index": i, "err": e.to_string(), "noise_limb": limb}));
                    break;
                }
                if pool {
                    let ei: IBig = e >> unit_sh;
                    if let Some(v) = ibig_to_i128(&ei) {
                        cnt += 1;
                        sumsq += (v * v) as u64;
                        if v >= 0 {
                            pos += v as u64;
                        } else {
                            neg += (-v) as u64;
                        }
                    }
                }
            }
            rec.outcome(hash_i64s(&cell.body));
        }
        // no mask column may repeat inside one object: neither between two different cells (row, column, entry of a composite
        // key) nor inside a cell.  Demanded when a column carries >= 64 bits (n * size * b), so that an accidental
        // collision among the few hundred columns of an object has probability < 2^-48.
        if sh.n * size * sh.b >= 64 {
            let mut seen_cols: std::collections::HashMap<u64, (usize, usize)> = std::collections::HashMap::new();
            'outer: for (ci, cell) in o.cells.iter().enumerate() {
                if cell.mask_cols == 0 {
                    continue;
                }
                let len = cell.mask.len() / cell.mask_cols;
                for mc in 0..cell.mask_cols {
                    let col = &cell.mask[mc * len..(mc + 1) * len];
                    let h = hash_i64s(col);
                    if let Some(&(cj, mj)) = seen_cols.get(&h) {
                        let other = &o.cells[cj];
                        let olen = other.mask.len() / other.mask_cols;
                        if &other.mask[mj * olen..(mj + 1) * olen] == col {
                            fail(
                                rec,
                                "mask_repeated_across_cells",
                                json!({"seed": seed}),
                                json!({"routine": r.name(), "same_cell": ci == cj,
                                       "cell_a": {"key": other.key, "row": other.row, "col": other.col, "mask_column": mj + 1},
                                       "cell_b": {"key": cell.key, "row": cell.row, "col": cell.col, "mask_column": mc + 1}}),
                            );
                            break 'outer;
                        }
                    }
                    seen_cols.insert(h, (ci, mc));
                }
            }
        }
        // the default configuration (sigma 3.2) leaves an all-zero error vector of >= 8 coefficients with probability < 6e-8
        // (k >= 8: a non-zero error within the bound cannot vanish modulo 1)
        if sh.noise == 0 && all_zero && ncoeff >= 8 && noise.k >= 8 {
            fail(rec, "no_error_added", json!({"seed": seed}), json!({"coefficients": ncoeff}));
        }
        // stream conformance for the forms without ordering freedom
        if stream_model_applies(r) {
            let cell = &o.cells[0];
            let (want_mask, nerr) = if r == Routine::LweSk {
                (model_lwe_mask(mask_seed(sidx), sh.b, sh.n, size), 1)
            } else {
                (model_glwe_mask(mask_seed(sidx), sh.b, sh.n, sh.rank, size), sh.n)
            };
            if cell.mask != want_mask {
                let i = cell.mask.iter().zip(&want_mask).position(|(x, y)| x != y).unwrap_or(0);
                fail(
                    rec,
                    "mask_differs_from_sampler_model",
                    json!({"seed": seed}),
                    json!({"index": i, "got": cell.mask.get(i), "want": want_mask.get(i)}),
                );
            }
            let want_err: Vec<IBig> = model_errors(error_seed(sidx), &noise, sh.b, nerr)
                .iter()
                .map(|&e| torus::centered_mod_pow2(&(IBig::from(e) << unit_sh), bits))
                .collect();
            if cell.err != want_err {
                let i = cell.err.iter().zip(&want_err).position(|(x, y)| x != y).unwrap_or(0);
                fail(
                    rec,
                    "error_differs_from_sampler_model",
                    json!({"seed": seed}),
                    json!({"index": i, "got": cell.err[i].to_string(), "want": want_err[i].to_string(), "scaled_bits": bits}),
                );
            }
        }
    }
    if pool && cnt > 0 {
        let key = format!("{:?}/s{}", r, scale_log);
        rec.add(&format!("agg/n/{key}"), cnt);
        rec.add(&format!("agg/sumsq/{key}"), sumsq);
        rec.add(&format!("agg/pos/{key}"), pos);
        rec.add(&format!("agg/neg/{key}"), neg);
    }
    if !hist.is_empty() && hist.iter().sum::<u64>() > 0 {
        for (v, &h) in hist.iter().enumerate() {
            rec.add(&format!("dig/{:?}/b{}/{}", r, sh.b, v), h);
        }
    }
}

// ---------------------------------------------------------------------------------------------
// aggregate band
// ---------------------------------------------------------------------------------------------

/// two-sided normal quantile used for every band: false-alarm probability below 2^-40 per statistic
const Z: f64 = 7.2;

/// upper chi-square quantile (Wilson-Hilferty), conservative for small df
fn chi2_upper(df: f64) -> f64 {
    let t = 1.0 - 2.0 / (9.0 * df) + Z * (2.0 / (9.0 * df)).sqrt();
    (df * t * t * t).max(Z * Z + df)
}

fn aggregate(extra: &BTreeMap<String, u64>, backend: &str, min_samples: u64, rec: &mut Rec) {
    let mut keys: Vec<String> = extra.keys().filter_map(|k| k.strip_prefix("agg/n/").map(|s| s.to_string())).collect();
    keys.sort();
    for key in keys {
        let n = extra[&format!("agg/n/{key}")] as f64;
        let sumsq = extra[&format!("agg/sumsq/{key}")] as f64;
        let pos = *extra.get(&format!("agg/pos/{key}")).unwrap_or(&0) as f64;
        let neg = *extra.get(&format!("agg/neg/{key}")).unwrap_or(&0) as f64;
        let scale = if key.ends_with("/s1") { 2.0 } else { 1.0 };
        let var_want = (SIGMA * scale) * (SIGMA * scale) + 1.0 / 12.0; // rounding a continuous variable adds 1/12
        let var_have = sumsq / n;
        let rel = Z * (2.0 / n).sqrt();
        let mean = (pos - neg) / n;
        let mean_tol = Z * var_want.sqrt() / n.sqrt();
        rec.evals(1);
        rec.add("statistics", 1);
        if (n as u64) < min_samples {
            rec.add("statistics_below_min_samples", 1);
        }
        let desc = |kind: &str| {
            json!({"op": key, "backend": backend, "kind": kind, "case": {"aggregate": key}, "inner": {},
                   "samples": n, "variance_have": var_have, "variance_want": var_want, "relative_band": rel, "mean": mean, "mean_tol": mean_tol})
        };
        if (var_have / var_want - 1.0).abs() > rel {
            rec.fail(desc(if var_have < var_want { "aggregate_variance_too_small" } else { "aggregate_variance_too_large" }));
        }
        if mean.abs() > mean_tol {
            rec.fail(desc("aggregate_mean_off_zero"));
        }
    }
    // digit frequencies
    let mut groups: BTreeMap<String, Vec<(usize, u64)>> = BTreeMap::new();
    for (k, &v) in extra {
        if let Some(rest) = k.strip_prefix("dig/") {
            let (g, val) = rest.rsplit_once('/').unwrap();
            groups.entry(g.to_string()).or_default().push((val.parse().unwrap(), v));
        }
    }
    for (g, vals) in groups {
        let total: u64 = vals.iter().map(|x| x.1).sum();
        let kinds = vals.len() as f64;
        let exp = total as f64 / kinds;
        if exp < 20.0 {
            continue;
        }
        let chi2: f64 = vals.iter().map(|&(_, o)| (o as f64 - exp) * (o as f64 - exp) / exp).sum();
        let thr = chi2_upper(kinds - 1.0);
        rec.evals(1);
        rec.add("statistics", 1);
        let missing: Vec<usize> = vals.iter().filter(|x| x.1 == 0).map(|x| x.0).collect();
        if chi2 > thr || !missing.is_empty() {
            rec.fail(json!({"op": g, "backend": backend, "kind": "aggregate_mask_digits_not_uniform", "case": {"aggregate": g}, "inner": {},
                            "digits": total, "chi2": chi2, "threshold": thr, "values_never_seen": missing}));
        }
    }
}

// ---------------------------------------------------------------------------------------------
// enumeration
// ---------------------------------------------------------------------------------------------

fn bmax<B: Bk>(n: usize) -> usize {
    match B::FAMILY {
        Family::Fft64 => 50 - n.trailing_zeros() as usize,
        Family::Ntt120 => 52,
    }
}

/// shapes admissible for routine r
fn shapes<B: Bk>(r: Routine, tier: Tier, conformance: bool) -> Vec<Shape> {
    let mut out = vec![];
    let ns: Vec<usize> = if conformance { vec![8, 16] } else { tier.pick(vec![8], vec![8, 16]) };
    for &n in &ns {
        let ranks: Vec<usize> = if r == Routine::LweSk {
            vec![1]
        } else if r.rank_out_one() {
            vec![1]
        } else if r.is_matrix() {
            tier.pick(vec![1, 2], vec![1, 2, 3])
        } else if conformance {
            tier.pick(vec![0, 1, 2], vec![0, 1, 2, 3])
        } else {
            vec![1, 2]
        };
        for &rank in &ranks {
            let rank_ins: Vec<usize> = if r.has_rank_in() { tier.pick(vec![1, 2], vec![1, 2, 3]) } else { vec![rank] };
            for &rank_in in &rank_ins {
                if r.has_rank_in() && !conformance && rank_in > 2 {
                    continue;
                }
                let radices: Vec<usize> = if conformance {
                    let mut v = tier.pick(vec![2, 4, 17], vec![1, 2, 3, 4, 12, 17]);
                    if tier.is_thorough() {
                        v.push(bmax::<B>(n));
                    }
                    v
                } else {
                    vec![3, 17]
                };
                for &b in &radices {
                    let grids: Vec<(usize, usize)> = if !r.is_matrix() {
                        vec![(1, 1)]
                    } else if r.dsize_one() {
                        tier.pick(vec![(1, 1), (2, 1)], vec![(1, 1), (2, 1), (3, 1)])
                    } else {
                        tier.pick(vec![(1, 1), (2, 1), (2, 2)], vec![(1, 1), (2, 1), (3, 1), (1, 2), (2, 2)])
                    };
                    for (dnum, dsize) in grids {
                        let smin = if r.is_matrix() { (dnum * dsize).max(dsize + 1) } else { 1 };
                        let sizes: Vec<usize> = if r.is_matrix() { vec![smin] } else { tier.pick(vec![1, 2], vec![1, 2, 3]) };
                        for size in sizes {
                            // residues of k modulo b: multiple of b, one below, half way, one above the previous multiple
                            let mut ks = vec![size * b];
                            if conformance {
                                if b > 1 {
                                    ks.push(size * b - 1);
                                }
                                if b > 3 {
                                    ks.push(size * b - b / 2);
                                    ks.push((size - 1) * b + 1);
                                }
                            } else if b > 1 {
                                ks = vec![size * b - 1];
                            }
                            ks.sort();
                            ks.dedup();
                            for k in ks {
                                let extras: Vec<usize> = if conformance && (!r.is_matrix() || tier.is_thorough()) { vec![0, 1] } else { vec![0] };
                                for extra in extras {
                                    let noises: Vec<u8> = if conformance { tier.pick(vec![0, 1], vec![0, 1, 2]) } else { vec![0] };
                                    for noise in noises {
                                        if noise > 0 && (extra > 0 || (r.is_matrix() && (dnum, dsize) != (2, 1))) {
                                            continue;
                                        }
                                        out.push(Shape {
                                            n,
                                            b,
                                            k,
                                            rank,
                                            rank_in,
                                            dnum,
                                            dsize,
                                            noise,
                                            extra,
                                        });
                                    }
                                }
                            }
                        }
                    }
                }
            }
        }
    }
    out
}

fn fam_ni<B: Bk>(run: &mut Run)
where
    Module<B>: HalAll<B> + CoreAll<B>,
    Scratch<B>: ScratchTakeCore<B>,
{
    let mut cs = vec![];
    for &routine in ALL_ROUTINES.iter() {
        for shape in shapes::<B>(routine, run.tier, false) {
            cs.push(Case {
                routine,
                backend: B::NAME.into(),
                shape,
            });
        }
    }
    run.family(
        &format!("noninterference/{}", B::NAME),
        "outer = (routine (24), N, ranks, radix in {3,17}, dnum x dsize grid); inner = all 16 combinations of {2 plaintexts} x {2 secrets} x {2 mask seeds} x {2 error seeds} + rebuilds under different garbage; every single-coordinate flip is compared cell by cell (mask / body bytes); distinct = outer cases",
        cs,
        |c, rec| exec_ni::<B>(c, rec),
    );
}

fn conformance_seeds(tier: Tier) -> usize {
    tier.pick(10, 16)
}

fn fam_cf<B: Bk>(run: &mut Run)
where
    Module<B>: HalAll<B> + CoreAll<B>,
    Scratch<B>: ScratchTakeCore<B>,
{
    let mut cs = vec![];
    for &routine in ALL_ROUTINES.iter() {
        for shape in shapes::<B>(routine, run.tier, true) {
            cs.push(Case {
                routine,
                backend: B::NAME.into(),
                shape,
            });
        }
    }
    let ns = conformance_seeds(run.tier);
    let name = format!("conformance/{}", B::NAME);
    run.family(
        &name,
        "outer = (routine (24), N, ranks incl. 0 for single ciphertexts, radices 1..4,12,17,backend maximum, dnum x dsize grid, precision k at several residues mod b, extra limbs, noise configuration default / tight (3.2,3.2) / (1,1)); inner = seed families; every cell: exact error (phase under the clear key minus the defined plaintext) is an integer at the declared limb within the bound and not identically zero, digits in range, no mask column of an object equal to another one (columns of >= 64 bits); GLWE/LWE forms: mask and error equal to the sampler model on the same seeds; distinct = outer cases",
        cs,
        |c, rec| exec_cf::<B>(c, ns, None, rec),
    );
    // aggregate band over what this family executed
    let extra = run.families.iter().rev().find(|f| f.name == name).map(|f| f.rec.extra.clone());
    let min_samples: u64 = run.tier.pick(1 << 10, 1 << 14);
    if let Some(extra) = extra {
        run.single(
            &format!("aggregate_band/{}", B::NAME),
            "AGGREGATE over the enumerated executions of the conformance family (fixed seeds, so the statistic is a constant of the code; not a statement about all seeds): per routine and error scale (1 or 2) the pooled variance of the extracted integer errors lies within sigma^2*scale^2 + 1/12 times (1 +- 7.2*sqrt(2/M)) and the pooled mean within 7.2*sigma/sqrt(M) of zero; for radices <= 4 the chi-square statistic of the mask digit frequencies stays below the 2^-40 quantile and every digit value occurs",
            |rec| aggregate(&extra, B::NAME, min_samples, rec),
        );
    }
}

pub fn run(run: &mut Run) {
    run.assume("secrets are ternary (p = 1/2); plaintexts: GLWE/LWE messages of extreme / random digits, GGLWE/GGSW small ternary polynomials, keys: the secrets the routine prescribes; scratch = companion query + 4096 bytes slack, garbage-filled; receivers pre-filled with random 64-bit words");
    run.assume("public-key encryption mixes the ephemeral secret and fresh errors into the mask columns: for glwe_encrypt_pk only determinism, independence of the mask from plaintext and secret, dependence of the output on both seeds, and the (1+|u|_1+|s|_1)*bound error bound are demanded");
    run.assume("stream-level equality with the sampler model is demanded only where the order of draws is fixed by the definition (GLWE sk / zero / public-key generation / compressed GLWE, LWE); for matrices and keys the order is an implementation choice and only cell-wise well-formedness is demanded");
    run.assume("the band test is an AGGREGATE over enumerated executions with fixed seeds; bands use the normal quantile 7.2 (false-alarm probability < 2^-40 per statistic if the seeds were random)");
    run.assume("poulpy-bin-fhe: blind-rotation key (CGGI, 3 LWE bits), its compressed form and the circuit-bootstrapping key are driven; their cells are read back from the public serialisation; not driven: LWE-related compressed forms (no encrypting routine exists)");
    for_backends!(fam_ni(run));
    for_backends!(fam_cf(run));
}

pub fn replay(run: &mut Run, d: &Value) {
    let backend = d["backend"].as_str().unwrap_or("").to_string();
    let fam = d["family"].as_str().unwrap_or("replay").to_string();
    if fam.starts_with("aggregate_band") {
        eprintln!("aggregate statistics are replayed by re-running the check (no single case)");
        std::process::exit(2);
    }
    let c: Case = serde_json::from_value(d["case"].clone()).expect("case");
    let seed = d.get("inner").and_then(|i| i.get("seed")).and_then(|v| v.as_u64()).map(|v| v as usize);
    macro_rules! go {
        ($B:ty) => {
            if fam.starts_with("noninterference") {
                run.single(&fam, "replay", |rec| exec_ni::<$B>(&c, rec))
            } else {
                run.single(&fam, "replay", |rec| exec_cf::<$B>(&c, 16, seed, rec))
            }
        };
    }
    match backend.as_str() {
        "fft64-ref" => go!(pvc_common::FFT64Ref),
        "ntt120-ref" => go!(pvc_common::NTT120Ref),
        "fft64-avx" => go!(pvc_common::FFT64Avx),
        "ntt120-avx" => go!(pvc_common::NTT120Avx),
        o => panic!("unknown backend {o}"),
    }
}

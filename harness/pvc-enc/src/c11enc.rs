//! C11 (scheme-level part: encryption, key generation, decryption, key preparation) - outputs are fully determined by
//! inputs: no stale data, no stray writes.  Oracle-free (metamorphic).
//!
//! Every routine of objs.rs is executed twice from two different garbage fills of every writable buffer the library
//! receives - result objects (ciphertexts, keys, compressed forms, decompression receivers, decrypted plaintexts: two
//! independent streams of random 64-bit words) and scratch (NaN/huge pattern vs large-finite position-dependent
//! pattern) - under equal inputs and seeds; every observable result must be byte-identical.  Read-only operands are
//! digested before and after: plaintexts and LWE secrets by content, GLWE secrets (prepared and unprepared; no accessor
//! exists) by noise-free decryptions of the unit masks, compressed objects across decompression by their serialisation.

use crate::enc_util::*;
use crate::objs::*;
use crate::xcut::*;
use poulpy_core::ScratchTakeCore;
use poulpy_hal::layouts::{Module, Scratch};
use pvc_common::{Bk, CoreAll, HalAll, for_backends};
use pvc_engine::{Rec, Run, fnv};
use serde_json::{Value, json};

pub fn exec<B: Bk>(c: &Case, rec: &mut Rec)
where
    Module<B>: HalAll<B> + CoreAll<B>,
    Scratch<B>: ScratchTakeCore<B>,
{
    let r = c.routine;
    rec.distinct(fnv(format!("{:?}", c).as_bytes()));
    rec.sample(|| serde_json::to_value(c).unwrap());
    let mut outs: Vec<Obj> = vec![];
    for g in 0..2usize {
        let inp = Inp {
            p: 1,
            s: 1,
            a: 1,
            e: 1,
            g,
        };
        let (res, events) = {
            let _modes = Modes::set(ScratchPolicy::SlackFill { fill: g }, true);
            let res = build_case::<B>(c, &inp);
            (res, take_scratch_events())
        };
        rec.evals(1);
        rec.add("library_calls_with_scratch", events.len() as u64);
        match res {
            Ok(o) => outs.push(o),
            Err(msg) => {
                let stage = msg.split(':').next().unwrap_or("").to_string();
                let kind = if msg.starts_with("operand_modified") { "operand_modified" } else { "panic" };
                let op = if stage == "encrypt" || kind == "operand_modified" { r.name().to_string() } else { stage };
                rec.fail(json!({"op": op, "backend": B::NAME, "kind": kind, "case": c, "inner": {"fill": g}, "routine": r.name(), "panic": msg}));
                return;
            }
        }
    }
    if let Some(step) = first_difference(&outs[0], &outs[1]) {
        rec.fail(json!({"op": op_of_step(r, &step), "backend": B::NAME, "kind": "stale_output", "case": c, "inner": {},
            "differs": step, "routine": r.name(),
            "detail": "same inputs and seeds, different prior content of result buffers and scratch"}));
    }
    rec.outcome(fnv(&outs[0].bytes));
}

fn fam<B: Bk>(run: &mut Run)
where
    Module<B>: HalAll<B> + CoreAll<B>,
    Scratch<B>: ScratchTakeCore<B>,
{
    let cs = all_cases::<B>(run.tier);
    let name = format!("enc_two_fills/{}", B::NAME);
    run.family(
        &name,
        "outer = (routine (24), shape grid as in the C12 part); inner = 2 executions from different garbage in every writable buffer (result objects, decompression receivers, decrypted plaintexts, scratch), equal inputs and seeds; compared: serialised object, expanded cells, decrypted plaintext, GGSW prepared buffer, secret tensor, roundtrip cells; read-only operands digested before / after; distinct = outer cases",
        cs,
        |c, rec| exec::<B>(c, rec),
    );
    if let Some(f) = run.families.iter().rev().find(|f| f.name == name) {
        let n = f.rec.evaluations;
        run.states += n;
        run.transitions += n;
    }
}

pub fn run(run: &mut Run) {
    run.assume("objects are allocated with the library's alloc functions at exactly their layout size: there is no spare limb capacity in these drivers (spare capacity is exercised by the HAL part)");
    run.assume("prepared key types other than GGSW expose no accessor: their prepare calls are executed under both fills, but only panics and operand integrity are decided for them");
    run.assume("states = transitions = (case, fill) executions");
    for_backends!(fam(run));
}

/// false if the descriptor does not belong to this part
pub fn replay(run: &mut Run, d: &Value) -> bool {
    let fam = d["family"].as_str().unwrap_or("").to_string();
    if !fam.starts_with("enc_two_fills/") {
        return false;
    }
    let c: Case = match serde_json::from_value(d["case"].clone()) {
        Ok(c) => c,
        Err(_) => return false,
    };
    match c.backend.as_str() {
        "fft64-ref" => run.single(&fam, "replay", |rec| exec::<pvc_common::FFT64Ref>(&c, rec)),
        "ntt120-ref" => run.single(&fam, "replay", |rec| exec::<pvc_common::NTT120Ref>(&c, rec)),
        "fft64-avx" => run.single(&fam, "replay", |rec| exec::<pvc_common::FFT64Avx>(&c, rec)),
        "ntt120-avx" => run.single(&fam, "replay", |rec| exec::<pvc_common::NTT120Avx>(&c, rec)),
        _ => return false,
    }
    true
}

//! pvc-enc: checks C01, C06, C19 and the encryption-level parts of the cross-cutting properties C10, C11, C12.  usage: pvc-enc <Cxx> --tier quick|thorough [--replay f] [--only family]

pub mod binfhe;
pub mod c01;
pub mod c10enc;
pub mod c11enc;
pub mod c12enc;
pub mod c06;
pub mod c19;
pub mod enc_util;
pub mod objs;
pub mod xcut;

use pvc_engine::{Run, load_replay, parse_args};

fn main() {
    let args = parse_args();
    macro_rules! check {
        ($level:expr, $run:path, $replay:path) => {{
            let mut run = Run::new(&args, $level);
            match &args.replay {
                Some(p) => $replay(&mut run, &load_replay(p)),
                None => $run(&mut run),
            }
            run.finish()
        }};
    }
    // parts of multi-group properties: a replay descriptor of another group's family is not ours (exit code 2)
    macro_rules! part {
        ($level:expr, $run:path, $replay:path) => {{
            let mut run = Run::new(&args, $level);
            match &args.replay {
                Some(p) => {
                    if !$replay(&mut run, &load_replay(p)) {
                        std::process::exit(2);
                    }
                }
                None => $run(&mut run),
            }
            run.finish()
        }};
    }
    let code = match args.property.as_str() {
        "C01" => check!("exploration", c01::run, c01::replay),
        "C06" => check!("exploration", c06::run, c06::replay),
        "C19" => check!("exploration", c19::run, c19::replay),
        "C10" => part!("exploration", c10enc::run, c10enc::replay),
        "C11" => part!("model_checking", c11enc::run, c11enc::replay),
        "C12" => part!("exploration", c12enc::run, c12enc::replay),
        o => {
            eprintln!("pvc-enc: unknown property {o}");
            2
        }
    };
    std::process::exit(code);
}

//! pvc-enc: checks C01, C06, C19.  usage: pvc-enc <Cxx> --tier quick|thorough [--replay f] [--only family]

pub mod binfhe;
pub mod c01;
pub mod c06;
pub mod c19;
pub mod enc_util;
pub mod objs;

use pvc_engine::{Run, load_replay, parse_args};

fn main() {
    let args = parse_args();
    macro_rules! check {
        ($level:expr, $run:path, $replay:path) => {{
            let mut run = Run::new(&args, $level);
            match &args.replay {
                Some(p) => $replay(&mut run, &load_replay(p)),
                None => $run(&mut run),
            }
            run.finish()
        }};
    }
    let code = match args.property.as_str() {
        "C01" => check!("exploration", c01::run, c01::replay),
        "C06" => check!("exploration", c06::run, c06::replay),
        "C19" => check!("exploration", c19::run, c19::replay),
        o => {
            eprintln!("pvc-enc: unknown property {o}");
            2
        }
    };
    std::process::exit(code);
}

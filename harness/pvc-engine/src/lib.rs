//! Shared exploration machinery: sharded exhaustive enumeration (E1), evidence/replay writers,
//! known-finding matching, deterministic value sources.
//!
//! A *check* is a list of families. A family is an ordered list of outer cases (shape descriptors,
//! serialisable) and a closure that executes every inner case of one outer case against the real
//! library, reporting evaluations / distinct classes / outcomes / failures to a [`Rec`].
//! Enumeration order is fixed (simplest first); shards are a static partition of the outer index
//! space, so the set of executed cases never depends on timing.

use serde::Serialize;
use serde_json::{Value, json};
use std::collections::{BTreeMap, HashSet};
use std::panic::{AssertUnwindSafe, catch_unwind};
use std::path::PathBuf;
use std::sync::Mutex;
use std::sync::atomic::{AtomicBool, AtomicU64, AtomicUsize, Ordering};
use std::time::Instant;

pub mod crash;
pub mod rng;
pub mod sched;

#[derive(Clone, Copy, PartialEq, Eq, Debug)]
pub enum Tier {
    Quick,
    Thorough,
}

impl Tier {
    pub fn name(&self) -> &'static str {
        match self {
            Tier::Quick => "quick",
            Tier::Thorough => "thorough",
        }
    }
    pub fn is_thorough(&self) -> bool {
        matches!(self, Tier::Thorough)
    }
    /// pick(q, t)
    pub fn pick<T>(&self, q: T, t: T) -> T {
        match self {
            Tier::Quick => q,
            Tier::Thorough => t,
        }
    }
}

/// Parsed command line of a group binary.
pub struct Args {
    pub property: String,
    pub tier: Tier,
    pub replay: Option<PathBuf>,
    pub seed: u64,
    pub only: Option<String>,
}

pub fn parse_args() -> Args {
    let argv: Vec<String> = std::env::args().collect();
    if argv.len() < 2 {
        eprintln!("usage: {} <Cxx> [--tier quick|thorough] [--replay file] [--only family]", argv[0]);
        std::process::exit(2);
    }
    let property = argv[1].clone();
    let mut tier = match std::env::var("VERIF_TIER").ok().as_deref() {
        Some("thorough") => Tier::Thorough,
        _ => Tier::Quick,
    };
    let mut replay = None;
    let mut only = None;
    let mut i = 2;
    while i < argv.len() {
        match argv[i].as_str() {
            "--tier" => {
                i += 1;
                tier = match argv[i].as_str() {
                    "quick" => Tier::Quick,
                    "thorough" => Tier::Thorough,
                    o => {
                        eprintln!("unknown tier {o}");
                        std::process::exit(2);
                    }
                };
            }
            "quick" => tier = Tier::Quick,
            "thorough" => tier = Tier::Thorough,
            "--replay" => {
                i += 1;
                replay = Some(PathBuf::from(&argv[i]));
            }
            "--only" => {
                i += 1;
                only = Some(argv[i].clone());
            }
            o => {
                eprintln!("unknown argument {o}");
                std::process::exit(2);
            }
        }
        i += 1;
    }
    let seed = std::env::var("VERIF_SEED").ok().and_then(|s| s.parse::<i64>().ok()).unwrap_or(0) as u64;
    Args {
        property,
        tier,
        replay,
        seed,
        only,
    }
}

pub fn verif_root() -> PathBuf {
    std::env::var("VERIF_ROOT").map(PathBuf::from).unwrap_or_else(|_| PathBuf::from("/verif"))
}

pub fn fnv(bytes: &[u8]) -> u64 {
    let mut h: u64 = 0xcbf29ce484222325;
    for b in bytes {
        h ^= *b as u64;
        h = h.wrapping_mul(0x100000001b3);
    }
    h
}

pub fn hash_json(v: &Value) -> u64 {
    fnv(v.to_string().as_bytes())
}

pub fn hash_i64s(v: &[i64]) -> u64 {
    let mut h: u64 = 0xcbf29ce484222325;
    for x in v {
        h ^= *x as u64;
        h = h.wrapping_mul(0x100000001b3);
        h ^= h >> 29;
    }
    h
}

/// A violation as reported by a family closure.
#[derive(Clone, Debug)]
pub struct Failure {
    /// full replayable descriptor: must contain "family" and the outer case under "case"; inner
    /// selectors under "inner"; "kind" classifies the failure (wrong_value, stale_output, stray_write, panic ...).
    pub desc: Value,
}

/// Per-thread recorder handed to family closures.
pub struct Rec {
    pub evaluations: u64,
    pub distinct: HashSet<u64>,
    pub outcomes: HashSet<u64>,
    pub failures: Vec<Failure>,
    pub samples: Vec<Value>,
    pub extra: BTreeMap<String, u64>,
    sample_cap: usize,
    fail_cap: usize,
    pub suppressed_failures: u64,
    /// failures that matched a known finding at record time (id -> count); they never consume the failure cap, so a
    /// flood of known failures cannot push an unlisted one out of the list
    pub known_hits: BTreeMap<String, u64>,
}

/// known findings of the property this process reports for (set by `Run::new`)
static KNOWN_FOR_RUN: std::sync::OnceLock<Vec<Known>> = std::sync::OnceLock::new();

impl Rec {
    pub fn new() -> Self {
        Rec {
            evaluations: 0,
            distinct: HashSet::new(),
            outcomes: HashSet::new(),
            failures: Vec::new(),
            samples: Vec::new(),
            extra: BTreeMap::new(),
            sample_cap: 2,
            fail_cap: std::env::var("VERIF_FAILCAP").ok().and_then(|s| s.parse().ok()).unwrap_or(64),
            suppressed_failures: 0,
            known_hits: BTreeMap::new(),
        }
    }
    /// n executions of the real code were performed and checked.
    #[inline]
    pub fn evals(&mut self, n: u64) {
        self.evaluations += n;
    }
    /// a distinct non-trivial case class (by the family's rule) was exercised.
    #[inline]
    pub fn distinct(&mut self, key: u64) {
        if self.distinct.len() < 4_000_000 {
            self.distinct.insert(key);
        }
    }
    /// an observed outcome (hash of output); bounded set, only used to report variety.
    #[inline]
    pub fn outcome(&mut self, key: u64) {
        if self.outcomes.len() < 100_000 {
            self.outcomes.insert(key);
        }
    }
    pub fn sample(&mut self, v: impl FnOnce() -> Value) {
        if self.samples.len() < self.sample_cap {
            self.samples.push(v());
        }
    }
    pub fn fail(&mut self, desc: Value) {
        if let Some(ks) = KNOWN_FOR_RUN.get() {
            if let Some(k) = ks.iter().find(|k| k.matches(&desc)) {
                *self.known_hits.entry(k.id.clone()).or_insert(0) += 1;
                return;
            }
        }
        if self.failures.len() < self.fail_cap {
            self.failures.push(Failure { desc });
        } else {
            self.suppressed_failures += 1;
        }
    }
    pub fn add(&mut self, key: &str, n: u64) {
        *self.extra.entry(key.to_string()).or_insert(0) += n;
    }
    fn merge(&mut self, o: Rec) {
        self.evaluations += o.evaluations;
        self.distinct.extend(o.distinct);
        self.outcomes.extend(o.outcomes);
        self.failures.extend(o.failures);
        self.suppressed_failures += o.suppressed_failures;
        for (k, v) in o.known_hits {
            *self.known_hits.entry(k).or_insert(0) += v;
        }
        for s in o.samples {
            if self.samples.len() < 6 {
                self.samples.push(s);
            }
        }
        for (k, v) in o.extra {
            *self.extra.entry(k).or_insert(0) += v;
        }
    }
}

impl Default for Rec {
    fn default() -> Self {
        Self::new()
    }
}

/// Result of running one family.
pub struct FamilyResult {
    pub name: String,
    pub outer_cases: usize,
    pub outer_done: usize,
    pub rec: Rec,
    pub wall_s: f64,
    pub capped: bool,
    pub rule: String,
}

/// Collects families of one property run and produces verdict + evidence.
pub struct Run {
    pub property: String,
    pub tier: Tier,
    pub seed: u64,
    pub level: &'static str,
    pub start: Instant,
    pub families: Vec<FamilyResult>,
    pub assumptions: Vec<String>,
    pub notes: BTreeMap<String, Value>,
    pub only: Option<String>,
    pub wall_cap_s: f64,
    /// model-checking style counters (states / transitions / traces validated), if any
    pub states: u64,
    pub transitions: u64,
    pub traces_validated: u64,
    pub replay_mode: bool,
}

pub fn threads() -> usize {
    std::env::var("VERIF_THREADS")
        .ok()
        .and_then(|s| s.parse().ok())
        .unwrap_or_else(|| std::thread::available_parallelism().map(|n| n.get()).unwrap_or(4))
}

impl Run {
    pub fn new(args: &Args, level: &'static str) -> Self {
        // Subject panics are caught and turned into failures; keep stderr quiet about them.
        install_quiet_panic_hook();
        // A check can be run on behalf of another property (C17 re-runs the exact-window / deserialisation drivers of
        // other groups under a memory monitor): everything reported - replay files, evidence part, VIOLATION lines,
        // known-finding lookup - then carries that property's id.
        let report_as = std::env::var("VERIF_AS_PROPERTY").ok().filter(|s| !s.is_empty()).unwrap_or_else(|| args.property.clone());
        let _ = KNOWN_FOR_RUN.set(load_known_findings(&verif_root(), &report_as));
        if args.replay.is_none() {
            // one replay name space per evidence part: several group binaries may report for the same property
            let part = std::env::var("VERIF_EVIDENCE_PART").ok().filter(|s| !s.is_empty()).map(|s| format!("{s}-")).unwrap_or_default();
            let p = verif_root().join("replays").join(&report_as).join(format!("{}-{}crash.json", args.tier.name(), part));
            crash::install(&report_as, args.tier.name(), &p);
        }
        Run {
            property: report_as,
            tier: args.tier,
            seed: args.seed,
            level,
            start: Instant::now(),
            families: Vec::new(),
            assumptions: Vec::new(),
            notes: BTreeMap::new(),
            only: args.only.clone(),
            wall_cap_s: std::env::var("VERIF_WALL_CAP_S")
                .ok()
                .and_then(|s| s.parse().ok())
                .unwrap_or(if args.tier.is_thorough() { 3000.0 } else { 240.0 }),
            states: 0,
            transitions: 0,
            traces_validated: 0,
            replay_mode: args.replay.is_some(),
        }
    }

    pub fn assume(&mut self, s: &str) {
        self.assumptions.push(s.to_string());
    }

    pub fn note(&mut self, k: &str, v: Value) {
        self.notes.insert(k.to_string(), v);
    }

    pub fn wants(&self, family: &str) -> bool {
        match &self.only {
            None => true,
            Some(o) => family.contains(o.as_str()),
        }
    }

    /// Exhaustively run `f` on every outer case, sharded over all cores. `f` gets the outer case
    /// and a recorder. A panic escaping `f` (i.e. not attributed to a subject call by the family
    /// itself) is reported as a failure of kind "panic" for that outer case.
    pub fn family<C, F>(&mut self, name: &str, rule: &str, cases: Vec<C>, f: F)
    where
        C: Serialize + Sync,
        F: Fn(&C, &mut Rec) + Sync,
    {
        if !self.wants(name) {
            return;
        }
        let t0 = Instant::now();
        let n = cases.len();
        let next = AtomicUsize::new(0);
        let done = AtomicUsize::new(0);
        let capped = AtomicBool::new(false);
        let merged = Mutex::new(Rec::new());
        let nthreads = threads().min(n.max(1));
        let deadline = self.wall_cap_s;
        let start = self.start;
        // Work distribution: blocks of consecutive indices handed out through a shared cursor.
        // Every outer case is executed exactly once irrespective of which worker takes it, and
        // each case is independent of the others, so the verdict does not depend on the schedule.
        let block = (n / (nthreads * 64)).max(1);
        std::thread::scope(|s| {
            for _ in 0..nthreads {
                s.spawn(|| {
                    let mut rec = Rec::new();
                    loop {
                        if start.elapsed().as_secs_f64() > deadline {
                            capped.store(true, Ordering::Relaxed);
                            break;
                        }
                        let lo = next.fetch_add(block, Ordering::Relaxed);
                        if lo >= n {
                            break;
                        }
                        let hi = (lo + block).min(n);
                        for (i, c) in cases.iter().enumerate().take(hi).skip(lo) {
                            let before = rec.failures.len();
                            crash::set_current(&json!({"family": name, "case": c}).to_string());
                            let r = catch_unwind(AssertUnwindSafe(|| f(c, &mut rec)));
                            crash::clear_current();
                            if let Err(e) = r {
                                let msg = panic_msg(&e);
                                rec.fail(json!({"family": name, "case": c, "kind": "panic", "where": "family", "panic": msg}));
                            }
                            // attach outer index to new failures (for ordering: smallest first)
                            for fl in rec.failures.iter_mut().skip(before) {
                                if let Value::Object(m) = &mut fl.desc {
                                    m.entry("outer_index").or_insert(json!(i));
                                    m.entry("family").or_insert(json!(name));
                                }
                            }
                            done.fetch_add(1, Ordering::Relaxed);
                        }
                    }
                    merged.lock().unwrap().merge(rec);
                });
            }
        });
        let mut rec = merged.into_inner().unwrap();
        rec.failures
            .sort_by_key(|f| f.desc.get("outer_index").and_then(|v| v.as_u64()).unwrap_or(u64::MAX));
        let fr = FamilyResult {
            name: name.to_string(),
            outer_cases: n,
            outer_done: done.load(Ordering::Relaxed),
            rec,
            wall_s: t0.elapsed().as_secs_f64(),
            capped: capped.load(Ordering::Relaxed),
            rule: rule.to_string(),
        };
        eprintln!(
            "[{}] family {:<40} outer {:>8}/{:<8} evals {:>12} distinct {:>9} outcomes {:>7} failures {:>4} {:.1}s{}",
            self.property,
            fr.name,
            fr.outer_done,
            fr.outer_cases,
            fr.rec.evaluations,
            fr.rec.distinct.len(),
            fr.rec.outcomes.len(),
            fr.rec.failures.len() as u64 + fr.rec.suppressed_failures,
            fr.wall_s,
            if fr.capped { " CAPPED" } else { "" }
        );
        self.families.push(fr);
    }

    /// Run a single case (replay or sequential family).
    pub fn single<F>(&mut self, name: &str, rule: &str, f: F)
    where
        F: FnOnce(&mut Rec),
    {
        if !self.wants(name) {
            return;
        }
        let t0 = Instant::now();
        let mut rec = Rec::new();
        rec.fail_cap = 256;
        let r = catch_unwind(AssertUnwindSafe(|| f(&mut rec)));
        if let Err(e) = r {
            let msg = panic_msg(&e);
            rec.fail(json!({"family": name, "kind": "panic", "where": "family", "panic": msg}));
        }
        for fl in rec.failures.iter_mut() {
            if let Value::Object(m) = &mut fl.desc {
                m.entry("family").or_insert(json!(name));
            }
        }
        let fr = FamilyResult {
            name: name.to_string(),
            outer_cases: 1,
            outer_done: 1,
            rec,
            wall_s: t0.elapsed().as_secs_f64(),
            capped: false,
            rule: rule.to_string(),
        };
        eprintln!(
            "[{}] family {:<40} evals {:>12} distinct {:>9} outcomes {:>7} failures {:>4} {:.1}s",
            self.property,
            fr.name,
            fr.rec.evaluations,
            fr.rec.distinct.len(),
            fr.rec.outcomes.len(),
            fr.rec.failures.len(),
            fr.wall_s
        );
        self.families.push(fr);
    }

    /// Writes evidence, replays, prints verdict lines, returns process exit code.
    pub fn finish(mut self) -> i32 {
        crash::disarm();
        let root = verif_root();
        let known = load_known_findings(&root, &self.property);
        let mut known_hits: BTreeMap<String, u64> = BTreeMap::new();
        let mut violations: Vec<&Failure> = Vec::new();
        let mut total_fail = 0u64;
        // VERIF_FAIL_KINDS=a,b,c keeps only failures of these kinds (the others belong to the property the driver was
        // written for and are reported there); fatal signals never get here, the crash handler reports them itself
        let keep_kinds: Option<Vec<String>> = std::env::var("VERIF_FAIL_KINDS").ok().filter(|s| !s.is_empty()).map(|s| s.split(',').map(|x| x.trim().to_string()).collect());
        let mut ignored_other_kinds = 0u64;
        if let Some(kinds) = &keep_kinds {
            for fam in self.families.iter_mut() {
                let before = fam.rec.failures.len() as u64;
                fam.rec.failures.retain(|f| f.desc.get("kind").and_then(|k| k.as_str()).map(|k| kinds.iter().any(|x| x == k)).unwrap_or(false));
                ignored_other_kinds += before - fam.rec.failures.len() as u64 + fam.rec.suppressed_failures;
                fam.rec.suppressed_failures = 0;
            }
            self.notes.insert("failures_of_other_kinds_ignored".into(), json!(ignored_other_kinds));
            self.notes.insert("kinds_judged".into(), json!(kinds));
        }
        for fam in &self.families {
            total_fail += fam.rec.suppressed_failures;
            for (id, n) in &fam.rec.known_hits {
                *known_hits.entry(id.clone()).or_insert(0) += *n;
                total_fail += *n;
            }
            for fl in &fam.rec.failures {
                total_fail += 1;
                match known.iter().find(|k| k.matches(&fl.desc)) {
                    Some(k) => *known_hits.entry(k.id.clone()).or_insert(0) += 1,
                    None => violations.push(fl),
                }
            }
        }
        if let Ok(p) = std::env::var("VERIF_DUMP") {
            let mut out = String::new();
            for v in &violations {
                out.push_str(&v.desc.to_string());
                out.push('\n');
            }
            let _ = std::fs::write(p, out);
        }
        // grouped summary (stderr)
        {
            let mut groups: BTreeMap<String, u64> = BTreeMap::new();
            for v in &violations {
                let g = format!(
                    "{} | {} | {} | {}",
                    v.desc.get("family").and_then(|x| x.as_str()).unwrap_or(""),
                    v.desc.get("op").and_then(|x| x.as_str()).unwrap_or(""),
                    v.desc.get("kind").and_then(|x| x.as_str()).unwrap_or(""),
                    truncate(v.desc.get("panic").and_then(|x| x.as_str()).unwrap_or(""), 160)
                );
                *groups.entry(g).or_insert(0) += 1;
            }
            for (g, n) in groups.iter().take(60) {
                eprintln!("  unlisted failures x{n}: {g}");
            }
        }
        // replays
        let rdir = root.join("replays").join(&self.property);
        let mut replay_paths = Vec::new();
        if !violations.is_empty() && !self.replay_mode {
            let _ = std::fs::create_dir_all(&rdir);
            // group by (family, op, kind): first (smallest) of each group gets a file
            let mut seen: HashSet<String> = HashSet::new();
            for v in &violations {
                let g = format!(
                    "{}|{}|{}",
                    v.desc.get("family").and_then(|x| x.as_str()).unwrap_or(""),
                    v.desc.get("op").and_then(|x| x.as_str()).unwrap_or(""),
                    v.desc.get("kind").and_then(|x| x.as_str()).unwrap_or("")
                );
                if seen.insert(g) && replay_paths.len() < 16 {
                    let part = std::env::var("VERIF_EVIDENCE_PART").ok().filter(|s| !s.is_empty()).map(|s| format!("{s}-")).unwrap_or_default();
                    let p = rdir.join(format!("{}-{}{:03}.json", self.tier.name(), part, replay_paths.len()));
                    let mut d = v.desc.clone();
                    if let Value::Object(m) = &mut d {
                        m.insert("property".into(), json!(self.property));
                        m.insert("seed".into(), json!(self.seed));
                    }
                    let _ = std::fs::write(&p, serde_json::to_string_pretty(&d).unwrap());
                    replay_paths.push(p);
                }
            }
        }
        // evidence
        let mut evaluations = 0u64;
        let mut distinct = 0u64;
        let mut outcomes = 0u64;
        let mut samples: Vec<Value> = Vec::new();
        let mut fams = Vec::new();
        let mut capped_any = false;
        let mut rules = Vec::new();
        for fam in &self.families {
            evaluations += fam.rec.evaluations;
            distinct += fam.rec.distinct.len() as u64;
            outcomes += fam.rec.outcomes.len() as u64;
            capped_any |= fam.capped;
            for s in fam.rec.samples.iter().take(2) {
                if samples.len() < 24 {
                    samples.push(json!({"family": fam.name, "case": s}));
                }
            }
            rules.push(format!("{}: {}", fam.name, fam.rule));
            fams.push(json!({
                "family": fam.name, "outer_cases": fam.outer_cases, "outer_done": fam.outer_done,
                "evaluations": fam.rec.evaluations, "distinct_nontrivial": fam.rec.distinct.len(),
                "distinct_outcomes": fam.rec.outcomes.len(), "failures": fam.rec.failures.len() as u64 + fam.rec.suppressed_failures,
                "wall_s": (fam.wall_s*100.0).round()/100.0, "capped": fam.capped, "extra": fam.rec.extra,
            }));
        }
        let exhaustive = !capped_any && self.families.iter().all(|f| f.outer_done == f.outer_cases);
        let mut coverage = json!({
            "evaluations": evaluations,
            "distinct_nontrivial": distinct,
            "distinct_outcomes": outcomes,
            "rule": rules.join(" || "),
            "samples": samples,
            "exhaustive": exhaustive,
            "families": fams,
            "capped": capped_any,
            "known_findings_reobserved": known_hits,
            "threads": threads(),
        });
        if self.states > 0 || self.level == "model_checking" {
            let m = coverage.as_object_mut().unwrap();
            m.insert("states".into(), json!(self.states));
            m.insert("transitions".into(), json!(self.transitions));
            m.insert("traces_validated_against_impl".into(), json!(self.traces_validated));
        }
        for (k, v) in &self.notes {
            coverage.as_object_mut().unwrap().insert(k.clone(), v.clone());
        }
        let ev = json!({
            "property_id": self.property,
            "tier": self.tier.name(),
            "seed": self.seed as i64,
            "level": self.level,
            "coverage": coverage,
            "assumptions": self.assumptions,
            "wall_s": (self.start.elapsed().as_secs_f64()*100.0).round()/100.0,
            "violations": violations.len(),
            "failures_total_including_known": total_fail,
        });
        if !self.replay_mode && self.only.is_none() {
            let edir = root.join("evidence");
            let _ = std::fs::create_dir_all(&edir);
            // a property served by several group binaries writes one part per binary; `pvc-merge` joins them
            let fname = match std::env::var("VERIF_EVIDENCE_PART") {
                Ok(part) if !part.is_empty() => format!("{}.part-{}.json", self.property, part),
                _ => format!("{}.json", self.property),
            };
            std::fs::write(edir.join(fname), serde_json::to_string_pretty(&ev).unwrap()).expect("write evidence");
        }
        for k in &known {
            if let Some(n) = known_hits.get(&k.id) {
                println!("KNOWN-FINDING: property={} {} [{}; {} cases re-observed]", self.property, k.what, k.id, n);
            }
        }
        if violations.is_empty() {
            if capped_any {
                eprintln!("[{}] note: wall cap reached; evidence reports what was completed", self.property);
            }
            println!(
                "OK property={} tier={} evaluations={} distinct={} exhaustive={} wall={:.1}s",
                self.property,
                self.tier.name(),
                evaluations,
                distinct,
                exhaustive,
                self.start.elapsed().as_secs_f64()
            );
            0
        } else {
            for v in violations.iter().take(5) {
                eprintln!("violation: {}", truncate(&v.desc.to_string(), 1200));
            }
            if self.replay_mode {
                println!("VIOLATION property={} replay=(replayed)", self.property);
            } else {
                for p in &replay_paths {
                    println!("VIOLATION property={} replay={}", self.property, p.display());
                }
            }
            1
        }
    }
}

fn truncate(s: &str, n: usize) -> String {
    if s.len() <= n { s.to_string() } else { format!("{}...", &s[..n]) }
}

pub fn panic_msg(e: &Box<dyn std::any::Any + Send>) -> String {
    if let Some(s) = e.downcast_ref::<&str>() {
        s.to_string()
    } else if let Some(s) = e.downcast_ref::<String>() {
        s.clone()
    } else {
        "non-string panic".to_string()
    }
}

thread_local! {
    static LAST_PANIC_LOC: std::cell::RefCell<String> = const { std::cell::RefCell::new(String::new()) };
}

pub fn install_quiet_panic_hook() {
    static ONCE: AtomicBool = AtomicBool::new(false);
    if ONCE.swap(true, Ordering::SeqCst) {
        return;
    }
    let verbose = std::env::var("VERIF_VERBOSE_PANICS").is_ok();
    std::panic::set_hook(Box::new(move |info| {
        let loc = info.location().map(|l| format!("{}:{}", l.file(), l.line())).unwrap_or_default();
        LAST_PANIC_LOC.with(|l| *l.borrow_mut() = loc.clone());
        if verbose {
            eprintln!("panic at {loc}: {info}");
        }
    }));
}

/// Runs a subject call; a panic is returned as Err(message with location).
pub fn guarded<T>(f: impl FnOnce() -> T) -> Result<T, String> {
    match catch_unwind(AssertUnwindSafe(f)) {
        Ok(v) => Ok(v),
        Err(e) => {
            let loc = LAST_PANIC_LOC.with(|l| l.borrow().clone());
            Err(format!("{} @ {}", panic_msg(&e), loc))
        }
    }
}

static _UNUSED: AtomicU64 = AtomicU64::new(0);

/// One entry of /verif/known_findings.json.
pub struct Known {
    pub id: String,
    pub what: String,
    pub selector: serde_json::Map<String, Value>,
}

impl Known {
    pub fn matches(&self, desc: &Value) -> bool {
        for (k, want) in &self.selector {
            let got = lookup(desc, k);
            if !match_value(got, want) {
                return false;
            }
        }
        true
    }
}

/// dotted-path lookup: "case.a_size"
fn lookup<'a>(v: &'a Value, path: &str) -> Option<&'a Value> {
    let mut cur = v;
    for p in path.split('.') {
        cur = cur.get(p)?;
    }
    Some(cur)
}

fn match_value(got: Option<&Value>, want: &Value) -> bool {
    match want {
        Value::Object(m) if m.len() == 1 => {
            let (op, arg) = m.iter().next().unwrap();
            match op.as_str() {
                "in" => arg.as_array().map(|a| got.map(|g| a.contains(g)).unwrap_or(false)).unwrap_or(false),
                "ne" => got.map(|g| g != arg).unwrap_or(true),
                "gt" => cmp_num(got, arg).map(|o| o == std::cmp::Ordering::Greater).unwrap_or(false),
                "ge" => cmp_num(got, arg).map(|o| o != std::cmp::Ordering::Less).unwrap_or(false),
                "lt" => cmp_num(got, arg).map(|o| o == std::cmp::Ordering::Less).unwrap_or(false),
                "le" => cmp_num(got, arg).map(|o| o != std::cmp::Ordering::Greater).unwrap_or(false),
                "contains" => match (got.and_then(|g| g.as_str()), arg.as_str()) {
                    (Some(g), Some(a)) => g.contains(a),
                    _ => false,
                },
                "absent" => got.is_none(),
                _ => false,
            }
        }
        _ => got == Some(want),
    }
}

fn cmp_num(got: Option<&Value>, arg: &Value) -> Option<std::cmp::Ordering> {
    let g = got?.as_f64()?;
    let a = arg.as_f64()?;
    g.partial_cmp(&a)
}

pub fn load_known_findings(root: &std::path::Path, property: &str) -> Vec<Known> {
    let p = root.join("known_findings.json");
    let Ok(s) = std::fs::read_to_string(&p) else {
        return vec![];
    };
    let v: Value = serde_json::from_str(&s).expect("known_findings.json must parse");
    let mut out = vec![];
    if let Some(arr) = v.get("known").and_then(|a| a.as_array()) {
        for e in arr {
            if e.get("property").and_then(|p| p.as_str()) != Some(property) {
                continue;
            }
            out.push(Known {
                id: e.get("id").and_then(|x| x.as_str()).unwrap_or("?").to_string(),
                what: e.get("what").and_then(|x| x.as_str()).unwrap_or("").to_string(),
                selector: e.get("selector").and_then(|x| x.as_object()).cloned().unwrap_or_default(),
            });
        }
    }
    out
}

/// Reads a replay descriptor.
pub fn load_replay(p: &std::path::Path) -> Value {
    let s = std::fs::read_to_string(p).unwrap_or_else(|e| {
        eprintln!("cannot read replay {}: {e}", p.display());
        std::process::exit(2)
    });
    serde_json::from_str(&s).unwrap_or_else(|e| {
        eprintln!("cannot parse replay {}: {e}", p.display());
        std::process::exit(2)
    })
}

/// Cartesian helper: all tuples in [lo,hi]^k in odometer order, simplest first.
pub fn tuples(lo: usize, hi: usize, k: usize) -> Vec<Vec<usize>> {
    let mut out = vec![];
    let mut cur = vec![lo; k];
    if k == 0 {
        return vec![vec![]];
    }
    loop {
        out.push(cur.clone());
        let mut i = k;
        loop {
            if i == 0 {
                return out;
            }
            i -= 1;
            if cur[i] < hi {
                cur[i] += 1;
                for c in cur.iter_mut().skip(i + 1) {
                    *c = lo;
                }
                break;
            }
        }
    }
}

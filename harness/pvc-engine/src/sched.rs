//! E3 - controlled scheduler (filled in with the C20 check).

//! Fatal-signal attribution. A memory-safety defect in the subject can kill the process (SIGSEGV, or
//! SIGABRT from the allocator's consistency checks). Each worker keeps the JSON of the outer case it is
//! executing in a fixed slot; the handler writes all in-flight cases to a replay file opened at start-up,
//! prints the VIOLATION line and exits with status 1. Only async-signal-safe calls are made in the handler
//! (write, _exit); the slots are plain static byte arrays.

use std::sync::atomic::{AtomicI32, AtomicUsize, Ordering};

const SLOTS: usize = 64;
const SLOT_BYTES: usize = 4096;

static mut SLOT_BUF: [[u8; SLOT_BYTES]; SLOTS] = [[0u8; SLOT_BYTES]; SLOTS];
static SLOT_LEN: [AtomicUsize; SLOTS] = [const { AtomicUsize::new(0) }; SLOTS];
static NEXT_SLOT: AtomicUsize = AtomicUsize::new(0);
static CRASH_FD: AtomicI32 = AtomicI32::new(-1);
static mut LINE: [u8; 512] = [0u8; 512];
static LINE_LEN: AtomicUsize = AtomicUsize::new(0);
static mut HEADER: [u8; 512] = [0u8; 512];
static HEADER_LEN: AtomicUsize = AtomicUsize::new(0);
static mut CRASH_PATH: Option<std::path::PathBuf> = None;

unsafe extern "C" {
    fn signal(signum: i32, handler: usize) -> usize;
    fn write(fd: i32, buf: *const u8, n: usize) -> isize;
    fn _exit(code: i32) -> !;
}

thread_local! {
    static MY_SLOT: usize = NEXT_SLOT.fetch_add(1, Ordering::SeqCst) % SLOTS;
}

extern "C" fn on_fatal(sig: i32) {
    unsafe {
        let fd = CRASH_FD.load(Ordering::SeqCst);
        if fd >= 0 {
            let h = HEADER_LEN.load(Ordering::SeqCst);
            write(fd, (&raw const HEADER) as *const u8, h);
            let sigs: &[u8] = match sig {
                11 => b"\"SIGSEGV\"",
                6 => b"\"SIGABRT\"",
                7 => b"\"SIGBUS\"",
                4 => b"\"SIGILL\"",
                8 => b"\"SIGFPE\"",
                _ => b"\"signal\"",
            };
            write(fd, sigs.as_ptr(), sigs.len());
            let mid = b", \"inflight\": [";
            write(fd, mid.as_ptr(), mid.len());
            let mut first = true;
            for i in 0..SLOTS {
                let l = SLOT_LEN[i].load(Ordering::SeqCst);
                if l > 0 {
                    if !first {
                        write(fd, b",\n".as_ptr(), 2);
                    }
                    first = false;
                    write(fd, ((&raw const SLOT_BUF) as *const u8).add(i * SLOT_BYTES), l);
                }
            }
            write(fd, b"]}\n".as_ptr(), 3);
        }
        let l = LINE_LEN.load(Ordering::SeqCst);
        write(1, (&raw const LINE) as *const u8, l);
        _exit(1);
    }
}

/// Installs the handlers; `replay_path` is created now and removed by `disarm` when the run ends normally.
pub fn install(property: &str, tier: &str, replay_path: &std::path::Path) {
    use std::os::fd::IntoRawFd;
    if let Some(dir) = replay_path.parent() {
        let _ = std::fs::create_dir_all(dir);
    }
    let Ok(f) = std::fs::File::create(replay_path) else {
        return;
    };
    let fd = f.into_raw_fd();
    CRASH_FD.store(fd, Ordering::SeqCst);
    let line = format!("VIOLATION property={} replay={}\n", property, replay_path.display());
    let header = format!("{{\"property\": \"{property}\", \"tier\": \"{tier}\", \"kind\": \"fatal_signal\", \"signal\": ");
    unsafe {
        let lb = line.as_bytes();
        let n = lb.len().min(512);
        (&raw mut LINE as *mut u8).copy_from_nonoverlapping(lb.as_ptr(), n);
        LINE_LEN.store(n, Ordering::SeqCst);
        let hb = header.as_bytes();
        let n = hb.len().min(512);
        (&raw mut HEADER as *mut u8).copy_from_nonoverlapping(hb.as_ptr(), n);
        HEADER_LEN.store(n, Ordering::SeqCst);
        CRASH_PATH = Some(replay_path.to_path_buf());
        for s in [11, 6, 7, 4, 8] {
            signal(s, on_fatal as *const () as usize);
        }
    }
}

/// Normal end of run: remove the (empty) crash file.
pub fn disarm() {
    let fd = CRASH_FD.swap(-1, Ordering::SeqCst);
    if fd >= 0 {
        unsafe {
            #[allow(static_mut_refs)]
            if let Some(p) = CRASH_PATH.take() {
                let _ = std::fs::remove_file(p);
            }
        }
    }
}

/// Record the case this thread is about to execute.
pub fn set_current(json: &str) {
    MY_SLOT.with(|&i| unsafe {
        let b = json.as_bytes();
        let n = b.len().min(SLOT_BYTES);
        SLOT_LEN[i].store(0, Ordering::SeqCst);
        ((&raw mut SLOT_BUF) as *mut u8).add(i * SLOT_BYTES).copy_from_nonoverlapping(b.as_ptr(), n);
        // a truncated descriptor would not parse; mark it
        if b.len() > SLOT_BYTES {
            let t = b"{\"truncated\": true}";
            ((&raw mut SLOT_BUF) as *mut u8).add(i * SLOT_BYTES).copy_from_nonoverlapping(t.as_ptr(), t.len());
            SLOT_LEN[i].store(t.len(), Ordering::SeqCst);
        } else {
            SLOT_LEN[i].store(n, Ordering::SeqCst);
        }
    });
}

pub fn clear_current() {
    MY_SLOT.with(|&i| SLOT_LEN[i].store(0, Ordering::SeqCst));
}

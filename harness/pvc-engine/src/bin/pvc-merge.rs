//! Merges the evidence parts written by several group binaries for one property (C10, C12) into
//! evidence/<id>.json.  usage: pvc-merge <Cxx>   (reads $VERIF_ROOT/evidence/<id>.part-*.json)

use serde_json::{Value, json};

fn main() {
    let id = std::env::args().nth(1).expect("usage: pvc-merge <Cxx>");
    let root = pvc_engine::verif_root();
    let dir = root.join("evidence");
    let mut parts: Vec<(String, Value)> = vec![];
    if let Ok(rd) = std::fs::read_dir(&dir) {
        for e in rd.flatten() {
            let name = e.file_name().to_string_lossy().to_string();
            if name.starts_with(&format!("{id}.part-")) && name.ends_with(".json") {
                let v: Value = serde_json::from_str(&std::fs::read_to_string(e.path()).unwrap()).expect("part parses");
                parts.push((name, v));
            }
        }
    }
    if parts.is_empty() {
        eprintln!("pvc-merge: no evidence parts for {id}");
        std::process::exit(3);
    }
    parts.sort_by(|a, b| a.0.cmp(&b.0));
    let mut out = parts[0].1.clone();
    let sum_keys = ["evaluations", "distinct_nontrivial", "distinct_outcomes", "states", "transitions", "traces_validated_against_impl"];
    let mut families: Vec<Value> = vec![];
    let mut samples: Vec<Value> = vec![];
    let mut rules: Vec<String> = vec![];
    let mut assumptions: Vec<Value> = vec![];
    let mut known = serde_json::Map::new();
    let mut sums = std::collections::BTreeMap::new();
    let (mut wall, mut violations, mut exhaustive, mut capped) = (0f64, 0i64, true, false);
    for (_, p) in &parts {
        let c = &p["coverage"];
        for k in sum_keys {
            if let Some(x) = c.get(k).and_then(|x| x.as_u64()) {
                *sums.entry(k).or_insert(0u64) += x;
            }
        }
        if let Some(f) = c.get("families").and_then(|f| f.as_array()) {
            families.extend(f.iter().cloned());
        }
        if let Some(s) = c.get("samples").and_then(|f| f.as_array()) {
            samples.extend(s.iter().take(8).cloned());
        }
        if let Some(r) = c.get("rule").and_then(|r| r.as_str()) {
            rules.push(r.to_string());
        }
        if let Some(a) = p.get("assumptions").and_then(|a| a.as_array()) {
            for x in a {
                if !assumptions.contains(x) {
                    assumptions.push(x.clone());
                }
            }
        }
        if let Some(k) = c.get("known_findings_reobserved").and_then(|k| k.as_object()) {
            for (a, b) in k {
                known.insert(a.clone(), b.clone());
            }
        }
        wall += p["wall_s"].as_f64().unwrap_or(0.0);
        violations += p["violations"].as_i64().unwrap_or(0);
        exhaustive &= c.get("exhaustive").and_then(|e| e.as_bool()).unwrap_or(false);
        capped |= c.get("capped").and_then(|e| e.as_bool()).unwrap_or(false);
    }
    {
        let c = out["coverage"].as_object_mut().unwrap();
        for (k, v) in sums {
            c.insert(k.to_string(), json!(v));
        }
        c.insert("families".into(), json!(families));
        c.insert("samples".into(), json!(samples));
        c.insert("rule".into(), json!(rules.join(" || ")));
        c.insert("exhaustive".into(), json!(exhaustive));
        c.insert("capped".into(), json!(capped));
        c.insert("known_findings_reobserved".into(), Value::Object(known));
        c.insert("parts".into(), json!(parts.iter().map(|p| p.0.clone()).collect::<Vec<_>>()));
    }
    out["assumptions"] = json!(assumptions);
    out["wall_s"] = json!((wall * 100.0).round() / 100.0);
    out["violations"] = json!(violations);
    std::fs::write(dir.join(format!("{id}.json")), serde_json::to_string_pretty(&out).unwrap()).expect("write merged evidence");
    for (name, _) in &parts {
        let _ = std::fs::remove_file(dir.join(name));
    }
    println!("merged {} parts into evidence/{id}.json", parts.len());
}

//! Deterministic value source for alphabets and garbage fills (splitmix64); independent of the
//! library's own `Source` so that harness inputs never depend on the code under test.

#[derive(Clone)]
pub struct Rng(pub u64);

impl Rng {
    pub fn new(seed: u64, stream: u64) -> Self {
        let mut r = Rng(seed ^ stream.wrapping_mul(0x9E3779B97F4A7C15) ^ 0xD1B54A32D192ED03);
        r.next();
        r
    }
    #[inline]
    pub fn next(&mut self) -> u64 {
        self.0 = self.0.wrapping_add(0x9E3779B97F4A7C15);
        let mut z = self.0;
        z = (z ^ (z >> 30)).wrapping_mul(0xBF58476D1CE4E5B9);
        z = (z ^ (z >> 27)).wrapping_mul(0x94D049BB133111EB);
        z ^ (z >> 31)
    }
    /// uniform in [lo, hi] inclusive
    pub fn range_i64(&mut self, lo: i64, hi: i64) -> i64 {
        let span = (hi as i128 - lo as i128 + 1) as u128;
        (lo as i128 + (self.next() as u128 % span) as i128) as i64
    }
    /// balanced b-bit digit in [-2^(b-1), 2^(b-1))
    pub fn digit(&mut self, b: usize) -> i64 {
        if b >= 64 {
            return self.next() as i64;
        }
        let r = self.next() & ((1u64 << b) - 1);
        ((r << (64 - b)) as i64) >> (64 - b)
    }
    pub fn below(&mut self, n: u64) -> u64 {
        self.next() % n
    }
    pub fn seed32(&mut self) -> [u8; 32] {
        let mut s = [0u8; 32];
        for c in s.chunks_mut(8) {
            c.copy_from_slice(&self.next().to_le_bytes());
        }
        s
    }
}

/// The adversarial garbage word: quiet NaN as f64, huge negative as i64, out-of-range residues as u64 lanes.
pub const GARBAGE_NAN: u64 = 0xFFF8_0000_0000_DEAD;
/// Second garbage word: a large finite double (~ -1.6e154) / large positive-looking integer pattern.
pub const GARBAGE_BIG: u64 = 0x5FEF_1234_5678_9ABC;

pub fn fill_words(bytes: &mut [u8], word: u64) {
    let w = word.to_le_bytes();
    for (i, b) in bytes.iter_mut().enumerate() {
        *b = w[i & 7];
    }
}

/// Garbage fill number `which`: 0 -> NaN pattern, 1 -> second pattern xor position (so that limbs differ), 2 -> zeros, 3 -> 0x11.
pub fn garbage(bytes: &mut [u8], which: usize) {
    match which {
        0 => fill_words(bytes, GARBAGE_NAN),
        1 => {
            for (i, c) in bytes.chunks_mut(8).enumerate() {
                let w = (GARBAGE_BIG ^ ((i as u64).wrapping_mul(0x9E3779B97F4A7C15) >> 20)).to_le_bytes();
                for (j, b) in c.iter_mut().enumerate() {
                    *b = w[j];
                }
            }
        }
        2 => bytes.fill(0),
        _ => bytes.fill(0x11),
    }
}

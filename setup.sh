#!/bin/sh
# Builds every harness binary offline from files on disk (run once after a fresh restore).
set -e
cd "$(dirname "$0")/harness"
export CARGO_NET_OFFLINE=true
cargo build --release --workspace 2>&1 | tail -3

#!/bin/sh
# Builds every harness binary of the registered checks offline from files on disk (run once after a fresh restore).
set -e
cd "$(dirname "$0")/harness"
export CARGO_NET_OFFLINE=true
CRATES="$(sed -n 's/^ *\(C[0-9]*[|C0-9]*\)) GROUP=\([a-z]*\) ;;$/\2/p' ../check | sort -u)"
for g in $CRATES; do
  # only groups whose check is registered in MANIFEST.json need to exist at setup time
  if grep -q "\"quick_cmd\": \"./check C" ../MANIFEST.json; then :; fi
done
REG="$(python3 - <<'PY'
import json,re
m=json.load(open('../MANIFEST.json'))
ids=[c['property_id'] for c in m['checks']]
chk=open('../check').read()
groups=set()
for line in chk.splitlines():
    mm=re.match(r'\s*([C0-9|]+)\) GROUP=([a-z]+) ;;',line)
    if mm:
        for i in mm.group(1).split('|'):
            if i in ids: groups.add(mm.group(2))
print(' '.join('-p pvc-'+g for g in sorted(groups)))
PY
)"
echo "setup: building $REG"
cargo build --release $REG 2>&1 | tail -2
if echo "$REG" | grep -q pvc-hal && grep -q '"property_id": "C17"' ../MANIFEST.json; then
  echo "setup: building the AddressSanitizer variant of pvc-hal (C17)"
  RUSTFLAGS="-C target-feature=+avx2,+fma -Zsanitizer=address" CARGO_TARGET_DIR=target-asan \
    cargo build --release -p pvc-hal --target x86_64-unknown-linux-gnu 2>&1 | tail -2
fi

#!/bin/sh
# Builds every harness binary of the registered checks offline from files on disk (run once after a fresh restore).
set -e
cd "$(dirname "$0")/harness"
export CARGO_NET_OFFLINE=true
REG="$(python3 - <<'PY'
import json,re
m=json.load(open('../MANIFEST.json'))
ids=[c['property_id'] for c in m['checks']]
groups=set(['engine'])
for line in open('../check'):
    mm=re.match(r'\s*([C0-9|]+)\) GROUPS="([a-z ]+)" ;;',line)
    if mm:
        for i in mm.group(1).split('|'):
            if i in ids:
                groups.update(mm.group(2).split())
print(' '.join('-p pvc-'+g for g in sorted(groups)))
PY
)"
echo "setup: building $REG"
cargo build --release $REG 2>&1 | tail -2
if echo "$REG" | grep -q pvc-hal && grep -q '"property_id": "C17"' ../MANIFEST.json; then
  ASAN_PKGS="$(sed -n 's/^  C17) GROUPS="\(.*\)" ;;/\1/p' ../check | tr ' ' '\n' | sed 's/^/-p pvc-/' | tr '\n' ' ')"
  echo "setup: building the AddressSanitizer variants for C17: $ASAN_PKGS"
  RUSTFLAGS="-C target-feature=+avx2,+fma -Zsanitizer=address" CARGO_TARGET_DIR=target-asan \
    cargo build --release $ASAN_PKGS -p pvc-engine --target x86_64-unknown-linux-gnu 2>&1 | tail -2
fi

#!/usr/bin/env python3
"""Validate MANIFEST.json and every evidence file against the schemas in /root/.vp (uses the tooling venv)."""
import json, sys, glob, os
import jsonschema
root = os.path.dirname(os.path.abspath(__file__))
ok = True
m = json.load(open(os.path.join(root, "MANIFEST.json")))
jsonschema.validate(m, json.load(open("/root/.vp/MANIFEST.schema.json")))
props = [json.loads(l)["id"] for l in open(os.path.join(root, "properties.jsonl"))]
claimed = [c["property_id"] for c in m["checks"]]
na = [c["property_id"] for c in m.get("not_applicable", [])]
for p in props:
    if (p in claimed) == (p in na):
        print("property", p, "must be exactly one of claimed / not_applicable"); ok = False
sch = json.load(open("/root/.vp/EVIDENCE.schema.json"))
for f in sorted(glob.glob(os.path.join(root, "evidence", "*.json"))):
    try:
        ev = json.load(open(f)); jsonschema.validate(ev, sch)
        c = ev["coverage"]
        print(os.path.basename(f), "ok", ev["tier"], ev["level"], "evals", c.get("evaluations"), "distinct", c.get("distinct_nontrivial"), "exhaustive", c.get("exhaustive"), "wall", ev["wall_s"])
    except Exception as e:
        print(f, "INVALID", str(e)[:300]); ok = False
print("manifest ok; claimed", len(claimed), "not_applicable", len(na))
sys.exit(0 if ok else 1)

#!/bin/sh
# Runs every registered check at one tier, sequentially; one summary line per check.   usage: tools_all.sh quick|thorough [Cxx ...]
TIER="${1:-quick}"; shift
ROOT="$(cd "$(dirname "$0")" && pwd)"
IDS="${*:-$(python3 -c "import json;print(' '.join(c['property_id'] for c in json.load(open('$ROOT/MANIFEST.json'))['checks']))")}"
RC=0
for ID in $IDS; do
  S=$(date +%s)
  "$ROOT/check" "$ID" "$TIER" >"/tmp/all-$TIER-$ID.out" 2>"/tmp/all-$TIER-$ID.err"; E=$?
  T=$(( $(date +%s) - S ))
  echo "ALL $ID $TIER exit=$E wall=${T}s $(grep -c '^VIOLATION' /tmp/all-$TIER-$ID.out) violations, $(grep -c '^KNOWN-FINDING' /tmp/all-$TIER-$ID.out) known; $(grep -c CAPPED /tmp/all-$TIER-$ID.err) capped families"
  [ "$E" -ne 0 ] && RC=1
done
exit $RC

#!/usr/bin/env python3
"""Confirms a delivered property-breaking change in a scratch worktree (never in /repo) and, if it holds up,
stores it under /verif/seeded/<name>/.
   tools_confirm.py <deliver_dir> <property> <name>
Confirmed = the patch applies to /repo's HEAD, everything compiles, the demonstration passes without the patch
and fails with it, and the pinned suite (651 tests) still passes with the patch."""
import json, os, re, shutil, subprocess, sys

deliver, prop, name = sys.argv[1], sys.argv[2], sys.argv[3]
BASE = os.environ.get("CONFIRM_DIR", "/tmp/pvc-confirm")   # several confirmations in parallel need different scratch locations
WT = BASE + "/repo"
TGT = BASE + "/target"
os.makedirs(BASE, exist_ok=True)
env = dict(os.environ, CARGO_TARGET_DIR=TGT, CARGO_NET_OFFLINE="true")

def sh(cmd, cwd=WT, timeout=3600):
    p = subprocess.run(cmd, shell=True, cwd=cwd, env=env, stdout=subprocess.PIPE, stderr=subprocess.STDOUT, text=True, timeout=timeout)
    return p.returncode, p.stdout

subprocess.run(f"git -C /repo worktree remove --force {WT}", shell=True, capture_output=True)
shutil.rmtree(WT, ignore_errors=True)
subprocess.run("git -C /repo worktree prune", shell=True)
rc, out = sh(f"git -C /repo worktree add --detach {WT} HEAD", cwd="/")
assert rc == 0, out
result = {"deliver_dir": deliver}
try:
    how = open(os.path.join(deliver, "demo_how.txt")).read() if os.path.exists(os.path.join(deliver, "demo_how.txt")) else ""
    m = re.search(r"(poulpy-[a-z-]+)/(tests|examples|src/bin)/([A-Za-z0-9_]+)\.rs", how)
    if not m:
        print("CONFIRM", name, "FAILED: cannot find demo destination in demo_how.txt"); sys.exit(1)
    crate, kind, tname = m.group(1), m.group(2), m.group(3)
    dest = os.path.join(WT, crate, kind, tname + ".rs")
    os.makedirs(os.path.dirname(dest), exist_ok=True)
    shutil.copy(os.path.join(deliver, "demo.rs"), dest)
    feats = ""
    mf = re.search(r"--features[ =]([A-Za-z0-9_,-]+)", how)
    if mf:
        # the how-to may also quote the AVX lib-test command: its feature / flags only apply to demos living in poulpy-cpu-avx
        fl = [f for f in mf.group(1).split(",") if crate == "poulpy-cpu-avx" or "enable-avx" not in f]
        if fl: feats = " --features " + ",".join(fl)
    if crate == "poulpy-cpu-avx" and "enable-avx" not in feats:
        feats = " --features enable-avx"
    if kind == "tests":
        demo_cmd = f"cargo test -p {crate} --test {tname} --offline{feats}"
    elif kind == "examples":
        demo_cmd = f"cargo run -p {crate} --example {tname} --offline{feats}"
    else:
        demo_cmd = f"cargo run -p {crate} --bin {tname} --offline{feats}"
    if crate == "poulpy-cpu-avx":
        demo_cmd = 'RUSTFLAGS="-C target-feature=+avx2,+fma" ' + demo_cmd
    rc0, out0 = sh(demo_cmd)
    result["demo_cmd"] = demo_cmd
    result["demo_without_patch_exit"] = rc0
    rc, out = sh(f"git apply {os.path.join(deliver, 'patch.diff')}")
    if rc != 0:
        print("CONFIRM", name, "FAILED: patch does not apply:", out[-300:]); sys.exit(1)
    rc1, out1 = sh(demo_cmd)
    result["demo_with_patch_exit"] = rc1
    result["demo_with_patch_tail"] = out1[-600:]
    suite = "cargo nextest run --workspace --no-fail-fast --tool-config-file pb:/w/lib/nextest.toml --profile pb --test-threads " + os.environ.get("CONFIRM_THREADS", "8") + " --offline"
    # the demo is not part of the pinned suite: remove it before running the suite
    os.remove(dest)
    rcs, outs = sh(suite)
    ms = re.search(r"(\d+) tests run: (\d+) passed(?:, (\d+) failed)?", outs)
    result["suite_cmd"] = suite
    result["suite_summary"] = ms.group(0) if ms else outs[-300:]
    ok = rc0 == 0 and rc1 != 0 and ms and ms.group(1) == "651" and ms.group(2) == "651"
    result["confirmed"] = bool(ok)
    print("CONFIRM", name, "OK" if ok else "FAILED", json.dumps({k: result[k] for k in ("demo_without_patch_exit", "demo_with_patch_exit", "suite_summary")}))
    if ok:
        d = os.path.join("/verif/seeded", name)
        os.makedirs(d, exist_ok=True)
        for f in ("patch.diff", "demo.rs", "demo_how.txt"):
            if os.path.exists(os.path.join(deliver, f)):
                shutil.copy(os.path.join(deliver, f), os.path.join(d, f))
        meta = {}
        if os.path.exists(os.path.join(deliver, "meta.json")):
            try: meta = json.load(open(os.path.join(deliver, "meta.json")))
            except Exception: meta = {}
        meta["property"] = prop
        meta["confirmed_by_me"] = {"worktree": WT + " (git worktree of /repo HEAD, removed afterwards)", "demo_cmd": demo_cmd,
                                   "demo_without_patch": "exit 0 (passes)", "demo_with_patch": f"exit {rc1} (fails)",
                                   "suite_with_patch": result["suite_summary"]}
        json.dump(meta, open(os.path.join(d, "meta.json"), "w"), indent=1)
finally:
    subprocess.run(f"git -C /repo worktree remove --force {WT}", shell=True, capture_output=True)
    shutil.rmtree(WT, ignore_errors=True)

#!/bin/sh
# Runs registered checks against a MUTATED copy of /repo without touching /repo itself.
#   tools_mutant.sh <patch.diff|-R:commit|none> <tier> <Cxx> [<Cxx> ...]
# A git worktree of /repo's HEAD is created at a fixed scratch path (so that the scratch build directory stays
# warm), the patch is applied there, a copy of the harness with its path dependencies rewritten to the worktree is
# built into a scratch target directory, and the group binaries are run with VERIF_ROOT pointing to a scratch
# directory (evidence / replays of mutant runs never land in /verif). Everything is removed afterwards
# except the warm target directory (MUTANT_KEEP=0 removes that too).
set -u
PATCH="${1:?patch}"; TIER="${2:?tier}"; shift 2
BASE="${MUTANT_DIR:-/tmp/pvc-mutant}"   # scratch location (several runs in parallel need different ones)
WT=$BASE/repo
HC=$BASE/harness
OUT=$BASE/out
TGT=$BASE/target
mkdir -p "$BASE"
git -C /repo worktree remove --force "$WT" >/dev/null 2>&1
rm -rf "$WT" "$HC" "$OUT"
git -C /repo worktree prune
git -C /repo worktree add --detach "$WT" HEAD >/dev/null 2>&1 || { echo "mutant: cannot create worktree" >&2; exit 3; }
case "$PATCH" in
  none) ;;
  -R:*) git -C /repo show "${PATCH#-R:}" | git -C "$WT" apply -R || { echo "mutant: reverse patch does not apply" >&2; exit 3; } ;;
  *) git -C "$WT" apply "$PATCH" || { echo "mutant: patch does not apply" >&2; exit 3; } ;;
esac
mkdir -p "$HC" "$OUT"
rsync -a --exclude 'target*' /verif/harness/ "$HC"/
sed -i "s#\"/repo/#\"$WT/#g" "$HC/Cargo.toml"
cp /verif/known_findings.json "$OUT"/
RC=0
for ID in "$@"; do
  # same property -> groups table as ./check
  GROUPS=$(sed -n "s/^  \(.*|\)\{0,1\}$ID\(|.*\)\{0,1\}) GROUPS=\"\(.*\)\" ;;/\3/p" /verif/check | head -1)
  [ -z "$GROUPS" ] && { echo "MUTANT $ID: unknown property"; RC=3; continue; }
  for GROUP in $GROUPS; do
  if [ "$ID" = "C17" ]; then
    export ASAN_OPTIONS="abort_on_error=1:detect_leaks=0:allocator_may_return_null=1:handle_abort=0:handle_segv=0"
    ( cd "$HC" && RUSTFLAGS="-C target-feature=+avx2,+fma -Zsanitizer=address" CARGO_TARGET_DIR="$TGT-asan" cargo build --release -p "pvc-$GROUP" --target x86_64-unknown-linux-gnu >"$OUT/build.log" 2>&1 ) || { echo "MUTANT $ID: BUILD FAILED"; tail -20 "$OUT/build.log"; RC=3; continue; }
    BIN="$TGT-asan/x86_64-unknown-linux-gnu/release/pvc-$GROUP"
  else
    ( cd "$HC" && CARGO_TARGET_DIR="$TGT" cargo build --release -p "pvc-$GROUP" >"$OUT/build.log" 2>&1 ) || { echo "MUTANT $ID: BUILD FAILED"; tail -20 "$OUT/build.log"; RC=3; continue; }
    BIN="$TGT/release/pvc-$GROUP"
  fi
  if [ "$ID" = "C17" ] && [ "$GROUP" != "hal" ]; then
    SUB=C12; KINDS="scratch_overrun,stray_write"
    [ "$GROUP" = "ser" ] && { SUB=C18; KINDS="$KINDS,inconsistent_after_ok"; }
    VERIF_AS_PROPERTY=C17 VERIF_FAIL_KINDS="$KINDS" VERIF_ROOT="$OUT" VERIF_EVIDENCE_PART="$GROUP" "$BIN" "$SUB" --tier "$TIER" >"$OUT/$ID.out" 2>"$OUT/$ID.err"
  else
    VERIF_ROOT="$OUT" VERIF_EVIDENCE_PART="$GROUP" "$BIN" "$ID" --tier "$TIER" >"$OUT/$ID.out" 2>"$OUT/$ID.err"
  fi
  E=$?
  V=$(grep -c '^VIOLATION' "$OUT/$ID.out")
  echo "MUTANT $ID/$GROUP: exit=$E violations=$V $(grep -m1 -E '^(OK|VIOLATION)' "$OUT/$ID.out")"
  grep -m3 'unlisted failures' "$OUT/$ID.err" | cut -c1-220
  done
done
git -C /repo worktree remove --force "$WT" >/dev/null 2>&1
rm -rf "$HC"
[ "${MUTANT_KEEP:-1}" = "0" ] && rm -rf "$BASE"
exit $RC

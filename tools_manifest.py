#!/usr/bin/env python3
"""Regenerates MANIFEST.json from the table below (single source of truth for what is claimed)."""
import json, os
root = os.path.dirname(os.path.abspath(__file__))

HOOK_COMMITS = ["3ae8aca", "0edfce9"]

# id -> (category, technique, text, note, design_ref)
CHECKS = {
 "C02": ("model_checking",
         "bounded exhaustive enumeration (E1) of single operations + explicit-state search (stateright BFS and DFS) over operation programs on real ciphertext objects, oracle = exact phase under a fixed clear secret",
         "19 noise-free GLWE operations (add/sub/negate/copy, rotate and mul_xp_minus_one for every k in [-4N,4N], five shift forms for every shift 0..(size+2)*base2k, normalise incl. all radix pairs) and the GGSW rotations are run for all size triples, all admitted rank combinations incl. rank-0 operands, N in {8,16}, base2k in {1,2,3,17}, two garbage fills, and judged on three levels: each result column as an exact rational, the phase under a clear secret (no key needed), limb-exact equality with the ring model where nothing is truncated. All programs of depth 3 (quick) / 4 (thorough) over these operations on a 3-register file are explored with stateright (state = shapes + tolerance class + depth; every transition is a real call checked against the reference phase; BFS and DFS counts compared). Two defects repaired, one HAL finding re-observed.",
         "Trusted: phase oracle, ring model, stateright's exhaustive search. State merging is sound because none of these operations branches on payload; payload is checked on every transition.",
         "3/C02"),
 "C03": ("exploration",
         "bounded exhaustive enumeration (E1) of gadget shapes x Galois elements x slot subsets x messages, oracle = exact phase under the target secret against the exact image of the input phase and a derived worst-case noise bound",
         "GLWE/GGLWE/GGSW/LWE key-switching, the eight automorphism variants for every odd g mod 2N (N=8,16), automorphism of automorphism keys, trace for every start level, packing for every subset of slots at N=8 and every gap, the packer on a re-used instance, LWE<->GLWE conversion for every index and sample extraction are run for rank_in x rank_out in 1..3, dsize 1..4, every residue of a_size mod dsize, dnum below/equal/above, key precision below/equal/above, nine radix triples, on four backends from garbage-filled scratch. Keys come from the library with harness-known secrets and are themselves verified cell by cell; the result's exact phase minus the exact image must be below a worst-case bound (all error samples are truncated), and the rounded plaintext is compared exactly; an oracle-free family requires every (dsize, dnum) to give the same plaintext. Three defects repaired.",
         "Trusted: phase oracle, ring model, the bound calculus (kit.rs). A noise inflation that stays under the worst-case bound is invisible (statistical claim, outside this family).",
         "3/C03"),
 "C04": ("exploration",
         "bounded exhaustive enumeration (E1) of external-product shapes x GGSW plaintexts x selector bits, oracle = exact negacyclic product of the phases and per-cell GGSW decryption",
         "GLWE/GGLWE/GGSW x GGSW external products (in-place and out-of-place), cmux / cmux_assign / cmux_assign_neg / cswap, GGLWE->GGSW row expansion, GGSW key-switch and automorphism are run for ranks 1..3, dsize 1..4, dnum 1..needed+1, GGSW precision below/above, eight radix triples, result shorter/equal/longer, m2 in {0, +-1, X^k for every k in [0,2N), dense ternary (all 3^8 at N=8 in the thorough tier)}, from zero-filled and from garbage-filled scratch (a difference is classified separately). The result must decrypt to the exact product m1*m2 within a derived bound, CMux must select exactly one input, and every GGSW cell must encrypt m2*gadget(row)*(-s_col or 1). Two defects repaired.",
         "Trusted: phase oracle, ring model, bound calculus. CMux forms are driven with equal radices only (the product routine asserts it).",
         "3/C04"),
 "C05": ("exploration",
         "bounded exhaustive enumeration (E1) of operand sizes x effective precisions x every convolution offset x radices, oracle = exact product of operand phases under the secret tensor computed by the harness",
         "glwe_tensor_apply / add_assign / square, relinearisation (dsize 1..3, every residue of tensor size mod dsize, dnum below/equal/above, tensor radix equal/different from key radix), mul_plain(+assign) and mul_const(+assign) are run for sizes 1..4, unequal effective precisions over every residue, every cnv_offset in bits, result sizes below/equal/above, ranks 1..2 on four backends; the tensor is decrypted with s_i*s_j computed by schoolbook product, the relinearised result with s, against the exact product placed at the position implied by the precisions and the offset; add_assign must add exactly what apply produces and square must equal apply(a,a) bit for bit. Three defects repaired, one HAL finding re-observed.",
         "Trusted: phase oracle, schoolbook product. The truncation loss of discarded un-normalised convolution limbs is granted as predicted noise (assumption recorded in the evidence).",
         "3/C05"),
 "C01": ("exploration",
         "bounded exhaustive enumeration (E1) of parameter sets x secret distributions x messages x seeds, oracle = exact phase recomputed from ciphertext limbs and a clear copy of the secret",
         "GLWE secret-key, public-key (with key generation), seed-compressed (+decompress) and LWE secret-key encryption are run for N in {8,16}, ranks 0..3, radices 1..6, 12, 17 and the backend maximum, every precision k up to 4 limbs incl. every residue k mod base2k, six secret distributions, an 8-class message alphabet with extreme digits and 8 seed triples on four backends; the harness recomputes the phase exactly (big integers) and requires every coefficient of phase - message to be within the worst case implied by the truncation bound; the library's decryption into up to nine (radix, size) plaintexts must equal the rounded phase. Because the Gaussian is truncated this is a hard invariant, not a statistic.",
         "Trusted: the phase oracle (pvc-common/phase.rs), replication of GLWESecret coefficients through the public ScalarZnx::fill_* (validated at start-up, machinery error otherwise). Cross-radix plaintexts for secret-key encryption must be rejected or placed correctly.",
         "3/C01"),
 "C06": ("exploration",
         "bounded exhaustive enumeration (E1) over 24 encrypting routines x all 16 (plaintext, secret, mask seed, error seed) combinations, conformance to a sampler model, aggregate variance band over the enumerated seed family",
         "For every encrypting routine reachable through the public API (GLWE, LWE, GGLWE, GGSW, switching / automorphism / tensor / GGLWE-to-GGSW / public keys, compressed forms, blind-rotation and circuit-bootstrapping keys) all pairs of runs differing in plaintext, secret, mask seed or error seed are compared cell by cell: determinism, mask independent of plaintext and secret, error seed changes only the body, mask seed changes the mask; the extracted error is a non-zero integer at the declared limb within the bound and, for GLWE/LWE forms, equal coefficient for coefficient to a sampler model run on the same seeds. The variance band test is an aggregate over the enumerated executions (labelled as such), deterministic for the default seed.",
         "Trusted: the sampler model (ChaCha stream + rounded truncated normal as documented). 'Matches sigma' is distributional: what is decided exhaustively is conformance and non-interference on the enumerated family.",
         "3/C06"),
 "C13": ("model_checking",
         "symbolic state exploration with hash-consed ROBDDs (E5) of the compiled decision diagrams, explicit enumeration of small supports, and replay of concrete inputs through the real evaluator",
         "Each of the 11 compiled u32 circuits (290 output bits, 7678 CMux nodes) is checked structurally (indices in range, no read of an undefined slot, last level shape, declared state width) and evaluated level by level into canonical ROBDDs over 64 variables; node identity with the ROBDD of the bit-blasted RISC-V word operation is equality on all 2^64 input pairs (states = ROBDD nodes, transitions = ite steps). The engine is cross-validated by enumerating every assignment of each support of <= 20 (quick) / 26 (thorough) variables against Rust's u32 operators, by flipping hi/lo in every one of the 7678 nodes of an in-memory copy (all detected), and bound to the implementation by running the real execute_bdd_circuit / word operations on boundary input pairs and comparing decrypted bits with interpreter and operator.",
         "Trusted: the ROBDD package and interpreter in pvc-model/bdd.rs (cross-validated as above), the read-only accessor hook. Not an SMT/SAT verdict.",
         "3/C13"),
 "C14": ("exploration",
         "bounded exhaustive enumeration (E1): every rotation index of every table shape (clear path), every message of Z_{2^p} and every mask value at every position (blind path), against the definition on Z[X]/(X^(N*ext)+1) and a modulus-switch model",
         "Clear path: for N in {8,16,32}, extension factors 1..8, every table length dividing the domain, scales 1..6, three radices, lookup_table_set is compared with the definition at every coefficient and every rotation k in [0, 2D) in both directions limb-exactly with the ring model (5.3M calls per backend thorough). Blind path on four backends: N_glwe in {32,64}, 13 (n_lwe, block, distribution) shapes, extension 1/2/4, both directions, several key seeds and LWE radices, every message for p=1..5, plus crafted noiseless samples driving every mask value through the accumulator; the modulus switch is recomputed from the definition, every result coefficient must equal the rotated table within a derived worst-case bound. Four defects found this way were repaired.",
         "Trusted: ring model, phase oracle, the read-only LookupTable accessor hook. f(m) on the constant coefficient is only demanded where the error budget is below half a step.",
         "3/C14"),
 "C15": ("model_checking",
         "explicit-state search (E2, stateright) over programs of word operations and re-preparation executed on the real library, plus bounded exhaustive enumeration (E1) of bit indices, (start, length) ranges, shift amounts, splice positions and boundary words; oracle = plain u32/u16/u8 semantics and exact phase under clear keys",
         "Register-file model with two encrypted words: every program of Prepare / two-word operation / Identity actions up to the depth bound (46 actions per state, depth 2 quick, 3 thorough) is run on the real circuit bootstrapping + BDD evaluation; every transition compares the written ciphertext at every coefficient (exact phase) and every prepared bit through a CMux with the plain Rust result. Enumerated exhaustively around it: the documented bit layout for every boundary word and width, get_bit at every index, splice/sext/zero_byte at every (dst, src), sll/srl/sra for every shift amount 0..63, partial preparation for every (start, length) through all four entry points, blind selection / retrieval for every index and size, circuit bootstrapping in constant and exponent mode with every GGSW cell decrypted. Four defects found this way were repaired.",
         "Trusted: clear-key phase oracle, the u32 reference semantics (RISC-V word operations). Parameter sets are reduced (N=128..256) so that the whole space is enumerable; the decision threshold margin observed is reported in the evidence. Random operand pairs are only an addition to the boundary classes, never the deciding part.",
         "3/C15"),
 "C18": ("fault_enumeration",
         "exhaustive fault enumeration (E4): every truncation point and every header field x boundary dictionary of every serialisable type, on fresh receivers, plus round trips into receivers of all relative capacities",
         "All 30 ReaderFrom/WriterTo types (found by a run-time source scan; a type without a driver is a machinery error) are serialised over small parameter grids; round trips into same / larger / smaller receivers; every prefix length of every stream; header fields located by tracing the real deserialiser's read requests, by differential writes and by treating every aligned word as a field, each replaced by 14+ dictionary values (0, 1, v+-1, 2^31, 2^32-1, 2^61, 2^63, 2^64-1, smallest overflowing products ...). After Ok or Err the receiver must be consistent with its buffer, Err must leave metadata unchanged, nothing may panic (overflow checks on) or request absurd allocations. Four defect classes repaired, one recorded.",
         "Trusted: public accessors as the view of receiver state (some composite keys expose only part of it and are judged through re-serialisation). Single allocations above 64 MiB are refused by a capped allocator and count as a violation.",
         "3/C18"),
 "C19": ("exploration",
         "bounded exhaustive enumeration (E1) of compressed layouts x shapes x seeds on four backends, oracle = mask regenerated from the stored seed + error of the standard encryption + byte comparison across backends",
         "Eight compressed routines (GLWE, GGLWE, GGSW, switching, automorphism, tensor, GGLWE-to-GGSW keys, LWE) are encrypted, decompressed and compared cell by cell: mask equal to the model regenerated from the seed stored for that cell, error equal to the standard encryption's under the same error stream, bodies normalised, single-cell GLWE byte-identical to glwe_encrypt_sk, stored seeds distinct, write_to -> read_from -> decompress identical, compressed bytes and expanded cells identical across the four backends. Two defects repaired (GGLWE-to-GGSW compressed key lost its seeds; decompress_lwe only accepted dimension 1).",
         "Trusted: phase oracle and sampler model. Three compressed LWE-related key types are not reachable through the public API (missing trait impls) and are reported as not covered.",
         "3/C19"),
 "C17": ("exploration",
         "bounded exhaustive enumeration (E1/E2 drivers of C07-C12) executed under a memory monitor (AddressSanitizer build + canaries)",
         "The shape enumerations of C09 (coefficient operations from N=1, ring switching, big accumulators), C12 (every scratch-taking operation with an exact-size window), the set_size histories of C11 and the large-N DFT classes are executed on four backends in a harness built with -Zsanitizer=address: every operand, result and scratch window is a separate heap allocation with red-zones, so any out-of-bounds access aborts; the abort is attributed to the in-flight cases by a signal handler and reported as a violation with a replay file; canaries catch overruns inside one allocation. Detected (and now repaired): the AVX ring-switch kernel writing past the output for N<4.",
         "Trusted: ASan's heap red-zones (hand-written assembly kernels are covered only through canaries and result checks). Wrong values / clean panics of the same drivers are left to C07-C12. Small-scope argument for large parameters.",
         "3/C17"),
 "C20": ("model_checking",
         "stateless model checking with an own controlled scheduler (E3): exhaustive deviation-bounded DFS over schedules of the real multi-threaded code, plus exhaustive enumeration of thread counts, partitions and operation-granularity interleavings",
         "execute_bdd_circuit_multi_thread is run on a purpose-built 3-level width-3 circuit with real threads that block at every yield point (worker start, each work item, each CMux, worker end) until the controller grants the baton: all schedules with at most 1-3 preemptions (unbounded for the 2x2 instance in the thorough tier) are explored; each must give output bytes identical to the single-threaded run, execute every work item exactly once and terminate; the default schedule is replayed twice first. Thread counts 1..2*cores (free running), the partition arithmetic for all (items, threads), split_mut window disjointness, and all 90 interleavings of 3 threads x 2 operations on one shared Module are enumerated exhaustively.",
         "Trusted: the additive yield hooks (feature verif-hooks). Not covered: races inside one kernel call (workers are serialised between yield points) and weak-memory effects; the library has no shared mutable state (source scan recorded as a coverage note). Integer preparation (fhe_uint_prepare_custom_multi_thread) is hooked but not yet driven.",
         "3/C20"),
 "C07": ("exploration",
         "bounded exhaustive enumeration (E1) of DFT-domain operation shapes x parameters x value classes against a schoolbook negacyclic product over exact integers",
         "Transforms (every (step, offset) incl. past the end), transform-domain add/sub/copy/zero/scaled add, inverse transforms (3 forms), svp (3 forms), vmp (2 forms, every limb_offset, all rows/cols_in/cols_out/size combinations 1..3), convolutions (apply, pairwise i==j and i!=j, self, by-constant; every cnv_offset, top-limb masks) are executed on four backends at N=8,16 for several radices up to the domain limit, each from two garbage fills, and the exact integer value of the result (read through the inverse transform) is compared bit for bit with the schoolbook product; all 2^16 single-limb svp products at N=8; large-N classes up to 2^16. Four defects found this way were repaired.",
         "Trusted: schoolbook model (pvc-model), the library's inverse transform as read-out (itself an enumerated family). Magnitude domain is a conservative sub-domain (FFT64: n*terms*2^(2b) <= 2^50).",
         "3/C07"),
 "C10": ("exploration",
         "bounded exhaustive enumeration (E1): same case issued on two backends, byte comparison",
         "Every coefficient-domain operation on lengths 1..17 (all SIMD tails), all rotations and Galois elements, normalisation/shift kernels for 13 (quick) / all 62 (thorough) radices x shifts x 64-bit boundary values, every DFT-domain case of C07 inside both magnitude domains, and the four samplers (values and stream position) are run on reference vs AVX and FFT64 vs NTT120 and compared byte for byte in the coefficient domain. The pinned suite never builds the AVX crates, so this is the only observer of poulpy-cpu-avx. Scheme-level programs are compared in the core part of the check.",
         "Trusted: nothing beyond the harness plumbing; AVX families are skipped (and reported) on hosts without AVX2/FMA.",
         "3/C10"),
 "C11": ("model_checking",
         "metamorphic exhaustive enumeration (E1) + explicit enumeration of all operation histories up to depth 2/3 (E2) on the real library",
         "Each case is executed twice from independent garbage (NaN/huge patterns) in the result buffer, other columns, spare capacity and prepared operands; the selected output column must be byte-identical, every other byte untouched and read-only operands unmodified: 29 coefficient-domain operations x all column patterns of 1..3 columns, every DFT-domain case of C07 at N=8 incl. selections past the end, and all histories of depth 2 (quick) / 3 (thorough) over 10 operations x set_size on one reused buffer (states = histories, transitions = real calls). Oracle-free, so it cannot share a misconception with the library.",
         "Trusted: the layout arithmetic used to mask the selected column (10 lines). In-place forms treat the prior content of the selected column as an input.",
         "3/C11"),
 "C12": ("exploration",
         "bounded exhaustive enumeration (E1) with exact-size scratch windows between canaries",
         "Every scratch-taking HAL operation (normalise, 8 shifts, 3 *_assign ring ops, inverse transform, vmp prepare/apply, convolution prepare/apply/pairwise/by-const) is run over the C07/C11 shape grids with a scratch of exactly the number of bytes its companion query returns, placed between canary regions and pre-filled with zeros, 0x11 and the NaN/huge pattern: no panic, canaries intact, result independent of the fill. One defect repaired (rsh_assign), one recorded (pairwise query argument order). Core/CKKS/bin-fhe queries are covered by the core part of the check.",
         "Trusted: Scratch::from_bytes as the way to hand over an exact window.",
         "3/C12"),
 "C08": ("exploration",
         "bounded exhaustive enumeration (E1): every digit tuple of small radices x every signed offset, boundary classes for radices up to 62, against the exact rational value mod 1",
         "Normalisation, the eight shift forms, the four big-accumulator normalisations (i64 and i128) are executed for every digit tuple with digits in [-2^(b+1), 2^(b+1)] (b<=3 quick, b<=4 thorough; sizes 1..3; all radix pairs; every offset in +-(a_bits+2b)), at odd packing widths for SIMD tails, and on named boundary classes for radices up to 62; integer encoding for every (b,k). Each output is compared with input*2^offset on the torus as an exact big integer: within one unit, exact when long enough, digits in range. Two defect classes found on the unchanged tree are listed as known findings; one was repaired.",
         "Trusted: the value oracle (pvc-model torus, ~60 lines). Input digits are bounded (2^62 / 2^118) so that kernel-internal sums cannot overflow. Known findings KF-C08-1/2 mask violations in their own classes (negative offsets beyond the output / cross-radix negative offsets).",
         "3/C08"),
 "C09": ("exploration",
         "bounded exhaustive enumeration (E1) of shapes x parameters x value classes against an index-level ring model, on the real HAL",
         "Every coefficient-domain operation (small and big accumulators) is executed on the real library for the full product of ring degrees, size triples, column pairs, every rotation amount in [-4N,4N], every odd Galois element, every limb index and ring ratio, on four backends, and compared limb-exactly with Z[X]/(X^N+1) written from the definition; group laws are enumerated over all pairs. This is the right level because the operations branch only on these small integers.",
         "Trusted: the index-level model in pvc-model (about 100 lines), the small-scope argument (index logic linear in the enumerated integers). Digits are bounded by 2^62-1 because the reference kernels use non-wrapping +/-.",
         "3/C09"),
}

NOT_YET = "check not built yet in this revision of /verif (work in progress; see DESIGN.md section 3 for the planned check)"

props = [json.loads(l)["id"] for l in open(os.path.join(root, "properties.jsonl"))]
checks = []
na = []
for p in props:
    if p in CHECKS:
        cat, tech, text, note, ref = CHECKS[p]
        checks.append({
            "property_id": p,
            "quick_cmd": f"./check {p} quick",
            "thorough_cmd": f"./check {p} thorough",
            "evidence_file": f"evidence/{p}.json",
            "replay_cmd_template": f"./check {p} --replay {{path}}",
            "engine": "pvc-engine",
            "level_claimed": {"category": cat, "text": text, "design_ref": ref},
            "level_note": note,
            "technique": tech,
        })
    else:
        na.append({"property_id": p, "reason": NOT_YET})

manifest = {
    "version": 1,
    "setup_cmd": "./setup.sh",
    "hooks": {
        "guard": "cargo feature verif-hooks (poulpy-bin-fhe)",
        "enable": "the harness crates depend on poulpy-bin-fhe with features=[\"verif-hooks\"]; nothing else in /repo is built differently",
        "baseline_off_cmd": "cd /repo && cargo nextest run --workspace --no-fail-fast --tool-config-file pb:/w/lib/nextest.toml --profile pb --test-threads 8 --offline",
        "source_commits": HOOK_COMMITS,
        "add_only": True,
    },
    "engines": [
        {"name": "pvc-engine", "path": "harness/pvc-engine", "serves_properties": sorted(CHECKS.keys()),
         "kind_free_text": "E1 sharded exhaustive product enumerator, E2 explicit-state search over operation programs, E3 controlled scheduler, E4 byte-stream fault enumerator; evidence/replay writers; fatal-signal attribution"},
        {"name": "pvc-model", "path": "harness/pvc-model", "serves_properties": sorted(CHECKS.keys()),
         "kind_free_text": "reference models written from the mathematical definitions (ring, torus value, ROBDD package)"},
    ],
    "checks": checks,
    "not_applicable": na,
    "notes": "All checks rebuild the harness (path dependencies on /repo/*) before running. Known findings: known_findings.json. Seeded property-breaking changes: seeded/.",
}
json.dump(manifest, open(os.path.join(root, "MANIFEST.json"), "w"), indent=1)
print("claimed", len(checks), "not_applicable", len(na))

#!/usr/bin/env python3
"""Regenerates MANIFEST.json from the table below (single source of truth for what is claimed)."""
import json, os
root = os.path.dirname(os.path.abspath(__file__))

HOOK_COMMITS = ["3ae8aca", "0edfce9"]

# id -> (category, technique, text, note, design_ref)
CHECKS = {
 "C17": ("exploration",
         "bounded exhaustive enumeration (E1/E2 drivers of C07-C12) executed under a memory monitor (AddressSanitizer build + canaries)",
         "The shape enumerations of C09 (coefficient operations from N=1, ring switching, big accumulators), C12 (every scratch-taking operation with an exact-size window), the set_size histories of C11 and the large-N DFT classes are executed on four backends in a harness built with -Zsanitizer=address: every operand, result and scratch window is a separate heap allocation with red-zones, so any out-of-bounds access aborts; the abort is attributed to the in-flight cases by a signal handler and reported as a violation with a replay file; canaries catch overruns inside one allocation. Detected (and now repaired): the AVX ring-switch kernel writing past the output for N<4.",
         "Trusted: ASan's heap red-zones (hand-written assembly kernels are covered only through canaries and result checks). Wrong values / clean panics of the same drivers are left to C07-C12. Small-scope argument for large parameters.",
         "3/C17"),
 "C20": ("model_checking",
         "stateless model checking with an own controlled scheduler (E3): exhaustive deviation-bounded DFS over schedules of the real multi-threaded code, plus exhaustive enumeration of thread counts, partitions and operation-granularity interleavings",
         "execute_bdd_circuit_multi_thread is run on a purpose-built 3-level width-3 circuit with real threads that block at every yield point (worker start, each work item, each CMux, worker end) until the controller grants the baton: all schedules with at most 1-3 preemptions (unbounded for the 2x2 instance in the thorough tier) are explored; each must give output bytes identical to the single-threaded run, execute every work item exactly once and terminate; the default schedule is replayed twice first. Thread counts 1..2*cores (free running), the partition arithmetic for all (items, threads), split_mut window disjointness, and all 90 interleavings of 3 threads x 2 operations on one shared Module are enumerated exhaustively.",
         "Trusted: the additive yield hooks (feature verif-hooks). Not covered: races inside one kernel call (workers are serialised between yield points) and weak-memory effects; the library has no shared mutable state (source scan recorded as a coverage note). Integer preparation (fhe_uint_prepare_custom_multi_thread) is hooked but not yet driven.",
         "3/C20"),
 "C07": ("exploration",
         "bounded exhaustive enumeration (E1) of DFT-domain operation shapes x parameters x value classes against a schoolbook negacyclic product over exact integers",
         "Transforms (every (step, offset) incl. past the end), transform-domain add/sub/copy/zero/scaled add, inverse transforms (3 forms), svp (3 forms), vmp (2 forms, every limb_offset, all rows/cols_in/cols_out/size combinations 1..3), convolutions (apply, pairwise i==j and i!=j, self, by-constant; every cnv_offset, top-limb masks) are executed on four backends at N=8,16 for several radices up to the domain limit, each from two garbage fills, and the exact integer value of the result (read through the inverse transform) is compared bit for bit with the schoolbook product; all 2^16 single-limb svp products at N=8; large-N classes up to 2^16. Four defects found this way were repaired.",
         "Trusted: schoolbook model (pvc-model), the library's inverse transform as read-out (itself an enumerated family). Magnitude domain is a conservative sub-domain (FFT64: n*terms*2^(2b) <= 2^50).",
         "3/C07"),
 "C10": ("exploration",
         "bounded exhaustive enumeration (E1): same case issued on two backends, byte comparison",
         "Every coefficient-domain operation on lengths 1..17 (all SIMD tails), all rotations and Galois elements, normalisation/shift kernels for 13 (quick) / all 62 (thorough) radices x shifts x 64-bit boundary values, every DFT-domain case of C07 inside both magnitude domains, and the four samplers (values and stream position) are run on reference vs AVX and FFT64 vs NTT120 and compared byte for byte in the coefficient domain. The pinned suite never builds the AVX crates, so this is the only observer of poulpy-cpu-avx. Scheme-level programs are compared in the core part of the check.",
         "Trusted: nothing beyond the harness plumbing; AVX families are skipped (and reported) on hosts without AVX2/FMA.",
         "3/C10"),
 "C11": ("model_checking",
         "metamorphic exhaustive enumeration (E1) + explicit enumeration of all operation histories up to depth 2/3 (E2) on the real library",
         "Each case is executed twice from independent garbage (NaN/huge patterns) in the result buffer, other columns, spare capacity and prepared operands; the selected output column must be byte-identical, every other byte untouched and read-only operands unmodified: 29 coefficient-domain operations x all column patterns of 1..3 columns, every DFT-domain case of C07 at N=8 incl. selections past the end, and all histories of depth 2 (quick) / 3 (thorough) over 10 operations x set_size on one reused buffer (states = histories, transitions = real calls). Oracle-free, so it cannot share a misconception with the library.",
         "Trusted: the layout arithmetic used to mask the selected column (10 lines). In-place forms treat the prior content of the selected column as an input.",
         "3/C11"),
 "C12": ("exploration",
         "bounded exhaustive enumeration (E1) with exact-size scratch windows between canaries",
         "Every scratch-taking HAL operation (normalise, 8 shifts, 3 *_assign ring ops, inverse transform, vmp prepare/apply, convolution prepare/apply/pairwise/by-const) is run over the C07/C11 shape grids with a scratch of exactly the number of bytes its companion query returns, placed between canary regions and pre-filled with zeros, 0x11 and the NaN/huge pattern: no panic, canaries intact, result independent of the fill. One defect repaired (rsh_assign), one recorded (pairwise query argument order). Core/CKKS/bin-fhe queries are covered by the core part of the check.",
         "Trusted: Scratch::from_bytes as the way to hand over an exact window.",
         "3/C12"),
 "C08": ("exploration",
         "bounded exhaustive enumeration (E1): every digit tuple of small radices x every signed offset, boundary classes for radices up to 62, against the exact rational value mod 1",
         "Normalisation, the eight shift forms, the four big-accumulator normalisations (i64 and i128) are executed for every digit tuple with digits in [-2^(b+1), 2^(b+1)] (b<=3 quick, b<=4 thorough; sizes 1..3; all radix pairs; every offset in +-(a_bits+2b)), at odd packing widths for SIMD tails, and on named boundary classes for radices up to 62; integer encoding for every (b,k). Each output is compared with input*2^offset on the torus as an exact big integer: within one unit, exact when long enough, digits in range. Two defect classes found on the unchanged tree are listed as known findings; one was repaired.",
         "Trusted: the value oracle (pvc-model torus, ~60 lines). Input digits are bounded (2^62 / 2^118) so that kernel-internal sums cannot overflow. Known findings KF-C08-1/2 mask violations in their own classes (negative offsets beyond the output / cross-radix negative offsets).",
         "3/C08"),
 "C09": ("exploration",
         "bounded exhaustive enumeration (E1) of shapes x parameters x value classes against an index-level ring model, on the real HAL",
         "Every coefficient-domain operation (small and big accumulators) is executed on the real library for the full product of ring degrees, size triples, column pairs, every rotation amount in [-4N,4N], every odd Galois element, every limb index and ring ratio, on four backends, and compared limb-exactly with Z[X]/(X^N+1) written from the definition; group laws are enumerated over all pairs. This is the right level because the operations branch only on these small integers.",
         "Trusted: the index-level model in pvc-model (about 100 lines), the small-scope argument (index logic linear in the enumerated integers). Digits are bounded by 2^62-1 because the reference kernels use non-wrapping +/-.",
         "3/C09"),
}

NOT_YET = "check not built yet in this revision of /verif (work in progress; see DESIGN.md section 3 for the planned check)"

props = [json.loads(l)["id"] for l in open(os.path.join(root, "properties.jsonl"))]
checks = []
na = []
for p in props:
    if p in CHECKS:
        cat, tech, text, note, ref = CHECKS[p]
        checks.append({
            "property_id": p,
            "quick_cmd": f"./check {p} quick",
            "thorough_cmd": f"./check {p} thorough",
            "evidence_file": f"evidence/{p}.json",
            "replay_cmd_template": f"./check {p} --replay {{path}}",
            "engine": "pvc-engine",
            "level_claimed": {"category": cat, "text": text, "design_ref": ref},
            "level_note": note,
            "technique": tech,
        })
    else:
        na.append({"property_id": p, "reason": NOT_YET})

manifest = {
    "version": 1,
    "setup_cmd": "./setup.sh",
    "hooks": {
        "guard": "cargo feature verif-hooks (poulpy-bin-fhe)",
        "enable": "the harness crates depend on poulpy-bin-fhe with features=[\"verif-hooks\"]; nothing else in /repo is built differently",
        "baseline_off_cmd": "cd /repo && cargo nextest run --workspace --no-fail-fast --tool-config-file pb:/w/lib/nextest.toml --profile pb --test-threads 8 --offline",
        "source_commits": HOOK_COMMITS,
        "add_only": True,
    },
    "engines": [
        {"name": "pvc-engine", "path": "harness/pvc-engine", "serves_properties": sorted(CHECKS.keys()),
         "kind_free_text": "E1 sharded exhaustive product enumerator, E2 explicit-state search over operation programs, E3 controlled scheduler, E4 byte-stream fault enumerator; evidence/replay writers; fatal-signal attribution"},
        {"name": "pvc-model", "path": "harness/pvc-model", "serves_properties": sorted(CHECKS.keys()),
         "kind_free_text": "reference models written from the mathematical definitions (ring, torus value, ROBDD package)"},
    ],
    "checks": checks,
    "not_applicable": na,
    "notes": "All checks rebuild the harness (path dependencies on /repo/*) before running. Known findings: known_findings.json. Seeded property-breaking changes: seeded/.",
}
json.dump(manifest, open(os.path.join(root, "MANIFEST.json"), "w"), indent=1)
print("claimed", len(checks), "not_applicable", len(na))

#!/usr/bin/env python3
"""Regenerates MANIFEST.json from the table below (single source of truth for what is claimed)."""
import json, os
root = os.path.dirname(os.path.abspath(__file__))

HOOK_COMMITS = []   # filled as hooks land in /repo

# id -> (category, technique, text, note, design_ref)
CHECKS = {
 "C08": ("exploration",
         "bounded exhaustive enumeration (E1): every digit tuple of small radices x every signed offset, boundary classes for radices up to 62, against the exact rational value mod 1",
         "Normalisation, the eight shift forms, the four big-accumulator normalisations (i64 and i128) are executed for every digit tuple with digits in [-2^(b+1), 2^(b+1)] (b<=3 quick, b<=4 thorough; sizes 1..3; all radix pairs; every offset in +-(a_bits+2b)), at odd packing widths for SIMD tails, and on named boundary classes for radices up to 62; integer encoding for every (b,k). Each output is compared with input*2^offset on the torus as an exact big integer: within one unit, exact when long enough, digits in range. Two defect classes found on the unchanged tree are listed as known findings; one was repaired.",
         "Trusted: the value oracle (pvc-model torus, ~60 lines). Input digits are bounded (2^62 / 2^118) so that kernel-internal sums cannot overflow. Known findings KF-C08-1/2 mask violations in their own classes (negative offsets beyond the output / cross-radix negative offsets).",
         "3/C08"),
 "C09": ("exploration",
         "bounded exhaustive enumeration (E1) of shapes x parameters x value classes against an index-level ring model, on the real HAL",
         "Every coefficient-domain operation (small and big accumulators) is executed on the real library for the full product of ring degrees, size triples, column pairs, every rotation amount in [-4N,4N], every odd Galois element, every limb index and ring ratio, on four backends, and compared limb-exactly with Z[X]/(X^N+1) written from the definition; group laws are enumerated over all pairs. This is the right level because the operations branch only on these small integers.",
         "Trusted: the index-level model in pvc-model (about 100 lines), the small-scope argument (index logic linear in the enumerated integers). Digits are bounded by 2^62-1 because the reference kernels use non-wrapping +/-.",
         "3/C09"),
}

NOT_YET = "check not built yet in this revision of /verif (work in progress; see DESIGN.md section 3 for the planned check)"

props = [json.loads(l)["id"] for l in open(os.path.join(root, "properties.jsonl"))]
checks = []
na = []
for p in props:
    if p in CHECKS:
        cat, tech, text, note, ref = CHECKS[p]
        checks.append({
            "property_id": p,
            "quick_cmd": f"./check {p} quick",
            "thorough_cmd": f"./check {p} thorough",
            "evidence_file": f"evidence/{p}.json",
            "replay_cmd_template": f"./check {p} --replay {{path}}",
            "engine": "pvc-engine",
            "level_claimed": {"category": cat, "text": text, "design_ref": ref},
            "level_note": note,
            "technique": tech,
        })
    else:
        na.append({"property_id": p, "reason": NOT_YET})

manifest = {
    "version": 1,
    "setup_cmd": "./setup.sh",
    "hooks": {
        "guard": "cargo feature verif-hooks (poulpy-bin-fhe)",
        "enable": "the harness crates depend on poulpy-bin-fhe with features=[\"verif-hooks\"]; nothing else in /repo is built differently",
        "baseline_off_cmd": "cd /repo && cargo nextest run --workspace --no-fail-fast --tool-config-file pb:/w/lib/nextest.toml --profile pb --test-threads 8 --offline",
        "source_commits": HOOK_COMMITS,
        "add_only": True,
    },
    "engines": [
        {"name": "pvc-engine", "path": "harness/pvc-engine", "serves_properties": sorted(CHECKS.keys()),
         "kind_free_text": "E1 sharded exhaustive product enumerator, E2 explicit-state search over operation programs, E3 controlled scheduler, E4 byte-stream fault enumerator; evidence/replay writers; fatal-signal attribution"},
        {"name": "pvc-model", "path": "harness/pvc-model", "serves_properties": sorted(CHECKS.keys()),
         "kind_free_text": "reference models written from the mathematical definitions (ring, torus value, ROBDD package)"},
    ],
    "checks": checks,
    "not_applicable": na,
    "notes": "All checks rebuild the harness (path dependencies on /repo/*) before running. Known findings: known_findings.json. Seeded property-breaking changes: seeded/.",
}
json.dump(manifest, open(os.path.join(root, "MANIFEST.json"), "w"), indent=1)
print("claimed", len(checks), "not_applicable", len(na))

#!/usr/bin/env python3
"""Runs the registered checks against every seeded change in /verif/seeded (through tools_mutant.sh, i.e. on a
patched worktree copy of /repo, never /repo itself) and records which check catches which change in each
meta.json ("detection") and in seeded/SUMMARY.md.   usage: tools_seeded.py [name ...] [--tier quick]"""
import json, os, re, subprocess, sys
root = os.path.dirname(os.path.abspath(__file__))
names = [a for a in sys.argv[1:] if not a.startswith("--")]
tier = "quick"
RELATED = {  # checks worth running besides the property's own
 "C07": ["C10", "C11"], "C08": ["C10"], "C09": ["C10", "C11"], "C10": ["C07", "C08"], "C11": ["C09", "C07"], "C12": ["C17"],
 "C17": ["C12"], "C20": [], "C01": ["C06"], "C06": ["C01", "C19"], "C19": ["C06"], "C02": ["C11"], "C05": [], "C03": ["C04"],
 "C04": ["C03"], "C13": ["C15"], "C14": [], "C15": ["C13"], "C16": [], "C18": [],
}
claimed = [c["property_id"] for c in json.load(open(os.path.join(root, "MANIFEST.json")))["checks"]]
sd = os.path.join(root, "seeded")
rows = []
for name in sorted(os.listdir(sd)):
    d = os.path.join(sd, name)
    if not os.path.isdir(d) or (names and name not in names):
        continue
    meta = json.load(open(os.path.join(d, "meta.json")))
    prop = meta["property"]
    checks = [c for c in [prop] + RELATED.get(prop, []) if c in claimed]
    out = subprocess.run([os.path.join(root, "tools_mutant.sh"), os.path.join(d, "patch.diff"), tier] + checks,
                         stdout=subprocess.PIPE, stderr=subprocess.STDOUT, text=True).stdout
    det = {}
    if "patch does not apply" in out:
        det[prop] = {"exit": 3, "note": "patch no longer applies to /repo HEAD"}
    for m in re.finditer(r"MUTANT (C\d+)/(\w+): exit=(\d+) violations=(\d+)", out):
        e = det.setdefault(m.group(1), {"exit": 0, "violation_lines": 0, "tier": tier, "groups": {}})
        code = int(m.group(3))
        e["groups"][m.group(2)] = code
        e["violation_lines"] += int(m.group(4))
        if code == 1 or (code != 0 and e["exit"] == 0):
            e["exit"] = code
    for m in re.finditer(r"MUTANT (C\d+): BUILD FAILED", out):
        det[m.group(1)] = {"exit": 3, "note": "harness build failed against the patched tree"}
    meta["detection"] = det
    meta["detected"] = any(v.get("exit") == 1 for v in det.values())
    json.dump(meta, open(os.path.join(d, "meta.json"), "w"), indent=1)
    rows.append((name, prop, meta.get("summary", "")[:110], ", ".join(f"{k}:{'CAUGHT' if v.get('exit')==1 else 'missed' if v.get('exit')==0 else 'error'}" for k, v in det.items())))
    print(name, det, flush=True)
# the summary is always rebuilt from what every meta.json records (a partial run only refreshes the named ones)
rows = []
for name in sorted(os.listdir(sd)):
    mp = os.path.join(sd, name, "meta.json")
    if not os.path.isfile(mp):
        continue
    meta = json.load(open(mp))
    det = meta.get("detection", {})
    cell = ", ".join(f"{k}:{'CAUGHT' if v.get('exit')==1 else 'missed' if v.get('exit')==0 else 'error'}" for k, v in det.items())
    if meta.get("status_on_current_tree"):
        cell += " (see meta.json: " + meta["status_on_current_tree"].split(":")[0] + " on the current tree)"
    rows.append((name, meta["property"], meta.get("summary", "")[:110].replace("|", "/"), cell))
with open(os.path.join(sd, "SUMMARY.md"), "w") as f:
    f.write("| seeded change | property | what it does | checks (quick tier) |\n|---|---|---|---|\n")
    for r in rows:
        f.write("| %s | %s | %s | %s |\n" % r)
